//! C32 correspondence: `rten_generate::Generator` driven through its public API against a
//! mock `rten_generate::model::Model` that records every call.
//!
//!   c32 gen <seed> <n> <tier>     print input lines `kind layers cap|op op op ...`
//!   c32 exec                      read input lines, print `tag \t input \t coq-case`
//!
//! kind: 0 = model without KV-cache inputs, 1 = decoder KV cache (batch,heads,seq,chans),
//!       2 = decoder KV cache (batch,seq,chans), 3 = encoder-decoder ("merged" Optimum style,
//!       with `use_cache_branch`).  cap: 0 = default KV-cache capacity, n = Some(n).
//! ops:  W<toks> with_prompt, A<toks> append_prompt, C clear_prompt, P process_prompt,
//!       N<tok> next() where the model's logits select <tok>, F next() with a logits filter
//!       that removes every candidate (next() returns an error after the model ran).
//!
//! The mock returns, for call number k and cache entry e, a fresh tensor filled with the
//! value `16*k + e + 1` whose sequence length is `input length + number of tokens`; on input
//! it reads the fill value back, so "which tensor came in" is observable even though the
//! generator may re-allocate the buffer.  Encoder (cross-attention) entries are returned with
//! content only when `use_cache_branch == 0` and as empty dummies otherwise.
use std::cell::{Cell, RefCell};
use std::error::Error;
use std::io::{BufRead, Write};
use std::panic::{AssertUnwindSafe, catch_unwind};
use std::rc::Rc;

use rten::{Dimension, NodeId, RunOptions, Value, ValueOrView};
use rten_generate::filter::LogitsFilter;
use rten_generate::model::{Model, NodeInfo};
use rten_generate::{Generator, GeneratorConfig, Logits, ModelInputsConfig};
use rten_tensor::prelude::*;
use rten_tensor::{NdTensor, Tensor};
use vh_generator::*;

const VOCAB: usize = 64;
const HEADS: usize = 2;
const CHANS: usize = 2;
const TAG_MISSING: u64 = 4294967295;
const TAG_MIXED: u64 = 4294967294;

#[derive(Clone, Default)]
struct CallLog {
    tokens: Vec<u32>,
    pos: Vec<i64>,
    cpos: Vec<i64>,
    mask: u64,
    flag: Option<i64>,
    kv_in: Vec<(u64, u64)>,
    enc_in: Vec<(u64, u64)>,
    kv_out: Vec<(u64, u64)>,
    enc_out: Vec<Option<(u64, u64)>>,
    logits: bool,
    bad: u64,
}

struct Mock {
    nodes: Vec<NodeInfo>,
    inputs: Vec<NodeId>,
    dims3: bool,
    id_input_ids: NodeId,
    id_mask: NodeId,
    id_pos: NodeId,
    id_cpos: NodeId,
    id_flag: Option<NodeId>,
    id_logits: NodeId,
    dec_in: Vec<NodeId>,
    dec_out: Vec<NodeId>,
    enc_in: Vec<NodeId>,
    enc_out: Vec<NodeId>,
    calls: RefCell<Vec<CallLog>>,
    next_tok: Cell<u32>,
}

impl Mock {
    fn new(kind: u32, layers: usize) -> Mock {
        let mut in_names: Vec<(String, Vec<Dimension>)> = vec![
            ("input_ids".into(), vec![]),
            ("attention_mask".into(), vec![]),
            ("position_ids".into(), vec![]),
            ("cache_position".into(), vec![]),
        ];
        let mut out_names: Vec<(String, Vec<Dimension>)> = vec![("logits".into(), vec![])];
        let dims3 = kind == 2;
        let dims: Vec<Dimension> = if dims3 {
            vec![Dimension::Symbolic("batch".into()), Dimension::Symbolic("seq".into()), Dimension::Fixed(CHANS)]
        } else {
            vec![
                Dimension::Symbolic("batch".into()),
                Dimension::Fixed(HEADS),
                Dimension::Symbolic("seq".into()),
                Dimension::Fixed(CHANS),
            ]
        };
        let (mut dec_in_n, mut dec_out_n, mut enc_in_n, mut enc_out_n) = (vec![], vec![], vec![], vec![]);
        if kind != 0 {
            for l in 0..layers {
                if kind == 3 {
                    for kv in ["key", "value"] {
                        dec_in_n.push(format!("past_key_values.{}.decoder.{}", l, kv));
                        dec_out_n.push(format!("present.{}.decoder.{}", l, kv));
                        enc_in_n.push(format!("past_key_values.{}.encoder.{}", l, kv));
                        enc_out_n.push(format!("present.{}.encoder.{}", l, kv));
                    }
                } else {
                    for kv in ["key", "value"] {
                        dec_in_n.push(format!("past_key_values.{}.{}", l, kv));
                        dec_out_n.push(format!("present.{}.{}", l, kv));
                    }
                }
            }
            // interleave decoder / encoder inputs per layer the way an exported model lists them
            for i in 0..dec_in_n.len() {
                in_names.push((dec_in_n[i].clone(), dims.clone()));
                out_names.push((dec_out_n[i].clone(), dims.clone()));
                if kind == 3 {
                    in_names.push((enc_in_n[i].clone(), dims.clone()));
                    out_names.push((enc_out_n[i].clone(), dims.clone()));
                }
            }
            if kind == 3 {
                in_names.push(("use_cache_branch".into(), vec![]));
            }
        }
        let n_in = in_names.len();
        let nodes: Vec<NodeInfo> = in_names
            .iter()
            .chain(out_names.iter())
            .map(|(n, d)| NodeInfo::from_name_shape(n, d))
            .collect();
        let find = |name: &str| -> Option<NodeId> {
            nodes.iter().position(|i| i.name() == name).map(|p| NodeId::from_u32(p as u32))
        };
        let ids = |names: &Vec<String>| -> Vec<NodeId> { names.iter().map(|n| find(n).unwrap()).collect() };
        Mock {
            inputs: (0..n_in).map(|i| NodeId::from_u32(i as u32)).collect(),
            dims3,
            id_input_ids: find("input_ids").unwrap(),
            id_mask: find("attention_mask").unwrap(),
            id_pos: find("position_ids").unwrap(),
            id_cpos: find("cache_position").unwrap(),
            id_flag: find("use_cache_branch"),
            id_logits: find("logits").unwrap(),
            dec_in: ids(&dec_in_n),
            dec_out: ids(&dec_out_n),
            enc_in: ids(&enc_in_n),
            enc_out: ids(&enc_out_n),
            nodes,
            calls: RefCell::new(vec![]),
            next_tok: Cell::new(0),
        }
    }

    /// (tag, sequence length) of a KV-cache tensor
    fn cache_id(&self, v: &Value) -> (u64, u64) {
        let Value::FloatTensor(t) = v else { return (TAG_MIXED, 0) };
        let seq_dim = if self.dims3 { 1 } else { 2 };
        if t.ndim() != seq_dim + 2 {
            return (TAG_MIXED, 0);
        }
        let len = t.size(seq_dim) as u64;
        let mut it = t.iter();
        match it.next() {
            None => (0, len),
            Some(&first) => {
                if it.all(|&x| x == first) && first >= 1.0 && first.fract() == 0.0 {
                    (first as u64, len)
                } else {
                    (TAG_MIXED, len)
                }
            }
        }
    }

    fn make_cache(&self, tag: u64, len: usize, empty_chans: bool) -> Value {
        let chans = if empty_chans { 0 } else { CHANS };
        if self.dims3 {
            Value::FloatTensor(NdTensor::<f32, 3>::full([1, len, chans], tag as f32).into())
        } else {
            Value::FloatTensor(NdTensor::<f32, 4>::full([1, HEADS, len, chans], tag as f32).into())
        }
    }
}

fn int_vec(v: &Value) -> Option<(Vec<usize>, Vec<i64>)> {
    match v {
        Value::Int32Tensor(t) => Some((t.shape().to_vec(), t.iter().map(|&x| x as i64).collect())),
        _ => None,
    }
}

impl Model for Mock {
    fn find_node(&self, name: &str) -> Option<NodeId> {
        self.nodes.iter().position(|i| i.name() == name).map(|p| NodeId::from_u32(p as u32))
    }
    fn node_info(&self, id: NodeId) -> Option<NodeInfo> {
        self.nodes.get(id.as_usize()).cloned()
    }
    fn input_ids(&self) -> &[NodeId] {
        &self.inputs
    }
    fn run(
        &self,
        inputs: Vec<(NodeId, ValueOrView)>,
        outputs: &[NodeId],
        _opts: Option<RunOptions>,
    ) -> Result<Vec<Value>, Box<dyn Error>> {
        let k = self.calls.borrow().len() as u64;
        let mut log = CallLog::default();
        let owned: Vec<(NodeId, Value)> = inputs.iter().map(|(id, v)| (*id, v.to_owned())).collect();
        let get = |id: NodeId, bad: &mut u64| -> Option<&Value> {
            let mut it = owned.iter().filter(|(i, _)| *i == id);
            let r = it.next().map(|(_, v)| v);
            if it.next().is_some() {
                *bad |= 1; // an input given twice
            }
            r
        };
        if owned.iter().any(|(i, _)| !self.inputs.contains(i)) {
            log.bad |= 2; // unknown input id
        }
        // token ids
        match get(self.id_input_ids, &mut log.bad).and_then(int_vec) {
            Some((shape, data)) if shape.len() == 2 && shape[0] == 1 => {
                log.tokens = data.iter().map(|&x| x as i32 as u32).collect();
            }
            _ => log.bad |= 4,
        }
        let n = log.tokens.len();
        match get(self.id_pos, &mut log.bad).and_then(int_vec) {
            Some((shape, data)) if shape.len() == 2 && shape[0] == 1 => log.pos = data,
            _ => log.bad |= 8,
        }
        match get(self.id_cpos, &mut log.bad).and_then(int_vec) {
            Some((shape, data)) if shape.len() == 1 => log.cpos = data,
            _ => log.bad |= 16,
        }
        match get(self.id_mask, &mut log.bad).and_then(int_vec) {
            Some((shape, data)) if shape.len() == 2 && shape[0] == 1 && data.iter().all(|&x| x == 1) => {
                log.mask = shape[1] as u64
            }
            _ => log.bad |= 32,
        }
        if let Some(fid) = self.id_flag {
            match get(fid, &mut log.bad).and_then(int_vec) {
                Some((shape, data)) if shape.is_empty() && data.len() == 1 => log.flag = Some(data[0]),
                _ => log.bad |= 64,
            }
        }
        for &id in &self.dec_in {
            log.kv_in.push(match get(id, &mut log.bad) {
                Some(v) => self.cache_id(v),
                None => (TAG_MISSING, 0),
            });
        }
        for &id in &self.enc_in {
            log.enc_in.push(match get(id, &mut log.bad) {
                Some(v) => self.cache_id(v),
                None => (TAG_MISSING, 0),
            });
        }
        // outputs
        let first_run = log.flag.map(|f| f == 0).unwrap_or(true);
        let mut result = Vec::new();
        log.kv_out = vec![(TAG_MISSING, 0); self.dec_out.len()];
        log.enc_out = vec![None; self.enc_out.len()];
        let mut requested = vec![];
        for &oid in outputs {
            if requested.contains(&oid) {
                log.bad |= 128;
            }
            requested.push(oid);
            if oid == self.id_logits {
                log.logits = true;
                let mut t = NdTensor::<f32, 3>::zeros([1, n, VOCAB]);
                for i in 0..n {
                    t[[0, i, self.next_tok.get() as usize % VOCAB]] = 1.0;
                }
                result.push(Value::FloatTensor(t.into()));
            } else if let Some(e) = self.dec_out.iter().position(|&x| x == oid) {
                let in_len = if log.kv_in[e].0 == TAG_MISSING { 0 } else { log.kv_in[e].1 };
                let len = in_len as usize + n;
                let tag = 16 * k + e as u64 + 1;
                log.kv_out[e] = (if len == 0 { 0 } else { tag }, len as u64);
                result.push(self.make_cache(tag, len, false));
            } else if let Some(e) = self.enc_out.iter().position(|&x| x == oid) {
                let tag = 16 * k + 8 + e as u64 + 1;
                if first_run {
                    let len = 2 + (k as usize % 2);
                    log.enc_out[e] = Some((tag, len as u64));
                    result.push(self.make_cache(tag, len, false));
                } else {
                    result.push(self.make_cache(tag, 3, true));
                }
            } else {
                return Err(format!("invalid output id {}", oid).into());
            }
        }
        if self.dec_out.iter().chain(self.enc_out.iter()).any(|o| !requested.contains(o)) {
            log.bad |= 256; // a cache output was not requested
        }
        self.calls.borrow_mut().push(log);
        Ok(result)
    }
    fn partial_run(
        &self,
        _inputs: Vec<(NodeId, ValueOrView)>,
        _outputs: &[NodeId],
        _opts: Option<RunOptions>,
    ) -> Result<Vec<(NodeId, Value)>, Box<dyn Error>> {
        Ok(Vec::new())
    }
}

struct RecFilter {
    seen: Rc<RefCell<Option<Vec<u32>>>>,
    kill: Rc<Cell<bool>>,
}
impl LogitsFilter for RecFilter {
    fn filter(&self, logits: Logits, prev_tokens: &[u32]) -> Logits {
        *self.seen.borrow_mut() = Some(prev_tokens.to_vec());
        if self.kill.get() { Logits::dense(vec![]) } else { logits }
    }
}

#[derive(Clone, Debug)]
enum Op {
    W(Vec<u32>),
    A(Vec<u32>),
    C,
    P,
    N(u32),
    F,
}

fn parse_toks(s: &str) -> Vec<u32> {
    if s.is_empty() { vec![] } else { s.split(',').map(|x| x.parse::<u32>().unwrap()).collect() }
}

fn parse_ops(s: &str) -> Vec<Op> {
    s.split_whitespace()
        .map(|w| {
            let (h, t) = w.split_at(1);
            match h {
                "W" => Op::W(parse_toks(t)),
                "A" => Op::A(parse_toks(t)),
                "C" => Op::C,
                "P" => Op::P,
                "N" => Op::N(t.parse().unwrap()),
                "F" => Op::F,
                _ => panic!("bad op {}", w),
            }
        })
        .collect()
}

fn fmt_ops(ops: &[Op]) -> String {
    let t = |v: &Vec<u32>| v.iter().map(|x| x.to_string()).collect::<Vec<_>>().join(",");
    ops.iter()
        .map(|o| match o {
            Op::W(p) => format!("W{}", t(p)),
            Op::A(p) => format!("A{}", t(p)),
            Op::C => "C".to_string(),
            Op::P => "P".to_string(),
            Op::N(x) => format!("N{}", x),
            Op::F => "F".to_string(),
        })
        .collect::<Vec<_>>()
        .join(" ")
}

fn coq_cid(c: &(u64, u64)) -> String {
    format!("({},{})", c.0, c.1)
}
fn coq_cids(v: &[(u64, u64)]) -> String {
    format!("[{}]", v.iter().map(coq_cid).collect::<Vec<_>>().join(";"))
}
/// positions are printed as N; a negative value (never produced by correct code) is mapped
/// to a huge number so that it cannot agree with anything
fn coq_pos(v: &[i64]) -> String {
    let w: Vec<String> = v.iter().map(|&x| if x < 0 { (x as u64).to_string() } else { x.to_string() }).collect();
    format!("[{}]", w.join(";"))
}

fn coq_call(c: &CallLog) -> String {
    let enc_out: Vec<String> = c
        .enc_out
        .iter()
        .map(|o| match o {
            Some(c) => format!("Some {}", coq_cid(c)),
            None => "None".into(),
        })
        .collect();
    format!(
        "(mkK {} {} {} {} ({}) {} {} {} [{}] {} {})",
        coq_list(&c.tokens),
        coq_pos(&c.pos),
        coq_pos(&c.cpos),
        c.mask,
        match c.flag {
            Some(f) => format!("Some {}", if f < 0 { 99 } else { f }),
            None => "None".into(),
        },
        coq_cids(&c.kv_in),
        coq_cids(&c.enc_in),
        coq_cids(&c.kv_out),
        enc_out.join(";"),
        c.logits,
        c.bad
    )
}

fn exec_line(line: &str) -> String {
    let (cfg, ops_s) = line.split_once('|').unwrap();
    let cf: Vec<u64> = cfg.split_whitespace().map(|x| x.parse().unwrap()).collect();
    let (kind, layers, cap) = (cf[0] as u32, cf[1] as usize, cf[2] as usize);
    let ops = parse_ops(ops_s);
    let mock = Mock::new(kind, layers);
    let seen = Rc::new(RefCell::new(None));
    let kill = Rc::new(Cell::new(false));
    let config = GeneratorConfig {
        model_inputs: ModelInputsConfig::default(),
        kv_cache_capacity: if cap == 0 { None } else { Some(cap) },
    };
    let mut g = match Generator::from_model_config(&mock, config) {
        Ok(g) => g.with_logits_filter(RecFilter { seen: seen.clone(), kill: kill.clone() }),
        Err(e) => panic!("mock rejected by Generator::from_model_config: {}", e),
    };
    let mut steps: Vec<String> = vec![];
    let mut any_call = false;
    let mut call_seen = false;
    let mut chat = false; // prompt tokens added after the first model call
    let mut cleared = false;
    let mut failed = false;
    for op in &ops {
        let before = mock.calls.borrow().len();
        *seen.borrow_mut() = None;
        kill.set(false);
        let (op_s, res) = match op {
            Op::W(p) => {
                g = g.with_prompt(p);
                if call_seen && !p.is_empty() { chat = true; }
                if call_seen { cleared = true; }
                (format!("OpW {}", coq_list(p)), "RUnit".to_string())
            }
            Op::A(p) => {
                g.append_prompt(p);
                if call_seen && !p.is_empty() { chat = true; }
                (format!("OpA {}", coq_list(p)), "RUnit".to_string())
            }
            Op::C => {
                g.clear_prompt();
                if call_seen { cleared = true; }
                ("OpC".to_string(), "RUnit".to_string())
            }
            Op::P => {
                let r = catch_unwind(AssertUnwindSafe(|| g.process_prompt()));
                ("OpP".to_string(), match r {
                    Ok(Ok(())) => "RUnit".to_string(),
                    Ok(Err(_)) => { failed = true; "RErr".to_string() }
                    Err(_) => { failed = true; "RPanic".to_string() }
                })
            }
            Op::N(t) => {
                mock.next_tok.set(*t);
                let r = catch_unwind(AssertUnwindSafe(|| g.next()));
                (format!("OpN {}", *t as usize % VOCAB), match r {
                    Ok(Some(Ok(tok))) => format!("RTok {}", tok),
                    Ok(Some(Err(_))) => { failed = true; "RErr".to_string() }
                    Ok(None) => { failed = true; "RPanic".to_string() },
                    Err(_) => { failed = true; "RPanic".to_string() }
                })
            }
            Op::F => {
                kill.set(true);
                let r = catch_unwind(AssertUnwindSafe(|| g.next()));
                ("OpF".to_string(), match r {
                    Ok(Some(Ok(tok))) => format!("RTok {}", tok),
                    Ok(Some(Err(_))) => { failed = true; "RErr".to_string() }
                    Ok(None) => { failed = true; "RPanic".to_string() },
                    Err(_) => { failed = true; "RPanic".to_string() }
                })
            }
        };
        let calls = mock.calls.borrow();
        let call_s = match calls.len() - before {
            0 => "None".to_string(),
            1 => { any_call = true; call_seen = true; format!("Some {}", coq_call(&calls[before])) }
            _ => {
                // more than one model call in one operation: report the first one marked bad
                let mut c = calls[before].clone();
                c.bad |= 512;
                any_call = true;
                call_seen = true;
                format!("Some {}", coq_call(&c))
            }
        };
        let filt = match seen.borrow().as_ref() {
            Some(v) => format!("Some {}", coq_list(v)),
            None => "None".to_string(),
        };
        let kvlen = match g.kv_cache_len() {
            Some(n) => format!("Some {}", n),
            None => "None".to_string(),
        };
        steps.push(format!(
            "({}, mkO ({}) ({}) ({}) {} {} ({}))",
            op_s, call_s, res, filt, coq_list(g.prev_tokens()), coq_list(g.prompt()), kvlen
        ));
    }
    let kname = ["nokv", "kv4", "kv3", "encdec"][kind as usize];
    let tag = if !any_call {
        format!("trivial-nocall-{}", kname)
    } else {
        format!("{}{}{}{}", kname, if chat { "-chat" } else { "-plain" }, if cleared { "-clear" } else { "" }, if failed { "-fail" } else { "" })
    };
    let n_dec = mock.dec_in.len();
    let n_enc = mock.enc_in.len();
    let term = format!(
        "mkC {}%nat {}%nat {} [{}]",
        n_dec, n_enc, mock.id_flag.is_some(), steps.join(";")
    );
    format!("{}\t{}\t{}", tag, line, term)
}

fn rand_toks(rng: &mut SplitMix64, max: u64) -> Vec<u32> {
    let n = rng.below(max + 1);
    (0..n)
        .map(|_| match rng.below(12) {
            0 => rng.pick(&[u32::MAX, 1 << 31, (1 << 31) - 1, 65535, 50256]),
            _ => rng.below(VOCAB as u64) as u32,
        })
        .collect()
}

fn generate(seed: u64, n: usize, tier: &str, out: &mut impl Write) {
    // 1. small-scope exhaustive: every op sequence up to a length over a small alphabet
    let alphabet = [
        Op::W(vec![1, 2]), Op::W(vec![]), Op::A(vec![3]), Op::A(vec![]), Op::C, Op::P, Op::N(4), Op::F,
    ];
    let max_len = if tier == "thorough" { 4 } else { 3 };
    for kind in [1u32, 0, 3] {
        for len in 1..=max_len {
            let total = alphabet.len().pow(len as u32);
            for mut code in 0..total {
                let mut ops = vec![];
                for _ in 0..len {
                    ops.push(alphabet[code % alphabet.len()].clone());
                    code /= alphabet.len();
                }
                writeln!(out, "{} 1 0|{}", kind, fmt_ops(&ops)).unwrap();
            }
        }
    }
    // 2. random histories of up to 12 operations
    let mut rng = SplitMix64(seed);
    for _ in 0..n {
        let kind = rng.pick(&[1u32, 1, 1, 2, 0, 0, 3, 3]);
        let layers = 1 + rng.below(2);
        let cap = rng.pick(&[0u64, 0, 1, 4, 64]);
        let len = 1 + rng.below(12);
        let mut ops = vec![];
        if rng.chance(4, 5) {
            ops.push(Op::W(rand_toks(&mut rng, 4)));
        }
        while (ops.len() as u64) < len {
            ops.push(match rng.below(100) {
                0..=34 => Op::N(rng.below(VOCAB as u64) as u32),
                35..=59 => Op::A(rand_toks(&mut rng, 3)),
                60..=73 => Op::P,
                74..=82 => Op::C,
                83..=91 => Op::W(rand_toks(&mut rng, 3)),
                _ => Op::F,
            });
        }
        writeln!(out, "{} {} {}|{}", kind, layers, cap, fmt_ops(&ops)).unwrap();
    }
}

fn main() {
    quiet_panics();
    let args: Vec<String> = std::env::args().collect();
    let stdout = std::io::stdout();
    let mut out = std::io::BufWriter::new(stdout.lock());
    match args.get(1).map(|s| s.as_str()) {
        Some("gen") => {
            let seed: u64 = args[2].parse().unwrap();
            let n: usize = args[3].parse().unwrap();
            generate(seed, n, &args[4], &mut out);
        }
        Some("exec") => {
            for line in std::io::stdin().lock().lines() {
                let line = line.unwrap();
                if line.trim().is_empty() {
                    continue;
                }
                writeln!(out, "{}", exec_line(&line)).unwrap();
            }
        }
        _ => {
            eprintln!("usage: c32 gen <seed> <n> <tier> | c32 exec");
            std::process::exit(2);
        }
    }
}
