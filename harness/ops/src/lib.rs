//! Shared machinery of the C13 / C14 harnesses: logical tensors with small integer values,
//! alternative memory representations (views and owned tensors), canonical Coq output and
//! the operator table (`optable`).
pub mod optable;

pub use rten::verif::ops::{Attr, Pool, VOp, fused_op, fused_op_names, read_onnx_op};
use rten::{Sequence, Value, ValueView};
use rten_tensor::prelude::*;
use rten_tensor::{SliceItem, SliceRange, Tensor, TensorView};

pub struct SplitMix64(pub u64);
impl SplitMix64 {
    pub fn next(&mut self) -> u64 {
        self.0 = self.0.wrapping_add(0x9E3779B97F4A7C15);
        let mut z = self.0;
        z = (z ^ (z >> 30)).wrapping_mul(0xBF58476D1CE4E5B9);
        z = (z ^ (z >> 27)).wrapping_mul(0x94D049BB133111EB);
        z ^ (z >> 31)
    }
    pub fn below(&mut self, n: u64) -> u64 {
        if n == 0 { 0 } else { self.next() % n }
    }
    pub fn upto(&mut self, n: usize) -> usize {
        self.below(n as u64 + 1) as usize
    }
    pub fn range(&mut self, lo: i64, hi: i64) -> i64 {
        lo + self.below((hi - lo + 1) as u64) as i64
    }
    pub fn pick<T: Clone>(&mut self, xs: &[T]) -> T {
        xs[self.below(xs.len() as u64) as usize].clone()
    }
    pub fn chance(&mut self, num: u64, den: u64) -> bool {
        self.below(den) < num
    }
    pub fn perm(&mut self, n: usize) -> Vec<usize> {
        let mut p: Vec<usize> = (0..n).collect();
        for d in (1..n).rev() {
            let j = self.below(d as u64 + 1) as usize;
            p.swap(d, j);
        }
        p
    }
}

pub fn quiet_panics() {
    std::panic::set_hook(Box::new(|_| {}));
}

#[derive(Clone, Copy, PartialEq, Eq, Debug)]
pub enum Dt {
    F32,
    I32,
    I8,
    U8,
}
impl Dt {
    pub fn coq(self) -> &'static str {
        match self {
            Dt::F32 => "F32",
            Dt::I32 => "I32",
            Dt::I8 => "I8",
            Dt::U8 => "U8",
        }
    }
}

/// A logical tensor: shape and row-major values. `const_axes` lists axes along which the
/// values are constant (so that a broadcast view can represent the tensor).
#[derive(Clone, Debug)]
pub struct LT {
    pub dt: Dt,
    pub shape: Vec<usize>,
    pub vals: Vec<f64>,
    pub const_axes: Vec<usize>,
}

pub fn numel(shape: &[usize]) -> usize {
    shape.iter().product()
}

pub fn contiguous_strides(shape: &[usize]) -> Vec<usize> {
    let mut st = vec![0usize; shape.len()];
    let mut p = 1usize;
    for i in (0..shape.len()).rev() {
        st[i] = p;
        p *= shape[i];
    }
    st
}

impl LT {
    pub fn new(dt: Dt, shape: &[usize], vals: Vec<f64>) -> LT {
        assert_eq!(numel(shape), vals.len());
        LT { dt, shape: shape.to_vec(), vals, const_axes: vec![] }
    }
    pub fn scalar(dt: Dt, v: f64) -> LT {
        LT::new(dt, &[], vec![v])
    }
    pub fn vec_i32(v: &[i64]) -> LT {
        LT::new(Dt::I32, &[v.len()], v.iter().map(|&x| x as f64).collect())
    }
    pub fn vec_f32(v: &[f64]) -> LT {
        LT::new(Dt::F32, &[v.len()], v.to_vec())
    }
    /// Random values in `[lo, hi]`; with probability 1/3 constant along a random non-empty
    /// subset of the axes. In the inexact float flavour (`set_inexact_floats`) f32 tensors
    /// draw from a palette of values whose sums/products/reciprocals are not exactly
    /// representable (the sign constraint `lo >= 0` is kept).
    pub fn rand(rng: &mut SplitMix64, dt: Dt, shape: &[usize], lo: i64, hi: i64) -> LT {
        if dt == Dt::F32 && inexact_floats() {
            return Self::rand_with(rng, dt, shape, |r| inexact_value(r, lo >= 0));
        }
        Self::rand_with(rng, dt, shape, |r| r.range(lo, hi) as f64)
    }
    pub fn rand_nonzero(rng: &mut SplitMix64, dt: Dt, shape: &[usize], lo: i64, hi: i64) -> LT {
        if dt == Dt::F32 && inexact_floats() {
            return Self::rand_with(rng, dt, shape, |r| inexact_value(r, lo >= 0));
        }
        Self::rand_with(rng, dt, shape, |r| loop {
            let v = r.range(lo, hi);
            if v != 0 {
                return v as f64;
            }
        })
    }
    pub fn rand_with(
        rng: &mut SplitMix64,
        dt: Dt,
        shape: &[usize],
        mut f: impl FnMut(&mut SplitMix64) -> f64,
    ) -> LT {
        let mut const_axes = vec![];
        if !shape.is_empty() && rng.chance(1, 3) {
            for d in 0..shape.len() {
                if rng.chance(1, 2) {
                    const_axes.push(d);
                }
            }
            if const_axes.is_empty() {
                const_axes.push(rng.below(shape.len() as u64) as usize);
            }
        }
        let base_shape: Vec<usize> = shape
            .iter()
            .enumerate()
            .map(|(d, &s)| if const_axes.contains(&d) { s.min(1) } else { s })
            .collect();
        let base: Vec<f64> = (0..numel(&base_shape)).map(|_| f(rng)).collect();
        let bst = contiguous_strides(&base_shape);
        let n = numel(shape);
        let mut vals = Vec::with_capacity(n);
        let mut idx = vec![0usize; shape.len()];
        for _ in 0..n {
            let off: usize = (0..shape.len())
                .map(|d| if const_axes.contains(&d) { 0 } else { idx[d] * bst[d] })
                .sum();
            vals.push(base[off]);
            for d in (0..shape.len()).rev() {
                idx[d] += 1;
                if idx[d] < shape[d] {
                    break;
                }
                idx[d] = 0;
            }
        }
        LT { dt, shape: shape.to_vec(), vals, const_axes }
    }

    pub fn permuted(&self, p: &[usize]) -> LT {
        // result dim i = self dim p[i]
        let shape: Vec<usize> = p.iter().map(|&d| self.shape[d]).collect();
        let st = contiguous_strides(&self.shape);
        let n = self.vals.len();
        let mut vals = Vec::with_capacity(n);
        let mut idx = vec![0usize; shape.len()];
        for _ in 0..n {
            let off: usize = (0..shape.len()).map(|i| idx[i] * st[p[i]]).sum();
            vals.push(self.vals[off]);
            for d in (0..shape.len()).rev() {
                idx[d] += 1;
                if idx[d] < shape[d] {
                    break;
                }
                idx[d] = 0;
            }
        }
        let const_axes = (0..shape.len()).filter(|&i| self.const_axes.contains(&p[i])).collect();
        LT { dt: self.dt, shape, vals, const_axes }
    }

    pub fn describe(&self) -> String {
        format!("{}{:?}", self.dt.coq().to_lowercase(), self.shape)
    }

    pub fn to_value(&self) -> Value {
        make_value(self.dt, &self.shape, &self.vals, 0)
    }
}

static INEXACT: std::sync::atomic::AtomicBool = std::sync::atomic::AtomicBool::new(false);

/// Select the inexact float flavour for subsequently generated f32 tensors.
pub fn set_inexact_floats(on: bool) {
    INEXACT.store(on, std::sync::atomic::Ordering::SeqCst);
}
pub fn inexact_floats() -> bool {
    INEXACT.load(std::sync::atomic::Ordering::SeqCst)
}

/// Non-zero f32 values with inexact reciprocals / products: thirds, tenths, 7, 10, pi, e, large,
/// small and subnormal magnitudes. One draw of the generator per value.
fn inexact_value(rng: &mut SplitMix64, nonneg: bool) -> f64 {
    const PALETTE: [f64; 20] = [
        1.0 / 3.0, 0.1, 3.0, 7.0, 10.0, 3.14159265, 2.7182817, 0.7, 1.5, 5.0, 6.0, 0.3, 1.0e-3, 12345.678, 3.0e18,
        1.0e-40, 7.0e-39, 2.5, 9.0, 1.1,
    ];
    let x = rng.next();
    let v = PALETTE[(x % 20) as usize];
    let v = (v as f32) as f64; // the value that is actually stored
    if !nonneg && (x >> 32) & 1 == 1 { -v } else { v }
}

pub fn inverse_perm(p: &[usize]) -> Vec<usize> {
    let mut q = vec![0usize; p.len()];
    for (i, &d) in p.iter().enumerate() {
        q[d] = i;
    }
    q
}

/// Owned contiguous tensor value; `spare` extra elements of Vec capacity.
pub fn make_value(dt: Dt, shape: &[usize], vals: &[f64], spare: usize) -> Value {
    macro_rules! mk {
        ($t:ty) => {{
            let mut v: Vec<$t> = Vec::with_capacity(vals.len() + spare);
            v.extend(vals.iter().map(|&x| x as $t));
            Tensor::<$t>::from_data(shape, v).into()
        }};
    }
    match dt {
        Dt::F32 => mk!(f32),
        Dt::I32 => mk!(i32),
        Dt::I8 => mk!(i8),
        Dt::U8 => mk!(u8),
    }
}

macro_rules! map_value {
    ($v:expr, $t:ident, $body:expr, $seq:expr) => {
        match $v {
            Value::FloatTensor($t) => $body,
            Value::Int32Tensor($t) => $body,
            Value::Int8Tensor($t) => $body,
            Value::UInt8Tensor($t) => $body,
            _ => $seq,
        }
    };
}

// ------------------------------------------------------------------ representations

#[derive(Clone, Copy, PartialEq, Eq, Debug)]
pub enum RepKind {
    Contig,
    Permuted,
    Stepped,
    Offset,
    Broadcast,
    /// contiguous up to size-1 dims: only size-1 axes are moved / carry non-canonical strides,
    /// so `data()` is still `Some` although the strides are not row-major
    UnitPerm,
    /// permute composed with slicing: a cropped / stepped window of a larger buffer that holds a
    /// PERMUTATION of the tensor (e.g. an NHWC image cropped along W, viewed as NCHW), optionally
    /// with constant axes collapsed and broadcast back
    Composed,
}
impl RepKind {
    pub fn name(self) -> &'static str {
        match self {
            RepKind::Contig => "contig",
            RepKind::Permuted => "permuted",
            RepKind::Stepped => "stepped",
            RepKind::Offset => "offset",
            RepKind::Broadcast => "broadcast",
            RepKind::UnitPerm => "unitperm",
            RepKind::Composed => "composed",
        }
    }
}

/// A borrowed-view representation of a logical tensor: a backing tensor plus the recipe
/// (slice, permute, broadcast) that derives the view.
pub struct Rep {
    pub kind: RepKind,
    pub backing: Value,
    slice: Vec<(usize, usize, usize)>,
    perm: Option<Vec<usize>>,
    bshape: Option<Vec<usize>>,
    /// view the (contiguous) backing data through this shape and these strides instead
    custom: Option<(Vec<usize>, Vec<usize>)>,
    pub applied: bool,
}

fn derive_view<'a, T>(t: &'a Tensor<T>, rep: &Rep) -> TensorView<'a, T> {
    if let Some((shape, strides)) = &rep.custom {
        return TensorView::from_slice_with_strides(shape.as_slice(), t.data().unwrap(), strides.as_slice())
            .expect("custom strides");
    }
    let items: Vec<SliceItem> = rep
        .slice
        .iter()
        .map(|&(s, e, st)| SliceItem::Range(SliceRange::new(s as isize, Some(e as isize), st as isize)))
        .collect();
    let mut v: TensorView<'a, T> = t.view().slice(items.as_slice());
    if let Some(p) = &rep.perm {
        v = v.permuted(p.as_slice());
    }
    if let Some(b) = &rep.bshape {
        v = v.broadcast(b.as_slice());
    }
    v
}

impl Rep {
    /// Build representation `kind` of `lt`. When the kind is not applicable (e.g. permuting a
    /// rank-1 tensor, broadcasting a tensor with no constant axis) the contiguous
    /// representation is returned with `applied = false`.
    pub fn build(lt: &LT, kind: RepKind, rng: &mut SplitMix64) -> Rep {
        let rank = lt.shape.len();
        let full: Vec<(usize, usize, usize)> = lt.shape.iter().map(|&s| (0, s, 1)).collect();
        let contig = |applied: bool| Rep {
            kind,
            backing: lt.to_value(),
            slice: full.clone(),
            perm: None,
            bshape: None,
            custom: None,
            applied,
        };
        let rep = match kind {
            RepKind::Contig => contig(true),
            RepKind::Permuted => {
                if rank < 2 {
                    contig(false)
                } else {
                    let mut p = rng.perm(rank);
                    if p.iter().enumerate().all(|(i, &d)| i == d) {
                        p.swap(0, rank - 1);
                    }
                    let b = lt.permuted(&p);
                    let bfull: Vec<(usize, usize, usize)> = b.shape.iter().map(|&s| (0, s, 1)).collect();
                    Rep {
                        kind,
                        backing: b.to_value(),
                        slice: bfull,
                        perm: Some(inverse_perm(&p)),
                        bshape: None,
                        custom: None,
                        applied: true,
                    }
                }
            }
            RepKind::Stepped | RepKind::Offset => {
                if rank == 0 {
                    contig(false)
                } else {
                    let mut slice = vec![];
                    let mut bshape = vec![];
                    let forced = rng.below(rank as u64) as usize;
                    for d in 0..rank {
                        let (step, off, pad) = if kind == RepKind::Offset {
                            if d == 0 { (1, 1 + rng.upto(2), rng.upto(2)) } else { (1, 0, 0) }
                        } else {
                            let step = if d == forced { 2 + rng.upto(1) } else { 1 + rng.upto(2) };
                            (step, rng.upto(2), rng.upto(1))
                        };
                        let s = lt.shape[d];
                        let end = if s == 0 { off } else { off + (s - 1) * step + 1 };
                        slice.push((off, end, step));
                        bshape.push(end + pad);
                    }
                    let junk = vec![113.0; numel(&bshape)];
                    let mut backing = make_value(lt.dt, &bshape, &junk, 0);
                    let items: Vec<SliceItem> = slice
                        .iter()
                        .map(|&(s, e, st)| {
                            SliceItem::Range(SliceRange::new(s as isize, Some(e as isize), st as isize))
                        })
                        .collect();
                    let src = lt.to_value();
                    macro_rules! fill {
                        ($variant:ident) => {
                            if let (Value::$variant(b), Value::$variant(s)) = (&mut backing, &src) {
                                b.slice_mut(items.as_slice()).copy_from(&s.view());
                            }
                        };
                    }
                    fill!(FloatTensor);
                    fill!(Int32Tensor);
                    fill!(Int8Tensor);
                    fill!(UInt8Tensor);
                    Rep { kind, backing, slice, perm: None, bshape: None, custom: None, applied: true }
                }
            }
            RepKind::Composed => {
                if rank < 2 {
                    contig(false)
                } else {
                    // optionally collapse constant axes first (broadcast o permute o slice)
                    let collapse = !lt.const_axes.is_empty()
                        && lt.const_axes.iter().any(|&d| lt.shape[d] > 1)
                        && rng.chance(1, 2);
                    let base = if collapse { collapse_const_axes(lt) } else { lt.clone() };
                    // channels-last is the permutation that occurs in practice for 4-D tensors
                    let mut p = if rank == 4 && rng.chance(3, 4) { vec![0, 2, 3, 1] } else { rng.perm(rank) };
                    if p.iter().enumerate().all(|(i, &d)| i == d) {
                        p.swap(0, rank - 1);
                    }
                    let b = base.permuted(&p);
                    // window of a larger buffer: per axis untouched / cropped (step 1) / stepped
                    // (the innermost storage axis is usually left dense, as in a cropped image)
                    let forced =
                        if rng.chance(3, 4) { rng.below(rank as u64 - 1) as usize } else { rng.below(rank as u64) as usize };
                    let mut slice = vec![];
                    let mut bshape = vec![];
                    for d in 0..rank {
                        let mode = if d == forced {
                            1 + rng.below(2)
                        } else if d == rank - 1 && rng.chance(1, 2) {
                            0
                        } else {
                            rng.below(4)
                        };
                        let (step, off, pad) = match mode {
                            1 => (1, rng.upto(2), 1 + rng.upto(1)),
                            2 => (2 + rng.upto(1), rng.upto(1), rng.upto(1)),
                            _ => (1, 0, 0),
                        };
                        let sz = b.shape[d];
                        let end = if sz == 0 { off } else { off + (sz - 1) * step + 1 };
                        slice.push((off, end, step));
                        bshape.push(end + pad);
                    }
                    let junk = vec![113.0; numel(&bshape)];
                    let mut backing = make_value(b.dt, &bshape, &junk, 0);
                    let items: Vec<SliceItem> = slice
                        .iter()
                        .map(|&(s, e, st)| {
                            SliceItem::Range(SliceRange::new(s as isize, Some(e as isize), st as isize))
                        })
                        .collect();
                    let src = b.to_value();
                    macro_rules! fill {
                        ($variant:ident) => {
                            if let (Value::$variant(bk), Value::$variant(s)) = (&mut backing, &src) {
                                bk.slice_mut(items.as_slice()).copy_from(&s.view());
                            }
                        };
                    }
                    fill!(FloatTensor);
                    fill!(Int32Tensor);
                    fill!(Int8Tensor);
                    fill!(UInt8Tensor);
                    Rep {
                        kind,
                        backing,
                        slice,
                        perm: Some(inverse_perm(&p)),
                        bshape: if collapse { Some(lt.shape.clone()) } else { None },
                        custom: None,
                        applied: true,
                    }
                }
            }
            RepKind::UnitPerm => {
                let units: Vec<usize> = (0..rank).filter(|&d| lt.shape[d] == 1).collect();
                if rank < 2 || units.is_empty() || numel(&lt.shape) == 0 {
                    contig(false)
                } else if rng.chance(1, 2) {
                    // move one size-1 axis to another position in the backing tensor and view it
                    // through the inverse permutation: strides like [3, 1, 1] for shape [2, 1, 3]
                    let i = rng.pick(&units);
                    let mut order: Vec<usize> = (0..rank).filter(|&d| d != i).collect();
                    // prefer the last position: the moved axis then has stride exactly 1, the value
                    // that `stride(axis) == 1` fast-path guards look for
                    let mut j = if rng.chance(1, 2) { rank - 1 } else { rng.below(rank as u64) as usize };
                    if j == i {
                        j = if i + 1 < rank { rank - 1 } else { 0 };
                    }
                    order.insert(j, i);
                    let b = lt.permuted(&order);
                    let bfull: Vec<(usize, usize, usize)> = b.shape.iter().map(|&s| (0, s, 1)).collect();
                    Rep {
                        kind,
                        backing: b.to_value(),
                        slice: bfull,
                        perm: Some(inverse_perm(&order)),
                        bshape: None,
                        custom: None,
                        applied: true,
                    }
                } else {
                    // row-major data, arbitrary strides on the size-1 axes
                    let mut strides = contiguous_strides(&lt.shape);
                    for &d in &units {
                        strides[d] = rng.pick(&[0usize, 1, 2, 5, numel(&lt.shape), 1, 1]);
                    }
                    Rep {
                        kind,
                        backing: lt.to_value(),
                        slice: full.clone(),
                        perm: None,
                        bshape: None,
                        custom: Some((lt.shape.clone(), strides)),
                        applied: true,
                    }
                }
            }
            RepKind::Broadcast => {
                if lt.const_axes.is_empty() || lt.const_axes.iter().all(|&d| lt.shape[d] == 1) {
                    contig(false)
                } else {
                    // base: constant axes collapsed to size 1 (zero-sized axes cannot be
                    // broadcast from 1, keep them)
                    let mut base_shape: Vec<usize> = lt
                        .shape
                        .iter()
                        .enumerate()
                        .map(|(d, &s)| if lt.const_axes.contains(&d) && s > 0 { 1 } else { s })
                        .collect();
                    let st = contiguous_strides(&lt.shape);
                    let n = numel(&base_shape);
                    let mut vals = Vec::with_capacity(n);
                    let mut idx = vec![0usize; rank];
                    for _ in 0..n {
                        let off: usize = (0..rank).map(|d| idx[d] * st[d]).sum();
                        vals.push(lt.vals[off]);
                        for d in (0..rank).rev() {
                            idx[d] += 1;
                            if idx[d] < base_shape[d] {
                                break;
                            }
                            idx[d] = 0;
                        }
                    }
                    // drop leading size-1 axes sometimes (rank-extending broadcast)
                    while base_shape.len() > 0 && base_shape[0] == 1 && rng.chance(1, 2) {
                        base_shape.remove(0);
                    }
                    let bfull: Vec<(usize, usize, usize)> = base_shape.iter().map(|&s| (0, s, 1)).collect();
                    Rep {
                        kind,
                        backing: make_value(lt.dt, &base_shape, &vals, 0),
                        slice: bfull,
                        perm: None,
                        bshape: Some(lt.shape.clone()),
                        custom: None,
                        applied: true,
                    }
                }
            }
        };
        rep.check(lt);
        rep
    }

    pub fn view(&self) -> ValueView<'_> {
        match &self.backing {
            Value::FloatTensor(t) => derive_view(t, self).into(),
            Value::Int32Tensor(t) => derive_view(t, self).into(),
            Value::Int8Tensor(t) => derive_view(t, self).into(),
            Value::UInt8Tensor(t) => derive_view(t, self).into(),
            _ => unreachable!(),
        }
    }

    /// The view must denote exactly the logical tensor (harness self-check).
    fn check(&self, lt: &LT) {
        let ok = match self.view() {
            ValueView::FloatTensor(v) => {
                v.shape() == lt.shape.as_slice() && v.iter().map(|x| *x as f64).eq(lt.vals.iter().copied())
            }
            ValueView::Int32Tensor(v) => {
                v.shape() == lt.shape.as_slice() && v.iter().map(|x| *x as f64).eq(lt.vals.iter().copied())
            }
            ValueView::Int8Tensor(v) => {
                v.shape() == lt.shape.as_slice() && v.iter().map(|x| *x as f64).eq(lt.vals.iter().copied())
            }
            ValueView::UInt8Tensor(v) => {
                v.shape() == lt.shape.as_slice() && v.iter().map(|x| *x as f64).eq(lt.vals.iter().copied())
            }
            _ => false,
        };
        if !ok {
            eprintln!("harness bug: representation {:?} of {:?} does not denote it", self.kind, lt);
            std::process::exit(3);
        }
    }

    pub fn is_contiguous(&self) -> bool {
        match self.view() {
            ValueView::FloatTensor(v) => v.data().is_some(),
            ValueView::Int32Tensor(v) => v.data().is_some(),
            ValueView::Int8Tensor(v) => v.data().is_some(),
            ValueView::UInt8Tensor(v) => v.data().is_some(),
            _ => true,
        }
    }
}

/// The tensor with its constant axes collapsed to size 1 (zero-sized axes kept).
fn collapse_const_axes(lt: &LT) -> LT {
    let rank = lt.shape.len();
    let base_shape: Vec<usize> =
        lt.shape.iter().enumerate().map(|(d, &s)| if lt.const_axes.contains(&d) && s > 0 { 1 } else { s }).collect();
    let st = contiguous_strides(&lt.shape);
    let n = numel(&base_shape);
    let mut vals = Vec::with_capacity(n);
    let mut idx = vec![0usize; rank];
    for _ in 0..n {
        let off: usize = (0..rank).map(|d| idx[d] * st[d]).sum();
        vals.push(lt.vals[off]);
        for d in (0..rank).rev() {
            idx[d] += 1;
            if idx[d] < base_shape[d] {
                break;
            }
            idx[d] = 0;
        }
    }
    LT { dt: lt.dt, shape: base_shape, vals, const_axes: vec![] }
}

// ------------------------------------------------------------------ owned representations

#[derive(Clone, Copy, PartialEq, Eq, Debug)]
pub enum OwnedKind {
    Exact,
    SpareVec,
    Permuted,
    Strided,
    WithCapacity,
    /// only size-1 axes moved: layout still reported contiguous, strides not row-major
    UnitPerm,
}
impl OwnedKind {
    pub fn name(self) -> &'static str {
        match self {
            OwnedKind::Exact => "exact",
            OwnedKind::SpareVec => "sparevec",
            OwnedKind::Permuted => "permuted",
            OwnedKind::Strided => "strided",
            OwnedKind::WithCapacity => "withcap",
            OwnedKind::UnitPerm => "unitperm",
        }
    }
    pub const ALL: [OwnedKind; 6] = [
        OwnedKind::Exact,
        OwnedKind::SpareVec,
        OwnedKind::Permuted,
        OwnedKind::Strided,
        OwnedKind::WithCapacity,
        OwnedKind::UnitPerm,
    ];
}

/// Build an OWNED tensor value denoting `lt` with the given storage arrangement. Returns the
/// value and whether the arrangement was applicable (else an exact contiguous tensor).
pub fn owned_value(lt: &LT, kind: OwnedKind, rng: &mut SplitMix64) -> (Value, bool) {
    let rank = lt.shape.len();
    let (v, applied) = match kind {
        OwnedKind::Exact => (lt.to_value(), true),
        OwnedKind::SpareVec => (make_value(lt.dt, &lt.shape, &lt.vals, 1 + rng.upto(40)), true),
        OwnedKind::Permuted => {
            if rank < 2 {
                (lt.to_value(), false)
            } else {
                let mut p = rng.perm(rank);
                if p.iter().enumerate().all(|(i, &d)| i == d) {
                    p.swap(0, rank - 1);
                }
                let q = inverse_perm(&p);
                let b = lt.permuted(&p);
                let spare = if rng.chance(1, 2) { rng.upto(20) } else { 0 };
                let mut v = make_value(b.dt, &b.shape, &b.vals, spare);
                map_value!(&mut v, t, t.permute(q.as_slice()), unreachable!());
                (v, true)
            }
        }
        OwnedKind::UnitPerm => {
            let units: Vec<usize> = (0..rank).filter(|&d| lt.shape[d] == 1).collect();
            if rank < 2 || units.is_empty() {
                (lt.to_value(), false)
            } else {
                let i = rng.pick(&units);
                let mut order: Vec<usize> = (0..rank).filter(|&d| d != i).collect();
                let mut j = rng.below(rank as u64) as usize;
                if j == i {
                    j = if i + 1 < rank { rank - 1 } else { 0 };
                }
                order.insert(j, i);
                let q = inverse_perm(&order);
                let b = lt.permuted(&order);
                let mut v = make_value(b.dt, &b.shape, &b.vals, 0);
                map_value!(&mut v, t, t.permute(q.as_slice()), unreachable!());
                (v, true)
            }
        }
        OwnedKind::Strided => {
            if rank == 0 || numel(&lt.shape) == 0 {
                (lt.to_value(), false)
            } else {
                // strides of a larger contiguous tensor, each multiplied by a step
                let forced = rng.below(rank as u64) as usize;
                let steps: Vec<usize> =
                    (0..rank).map(|d| if d == forced { 2 + rng.upto(1) } else { 1 + rng.upto(1) }).collect();
                let padded: Vec<usize> =
                    (0..rank).map(|d| (lt.shape[d] - 1) * steps[d] + 1 + rng.upto(1)).collect();
                let pst = contiguous_strides(&padded);
                let strides: Vec<usize> = (0..rank).map(|d| pst[d] * steps[d]).collect();
                let n = numel(&padded);
                let src = lt.to_value();
                macro_rules! mk {
                    ($variant:ident, $t:ty) => {
                        if let Value::$variant(s) = &src {
                            let data: Vec<$t> = vec![113 as $t; n];
                            match Tensor::<$t>::from_data_with_strides(&lt.shape, data, &strides) {
                                Ok(mut t) => {
                                    t.copy_from(&s.view());
                                    return finish(lt, Value::from(t), true);
                                }
                                Err(_) => return finish(lt, lt.to_value(), false),
                            }
                        }
                    };
                }
                mk!(FloatTensor, f32);
                mk!(Int32Tensor, i32);
                mk!(Int8Tensor, i8);
                mk!(UInt8Tensor, u8);
                unreachable!()
            }
        }
        OwnedKind::WithCapacity => {
            if rank == 0 {
                (lt.to_value(), false)
            } else {
                let axis = rng.below(rank as u64) as usize;
                let mut cap_shape = lt.shape.clone();
                cap_shape[axis] += 1 + rng.upto(3);
                let src = lt.to_value();
                macro_rules! mk {
                    ($variant:ident, $t:ty) => {
                        if let Value::$variant(s) = &src {
                            let mut t = Tensor::<$t>::with_capacity(&cap_shape, axis);
                            if t.append(axis, s).is_err() {
                                return finish(lt, lt.to_value(), false);
                            }
                            return finish(lt, Value::from(t), true);
                        }
                    };
                }
                mk!(FloatTensor, f32);
                mk!(Int32Tensor, i32);
                mk!(Int8Tensor, i8);
                mk!(UInt8Tensor, u8);
                unreachable!()
            }
        }
    };
    finish(lt, v, applied)
}

fn finish(lt: &LT, v: Value, applied: bool) -> (Value, bool) {
    let ok = map_value!(
        &v,
        t,
        t.shape() == lt.shape.as_slice() && t.iter().map(|x| *x as f64).eq(lt.vals.iter().copied()),
        false
    );
    if !ok {
        eprintln!("harness bug: owned representation of {:?} does not denote it", lt);
        std::process::exit(3);
    }
    (v, applied)
}

pub fn value_data_ptr(v: &Value) -> usize {
    map_value!(v, t, t.data_ptr() as usize, 0)
}

pub fn value_is_contiguous(v: &Value) -> bool {
    map_value!(v, t, t.data().is_some(), true)
}

// ------------------------------------------------------------------ inputs

#[derive(Clone, Debug)]
pub enum In {
    T(LT),
    S(Dt, Vec<LT>),
}

pub fn make_sequence(dt: Dt, items: &[LT]) -> Value {
    macro_rules! mk {
        ($t:ty, $variant:ident) => {{
            let v: Vec<Tensor<$t>> = items
                .iter()
                .map(|lt| match lt.to_value() {
                    Value::$variant(t) => t,
                    _ => unreachable!(),
                })
                .collect();
            Value::Sequence(Sequence::from(v))
        }};
    }
    match dt {
        Dt::F32 => mk!(f32, FloatTensor),
        Dt::I32 => mk!(i32, Int32Tensor),
        Dt::I8 => mk!(i8, Int8Tensor),
        Dt::U8 => mk!(u8, UInt8Tensor),
    }
}

// ------------------------------------------------------------------ outcomes in Coq syntax

fn coq_shape(s: &[usize]) -> String {
    let v: Vec<String> = s.iter().map(|x| x.to_string()).collect();
    format!("[{}]%N", v.join(";"))
}

fn coq_zlist<I: Iterator<Item = i64>>(it: I) -> String {
    let v: Vec<String> = it.map(|x| if x < 0 { format!("({})", x) } else { x.to_string() }).collect();
    format!("[{}]%Z", v.join(";"))
}

fn tensor_bits(v: &Value) -> Option<(Dt, Vec<usize>, String)> {
    Some(match v {
        Value::FloatTensor(t) => (Dt::F32, t.shape().to_vec(), coq_zlist(t.iter().map(|x| x.to_bits() as i64))),
        Value::Int32Tensor(t) => (Dt::I32, t.shape().to_vec(), coq_zlist(t.iter().map(|x| *x as i64))),
        Value::Int8Tensor(t) => (Dt::I8, t.shape().to_vec(), coq_zlist(t.iter().map(|x| *x as i64))),
        Value::UInt8Tensor(t) => (Dt::U8, t.shape().to_vec(), coq_zlist(t.iter().map(|x| *x as i64))),
        _ => return None,
    })
}

pub fn coq_val(v: &Value) -> String {
    if let Some((dt, shape, bits)) = tensor_bits(v) {
        return format!("VT {} {} {}", dt.coq(), coq_shape(&shape), bits);
    }
    match v {
        Value::Sequence(seq) => {
            let dt = match seq.dtype() {
                rten::DataType::Float => Dt::F32,
                rten::DataType::Int32 => Dt::I32,
                rten::DataType::Int8 => Dt::I8,
                rten::DataType::UInt8 => Dt::U8,
                _ => Dt::F32,
            };
            let items: Vec<String> = seq
                .iter()
                .map(|vv| {
                    let owned = vv.to_owned();
                    let (_, shape, bits) = tensor_bits(&owned).unwrap();
                    format!("({}, {})", coq_shape(&shape), bits)
                })
                .collect();
            format!("VS {} [{}]", dt.coq(), items.join(";"))
        }
        _ => unreachable!(),
    }
}

#[derive(Clone, Debug, PartialEq)]
pub enum Outcome {
    Ok(Vec<String>),
    Err(&'static str),
    Panic,
}

impl Outcome {
    pub fn coq(&self) -> String {
        match self {
            Outcome::Ok(vs) => {
                let items: Vec<String> = vs.iter().map(|v| format!("({})", v)).collect();
                format!("OOk [{}]", items.join(";"))
            }
            Outcome::Err(k) => format!("OErr \"{}\"", k),
            Outcome::Panic => "OPanic".to_string(),
        }
    }
    pub fn is_ok(&self) -> bool {
        matches!(self, Outcome::Ok(_))
    }
}

pub fn outcome_of(r: std::thread::Result<Result<Vec<Value>, &'static str>>) -> Outcome {
    match r {
        Ok(Ok(vals)) => Outcome::Ok(vals.iter().map(coq_val).collect()),
        Ok(Err(k)) => Outcome::Err(k),
        Err(_) => Outcome::Panic,
    }
}

/// `Operator::run` on borrowed views, panics caught.
pub fn run_views(op: &VOp, inputs: &[Option<ValueView>], n_out: usize) -> Outcome {
    let pool = Pool::new();
    let r = std::panic::catch_unwind(std::panic::AssertUnwindSafe(|| op.run(&pool, inputs, n_out)));
    outcome_of(r)
}

pub fn coq_string(s: &str) -> String {
    format!("\"{}\"", s.replace('"', "'"))
}

// ------------------------------------------------------------------ input holders

/// Keeps the storage of one operator input alive and hands out a view of it.
pub enum Holder {
    R(Rep),
    V(Value),
}

impl Holder {
    pub fn view(&self) -> ValueView<'_> {
        match self {
            Holder::R(r) => r.view(),
            Holder::V(v) => v.as_view(),
        }
    }
}

/// Represent input `inp` with representation `kind`; the bool says whether the kind applied
/// (sequences and inapplicable kinds fall back to the contiguous representation).
pub fn hold(inp: &In, kind: RepKind, rng: &mut SplitMix64) -> (Holder, bool) {
    match inp {
        In::T(lt) => {
            let r = Rep::build(lt, kind, rng);
            let a = r.applied && kind != RepKind::Contig;
            (Holder::R(r), a)
        }
        In::S(dt, items) => (Holder::V(make_sequence(*dt, items)), false),
    }
}

pub const ALT_KINDS: [RepKind; 6] = [
    RepKind::Permuted,
    RepKind::Stepped,
    RepKind::Offset,
    RepKind::Broadcast,
    RepKind::UnitPerm,
    RepKind::Composed,
];

pub fn owned_input(inp: &In, kind: OwnedKind, rng: &mut SplitMix64) -> (Value, bool) {
    match inp {
        In::T(lt) => owned_value(lt, kind, rng),
        In::S(dt, items) => (make_sequence(*dt, items), kind == OwnedKind::Exact),
    }
}
