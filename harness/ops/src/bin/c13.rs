//! C13 correspondence: in-place and commuted operator execution vs. normal execution.
//!
//!   c13 list <keys.csv>                print `key \t build \t in_place_inputs \t commutative`
//!   c13 gen <seed> <n> <tier> <keys.csv>
//!   c13 exec                           read lines, print `tag \t input \t coq-case`
//!
//! Input lines:
//!   D|<key>|<seed>                     differential case for operator <key>
//!   F|<key>|<seed>                     the same with inexact f32 operand values
//!   B|<op>|<dt>|<sa>|<sb>|<seed>       Add/Sub/Mul on explicit shapes (compared with the model)
use rten::{Value, ValueView};
use rten_tensor::prelude::*;
use std::io::{BufRead, Write};
use vh_ops::optable::*;
use vh_ops::*;

fn all_keys(csv: &str) -> Vec<String> {
    let mut keys: Vec<String> = csv.split(',').filter(|s| !s.is_empty()).map(|s| s.to_string()).collect();
    for k in known_keys() {
        if !keys.contains(&k) {
            keys.push(k);
        }
    }
    keys
}

struct KeyInfo {
    key: String,
    build: Result<(Vec<usize>, bool), String>,
}

fn probe(key: &str) -> KeyInfo {
    // build with several seeds: attribute draws may differ, the flags must not
    let mut last = Err("no case".to_string());
    for s in 0..4u64 {
        let mut rng = SplitMix64(0xC13 + s);
        let r = std::panic::catch_unwind(std::panic::AssertUnwindSafe(|| gen_case(key, &mut rng)));
        match r {
            Ok(Ok(c)) => return KeyInfo { key: key.to_string(), build: Ok((c.op.in_place_inputs(), c.op.is_commutative())) },
            Ok(Err(e)) => last = Err(e),
            Err(_) => last = Err("panic".to_string()),
        }
    }
    KeyInfo { key: key.to_string(), build: last }
}

fn fmt_shape(s: &[usize]) -> String {
    s.iter().map(|x| x.to_string()).collect::<Vec<_>>().join(",")
}
fn parse_shape(s: &str) -> Vec<usize> {
    if s.trim().is_empty() { vec![] } else { s.split(',').map(|x| x.parse().unwrap()).collect() }
}

fn generate(seed: u64, n: usize, tier: &str, csv: &str, out: &mut impl Write) {
    let mut rng = SplitMix64(seed);
    let infos: Vec<KeyInfo> = all_keys(csv).iter().map(|k| probe(k)).collect();
    let mut targets: Vec<(String, u64)> = vec![];
    for i in &infos {
        if let Ok((ip, comm)) = &i.build {
            if !ip.is_empty() || *comm || i.key.starts_with("TI:") {
                let w = if ["Add", "Sub", "Mul", "Div", "Pow", "Concat", "fused:AddSoftmax"].contains(&i.key.as_str()) { 3 } else { 1 };
                targets.push((i.key.clone(), w));
            }
        }
    }
    // every target at least six times, then weighted random
    for (k, _) in &targets {
        for _ in 0..6 {
            writeln!(out, "D|{}|{}", k, rng.next() >> 16).unwrap();
        }
    }
    let total: u64 = targets.iter().map(|t| t.1).sum();
    for _ in 0..n - n / 4 {
        let mut x = rng.below(total);
        for (k, w) in &targets {
            if x < *w {
                writeln!(out, "D|{}|{}", k, rng.next() >> 16).unwrap();
                break;
            }
            x -= w;
        }
    }
    // F lines: the same differential on f32 operands whose sums / products / reciprocals are NOT
    // exactly representable (thirds, tenths, 7, 10, pi, large, small and subnormal magnitudes,
    // single-element second operands): the property demands bit identity there too
    let fkeys: Vec<(String, u64)> = targets
        .iter()
        // (integer-only operators are skipped; so is the attention family, whose last-bit dependence
        // on the KV-cache strides is the recorded known finding F61 and grows with inexact operands)
        .filter(|(k, _)| {
            !["Not", "And", "Or", "Xor", "SequenceInsert", "SequenceErase", "Attention", "com.microsoft/MultiHeadAttention", "com.microsoft/GroupQueryAttention"]
                .contains(&k.as_str())
        })
        .map(|(k, _)| {
            let w = if k == "Div" { 10 } else if ["Add", "Sub", "Mul", "Pow", "TI:Add", "TI:Sub", "TI:Mul"].contains(&k.as_str()) { 5 } else { 1 };
            (k.clone(), w)
        })
        .collect();
    let ftotal: u64 = fkeys.iter().map(|t| t.1).sum();
    for (k, _) in &fkeys {
        writeln!(out, "F|{}|{}", k, rng.next() >> 16).unwrap();
    }
    for _ in 0..n / 3 {
        let mut x = rng.below(ftotal.max(1));
        for (k, w) in &fkeys {
            if x < *w {
                writeln!(out, "F|{}|{}", k, rng.next() >> 16).unwrap();
                break;
            }
            x -= w;
        }
    }
    // model-compared binary cases: exhaustive small shape pairs + random larger ones
    let max_rank = if tier == "thorough" { 3 } else { 2 };
    let mut shapes: Vec<Vec<usize>> = vec![vec![]];
    for r in 1..=max_rank {
        let total = 4usize.pow(r as u32);
        for mut code in 0..total {
            let mut s = vec![];
            for _ in 0..r {
                s.push(code % 4);
                code /= 4;
            }
            shapes.push(s);
        }
    }
    let ops = ["Add", "Sub", "Mul"];
    let mut k = 0usize;
    for sa in &shapes {
        for sb in &shapes {
            let op = ops[k % 3];
            let dt = if (k / 3) % 2 == 0 { "i32" } else { "f32" };
            k += 1;
            writeln!(out, "B|{}|{}|{}|{}|{}", op, dt, fmt_shape(sa), fmt_shape(sb), rng.next() >> 16).unwrap();
        }
    }
    for _ in 0..n / 3 {
        let (sa, sb) = bpair(&mut rng);
        let op = rng.pick(&ops);
        let dt = rng.pick(&["i32", "f32"]);
        writeln!(out, "B|{}|{}|{}|{}|{}", op, dt, fmt_shape(&sa), fmt_shape(&sb), rng.next() >> 16).unwrap();
    }
}

/// Representations chosen for the inputs that are NOT run in place.
fn hold_others(case: &OpCase, skip: &[usize], rng: &mut SplitMix64, names: &mut Vec<String>) -> Vec<Option<Holder>> {
    case.inputs
        .iter()
        .enumerate()
        .map(|(i, inp)| {
            let inp = inp.as_ref()?;
            if skip.contains(&i) {
                return None;
            }
            let kind = if rng.chance(3, 5) { RepKind::Contig } else { rng.pick(&ALT_KINDS) };
            let (h, applied) = hold(inp, kind, rng);
            if applied {
                names.push(format!("{}={}", i, kind.name()));
            }
            Some(h)
        })
        .collect()
}

fn views<'a>(hs: &'a [Option<Holder>]) -> Vec<Option<ValueView<'a>>> {
    hs.iter().map(|h| h.as_ref().map(|h| h.view())).collect()
}

fn run_in_place(op: &VOp, in_place: Vec<(usize, Value)>, inputs: &[Option<ValueView>], n_out: usize) -> (Outcome, bool) {
    let pool = Pool::new();
    let ptrs: Vec<usize> = in_place.iter().map(|(_, v)| value_data_ptr(v)).collect();
    let r = std::panic::catch_unwind(std::panic::AssertUnwindSafe(|| op.run_in_place(&pool, in_place, inputs, n_out)));
    let reused = match &r {
        Ok(Ok(vals)) => vals.iter().any(|v| ptrs.contains(&value_data_ptr(v)) && value_data_ptr(v) != 0),
        _ => false,
    };
    (outcome_of(r), reused)
}

fn exec_diff(key: &str, seed: u64) -> (String, String) {
    let mut rng = SplitMix64(seed);
    let case = match std::panic::catch_unwind(std::panic::AssertUnwindSafe(|| gen_case(key, &mut rng))) {
        Ok(Ok(c)) => c,
        Ok(Err(e)) => {
            return (format!("trivial-unbuildable:{}", key), format!("Diff {} {} (OErr \"build\") []", coq_string(key), coq_string(&e)));
        }
        Err(_) => return (format!("trivial-unbuildable:{}", key), format!("Diff {} \"generator panic\" (OErr \"build\") []", coq_string(key))),
    };
    // normal run: every input contiguous
    let base_h: Vec<Option<Holder>> = case.inputs.iter().map(|i| i.as_ref().map(|i| hold(i, RepKind::Contig, &mut rng).0)).collect();
    let base = run_views(&case.op, &views(&base_h), case.n_out);

    let mut alts: Vec<(String, Outcome)> = vec![];
    let present: Vec<usize> = case.inputs.iter().enumerate().filter(|(_, i)| i.is_some()).map(|(i, _)| i).collect();
    let ip = case.op.in_place_inputs();
    let comm = case.op.is_commutative();
    // the sets of inputs the executor may pass as owned values
    let mut sets: Vec<Vec<usize>> = vec![];
    if !ip.is_empty() {
        if comm {
            for &p in &present {
                sets.push(vec![p]);
            }
        } else {
            let s: Vec<usize> = ip.iter().copied().filter(|p| present.contains(p)).collect();
            if !s.is_empty() {
                sets.push(s);
            }
        }
    }
    let mut any_reused = false;
    for set in &sets {
        // exact + up to three other owned arrangements
        let mut kinds = vec![OwnedKind::Exact];
        let mut others: Vec<OwnedKind> = OwnedKind::ALL[1..].to_vec();
        for _ in 0..3 {
            if others.is_empty() {
                break;
            }
            let k = others.remove(rng.below(others.len() as u64) as usize);
            kinds.push(k);
        }
        for kind in kinds {
            let mut names = vec![];
            let mut owned = vec![];
            let mut applied_any = kind == OwnedKind::Exact;
            for &p in set {
                let (v, applied) = owned_input(case.inputs[p].as_ref().unwrap(), kind, &mut rng);
                applied_any |= applied;
                owned.push((p, v));
            }
            if !applied_any {
                continue;
            }
            let hs = hold_others(&case, set, &mut rng, &mut names);
            let (o, reused) = run_in_place(&case.op, owned, &views(&hs), case.n_out);
            any_reused |= reused;
            alts.push((format!("inplace@{:?}:{}:{}{}", set, kind.name(), names.join(","), if reused { ":reused" } else { "" }), o));
        }
    }
    if comm && present.len() == 2 {
        // the same operator object run on swapped operands
        let mut hs: Vec<Option<Holder>> = case.inputs.iter().map(|i| i.as_ref().map(|i| hold(i, RepKind::Contig, &mut rng).0)).collect();
        hs.swap(present[0], present[1]);
        alts.push(("swapped-run".to_string(), run_views(&case.op, &views(&hs), case.n_out)));
    }
    let tag = if !base.is_ok() {
        format!("trivial-err:{}", key)
    } else if alts.is_empty() {
        format!("trivial-noalt:{}", key)
    } else {
        format!("{}{}", key, if any_reused { "|reused" } else { "|fresh" })
    };
    let alt_terms: Vec<String> = alts.iter().map(|(n, o)| format!("({}, {})", coq_string(n), o.coq())).collect();
    (tag, format!("Diff {} {} ({}) [{}]", coq_string(key), coq_string(&case.desc), base.coq(), alt_terms.join(";")))
}

// ---- B cases: values (not bits) so that the Coq model can recompute the result ----

fn bres_of(o: std::thread::Result<Result<Vec<Value>, &'static str>>) -> String {
    match o {
        Ok(Ok(vals)) if vals.len() == 1 => match &vals[0] {
            Value::Int32Tensor(t) => format!("BOk {} {}", coq_n(t.shape()), coq_z(t.iter().map(|x| *x as i64))),
            Value::FloatTensor(t) => {
                let vals: Vec<i64> = t.iter().map(|x| if x.fract() == 0.0 && x.abs() < 16777216.0 { *x as i64 } else { 999999999 }).collect();
                format!("BOk {} {}", coq_n(t.shape()), coq_z(vals.into_iter()))
            }
            _ => "BPanic".to_string(),
        },
        Ok(Ok(_)) => "BPanic".to_string(),
        Ok(Err("IncompatibleInputShapes")) => "BErr".to_string(),
        Ok(Err(_)) => "BPanic".to_string(),
        Err(_) => "BPanic".to_string(),
    }
}
fn coq_n(s: &[usize]) -> String {
    format!("[{}]%N", s.iter().map(|x| x.to_string()).collect::<Vec<_>>().join(";"))
}
fn coq_z<I: Iterator<Item = i64>>(it: I) -> String {
    format!("[{}]%Z", it.map(|x| if x < 0 { format!("({})", x) } else { x.to_string() }).collect::<Vec<_>>().join(";"))
}

fn exec_bin(opname: &str, dt: &str, sa: &[usize], sb: &[usize], seed: u64) -> (String, String) {
    let mut rng = SplitMix64(seed);
    let dt = if dt == "i32" { Dt::I32 } else { Dt::F32 };
    let op = build_op(opname, &[]).expect("binary op builds");
    let a = LT::rand(&mut rng, dt, sa, -3, 3);
    let b = LT::rand(&mut rng, dt, sb, -3, 3);
    let pool = Pool::new();
    let (ha, hb) = (hold(&In::T(a.clone()), RepKind::Contig, &mut rng).0, hold(&In::T(b.clone()), RepKind::Contig, &mut rng).0);
    let normal = bres_of(std::panic::catch_unwind(std::panic::AssertUnwindSafe(|| op.run(&pool, &[Some(ha.view()), Some(hb.view())], 1))));
    let mut alts = vec![];
    let positions: &[usize] = if op.is_commutative() { &[0, 1] } else { &[0] };
    for &p in positions {
        let (own, other) = if p == 0 { (&a, &b) } else { (&b, &a) };
        for kind in OwnedKind::ALL {
            let (v, applied) = owned_value(own, kind, &mut rng);
            if !applied {
                continue;
            }
            let okind = if rng.chance(1, 2) { RepKind::Contig } else { rng.pick(&ALT_KINDS) };
            let (ho, _) = hold(&In::T(other.clone()), okind, &mut rng);
            let inputs: Vec<Option<ValueView>> = if p == 0 { vec![None, Some(ho.view())] } else { vec![Some(ho.view()), None] };
            let r = std::panic::catch_unwind(std::panic::AssertUnwindSafe(|| op.run_in_place(&pool, vec![(p, v)], &inputs, 1)));
            alts.push(format!("({}%N, {})", p, bres_of(r)));
        }
    }
    // rten-tensor's public answer to "can b be broadcast to a's shape" (what
    // can_run_binary_op_in_place computes)
    let cbt = rten_tensor::Tensor::<i32>::zeros(sb).can_broadcast_to(sa);
    let bop = match opname { "Add" => "BAdd", "Sub" => "BSub", _ => "BMul" };
    let bcast = sa != sb;
    let tag = if normal.starts_with("BOk") { format!("bin-{}{}", opname, if bcast { "-bcast" } else { "" }) } else { "trivial-bin-err".to_string() };
    let term = format!(
        "Bin {} {} {} {} {} {} ({}) [{}]",
        bop,
        coq_n(sa),
        coq_n(sb),
        coq_z(a.vals.iter().map(|&x| x as i64)),
        coq_z(b.vals.iter().map(|&x| x as i64)),
        cbt,
        normal,
        alts.join(";")
    );
    (tag, term)
}

fn exec_line(line: &str) -> String {
    let parts: Vec<&str> = line.split('|').collect();
    let (tag, term) = match parts[0] {
        "D" => exec_diff(parts[1], parts[2].parse().unwrap()),
        "F" => {
            set_inexact_floats(true);
            let (tag, term) = exec_diff(parts[1], parts[2].parse().unwrap());
            set_inexact_floats(false);
            (if tag.starts_with("trivial") { tag } else { format!("inexact:{}", tag) }, term)
        }
        "B" => exec_bin(parts[1], parts[2], &parse_shape(parts[3]), &parse_shape(parts[4]), parts[5].parse().unwrap()),
        _ => ("trivial-bad-line".to_string(), "Diff \"?\" \"bad line\" (OErr \"line\") []".to_string()),
    };
    format!("{}\t{}\t{}", tag, line, term)
}

fn main() {
    quiet_panics();
    let args: Vec<String> = std::env::args().collect();
    let stdout = std::io::stdout();
    let mut out = std::io::BufWriter::new(stdout.lock());
    match args.get(1).map(|s| s.as_str()) {
        Some("list") => {
            for k in all_keys(args.get(2).map(|s| s.as_str()).unwrap_or("")) {
                let i = probe(&k);
                match i.build {
                    Ok((ip, c)) => writeln!(out, "{}\tok\t{:?}\t{}", k, ip, c).unwrap(),
                    Err(e) => writeln!(out, "{}\terr:{}\t[]\tfalse", k, e.replace('\t', " ").replace('\n', " ")).unwrap(),
                }
            }
        }
        Some("gen") => {
            let seed: u64 = args[2].parse().unwrap();
            let n: usize = args[3].parse().unwrap();
            generate(seed, n, &args[4], args.get(5).map(|s| s.as_str()).unwrap_or(""), &mut out);
        }
        Some("exec") => {
            for line in std::io::stdin().lock().lines() {
                let line = line.unwrap();
                if line.trim().is_empty() {
                    continue;
                }
                writeln!(out, "{}", exec_line(&line)).unwrap();
            }
        }
        _ => {
            eprintln!("usage: c13 list <keys> | c13 gen <seed> <n> <tier> <keys> | c13 exec");
            std::process::exit(2);
        }
    }
}
