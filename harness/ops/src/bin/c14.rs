//! C14 correspondence: operator results do not depend on the memory layout of the inputs.
//!
//!   c14 list <keys.csv>                print `key \t build`
//!   c14 gen <seed> <n> <tier> <keys.csv>
//!   c14 exec                           read `L|<key>|<seed>` lines, print `tag \t input \t coq-case`
use rten::ValueView;
use std::io::{BufRead, Write};
use vh_ops::optable::*;
use vh_ops::*;

/// Operators on 4-D (N, C, H, W) images: extra composed representations and extra weight.
const FOUR_D: &[&str] = &[
    "Conv", "ConvInteger", "ConvTranspose", "MaxPool", "AveragePool", "GlobalAveragePool", "GlobalMaxPool",
    "BatchNormalization", "InstanceNormalization", "Resize", "Upsample", "DepthToSpace", "Transpose", "Pad", "Softmax",
    "LogSoftmax", "GridSample",
];

fn all_keys(csv: &str) -> Vec<String> {
    let mut keys: Vec<String> = csv.split(',').filter(|s| !s.is_empty()).map(|s| s.to_string()).collect();
    for k in known_keys() {
        if !keys.contains(&k) {
            keys.push(k);
        }
    }
    keys
}

fn probe(key: &str) -> Result<bool, String> {
    let mut last = Err("no case".to_string());
    for s in 0..4u64 {
        let mut rng = SplitMix64(0xC14 + s);
        match std::panic::catch_unwind(std::panic::AssertUnwindSafe(|| gen_case(key, &mut rng))) {
            Ok(Ok(c)) => return Ok(c.op.is_deterministic()),
            Ok(Err(e)) => last = Err(e),
            Err(_) => last = Err("panic".to_string()),
        }
    }
    last
}

fn generate(seed: u64, n: usize, csv: &str, out: &mut impl Write) {
    let mut rng = SplitMix64(seed);
    let targets: Vec<String> = all_keys(csv).into_iter().filter(|k| matches!(probe(k), Ok(true))).collect();
    for k in &targets {
        for _ in 0..3 {
            writeln!(out, "L|{}|{}", k, rng.next() >> 16).unwrap();
        }
    }
    // the broadcasting operators (layout-specific fast paths for contiguous operands) get extra weight
    let heavy: Vec<String> = targets
        .iter()
        .filter(|k| ["Add", "Sub", "Mul", "Div", "Pow", "Where", "Expand", "MatMul", "Conv", "Concat", "Softmax", "ReduceSum", "fused:AddSoftmax", "Gather", "GatherElements", "GatherND", "ScatterElements", "ScatterND"].contains(&k.as_str()))
        .cloned()
        .collect();
    // the index-driven operators: every input (data, indices, updates) is varied independently
    let index_ops: Vec<String> = targets
        .iter()
        .filter(|k| ["Gather", "GatherElements", "GatherND", "ScatterElements", "ScatterND"].contains(&k.as_str()))
        .cloned()
        .collect();
    let four_d: Vec<String> = targets.iter().filter(|k| FOUR_D.contains(&k.as_str())).cloned().collect();
    for i in 0..n {
        let k = if i % 4 == 0 && !heavy.is_empty() {
            rng.pick(&heavy)
        } else if i % 8 == 1 && !index_ops.is_empty() {
            rng.pick(&index_ops)
        } else if i % 8 == 2 && !four_d.is_empty() {
            rng.pick(&four_d)
        } else {
            rng.pick(&targets)
        };
        writeln!(out, "L|{}|{}", k, rng.next() >> 16).unwrap();
    }
}

fn views<'a>(hs: &'a [Option<Holder>]) -> Vec<Option<ValueView<'a>>> {
    hs.iter().map(|h| h.as_ref().map(|h| h.view())).collect()
}

fn exec_layout(key: &str, seed: u64) -> (String, String) {
    let mut rng = SplitMix64(seed);
    let case = match std::panic::catch_unwind(std::panic::AssertUnwindSafe(|| gen_case(key, &mut rng))) {
        Ok(Ok(c)) => c,
        Ok(Err(e)) => {
            return (format!("trivial-unbuildable:{}", key), format!("Diff {} {} (OErr \"build\") []", coq_string(key), coq_string(&e)));
        }
        Err(_) => return (format!("trivial-unbuildable:{}", key), format!("Diff {} \"generator panic\" (OErr \"build\") []", coq_string(key))),
    };
    let base_h: Vec<Option<Holder>> = case.inputs.iter().map(|i| i.as_ref().map(|i| hold(i, RepKind::Contig, &mut rng).0)).collect();
    let base = run_views(&case.op, &views(&base_h), case.n_out);

    let mut alts: Vec<(String, Outcome)> = vec![];
    // every input in the same alternative representation
    for kind in ALT_KINDS {
        let mut applied_any = false;
        let hs: Vec<Option<Holder>> = case
            .inputs
            .iter()
            .map(|i| {
                i.as_ref().map(|i| {
                    let (h, a) = hold(i, kind, &mut rng);
                    applied_any |= a;
                    h
                })
            })
            .collect();
        if applied_any {
            alts.push((kind.name().to_string(), run_views(&case.op, &views(&hs), case.n_out)));
        }
    }
    // composed representations (permute o slice/step/crop, optionally o broadcast): several
    // independent draws for the operators on 4-D images
    if FOUR_D.contains(&key) {
        for k in 0..4 {
            let mut applied_any = false;
            let hs: Vec<Option<Holder>> = case
                .inputs
                .iter()
                .map(|i| {
                    i.as_ref().map(|i| {
                        let (h, a) = hold(i, RepKind::Composed, &mut rng);
                        applied_any |= a;
                        h
                    })
                })
                .collect();
            if applied_any {
                alts.push((format!("composed#{}", k + 2), run_views(&case.op, &views(&hs), case.n_out)));
            }
        }
    }
    // mixed assignments: every input varied independently (more of them for the index-driven operators)
    let n_mixed = if key.contains("Gather") || key.contains("Scatter") { 5 } else { 2 };
    for _ in 0..n_mixed {
        let mut names = vec![];
        let hs: Vec<Option<Holder>> = case
            .inputs
            .iter()
            .enumerate()
            .map(|(idx, i)| {
                i.as_ref().map(|i| {
                    let kind = if rng.chance(1, 3) { RepKind::Contig } else { rng.pick(&ALT_KINDS) };
                    let (h, a) = hold(i, kind, &mut rng);
                    if a {
                        names.push(format!("{}={}", idx, kind.name()));
                    }
                    h
                })
            })
            .collect();
        if !names.is_empty() {
            alts.push((format!("mixed:{}", names.join(",")), run_views(&case.op, &views(&hs), case.n_out)));
        }
    }
    // TransformInputs wrapper: the wrapped operator on the un-permuted inputs
    if let Some((inner, inner_inputs)) = &case.inner {
        let hs: Vec<Option<Holder>> = inner_inputs.iter().map(|i| i.as_ref().map(|i| hold(i, RepKind::Contig, &mut rng).0)).collect();
        alts.push(("inner-direct".to_string(), run_views(inner, &views(&hs), case.n_out)));
    }
    let tag = if !base.is_ok() {
        format!("trivial-err:{}", key)
    } else if alts.is_empty() {
        format!("trivial-noalt:{}", key)
    } else {
        key.to_string()
    };
    let alt_terms: Vec<String> = alts.iter().map(|(n, o)| format!("({}, {})", coq_string(n), o.coq())).collect();
    (tag, format!("Diff {} {} ({}) [{}]", coq_string(key), coq_string(&case.desc), base.coq(), alt_terms.join(";")))
}

fn exec_line(line: &str) -> String {
    let parts: Vec<&str> = line.split('|').collect();
    let (tag, term) = match parts[0] {
        "L" => exec_layout(parts[1], parts[2].parse().unwrap()),
        _ => ("trivial-bad-line".to_string(), "Diff \"?\" \"bad line\" (OErr \"line\") []".to_string()),
    };
    format!("{}\t{}\t{}", tag, line, term)
}

fn main() {
    quiet_panics();
    let args: Vec<String> = std::env::args().collect();
    let stdout = std::io::stdout();
    let mut out = std::io::BufWriter::new(stdout.lock());
    match args.get(1).map(|s| s.as_str()) {
        Some("list") => {
            for k in all_keys(args.get(2).map(|s| s.as_str()).unwrap_or("")) {
                match probe(&k) {
                    Ok(d) => writeln!(out, "{}\tok\t{}", k, if d { "deterministic" } else { "nondeterministic" }).unwrap(),
                    Err(e) => writeln!(out, "{}\terr:{}\t-", k, e.replace('\t', " ").replace('\n', " ")).unwrap(),
                }
            }
        }
        Some("show") => {
            // debugging aid: print the logical inputs of one case
            let mut rng = SplitMix64(args[3].parse().unwrap());
            match gen_case(&args[2], &mut rng) {
                Ok(c) => {
                    writeln!(out, "{}", c.desc).unwrap();
                    for (i, inp) in c.inputs.iter().enumerate() {
                        match inp {
                            Some(In::T(lt)) => writeln!(out, "  input {}: {:?} {:?} const_axes={:?} vals={:?}", i, lt.dt, lt.shape, lt.const_axes, lt.vals).unwrap(),
                            Some(In::S(_, items)) => writeln!(out, "  input {}: sequence of {}", i, items.len()).unwrap(),
                            None => writeln!(out, "  input {}: absent", i).unwrap(),
                        }
                    }
                }
                Err(e) => writeln!(out, "error: {}", e).unwrap(),
            }
        }
        Some("gen") => {
            let seed: u64 = args[2].parse().unwrap();
            let n: usize = args[3].parse().unwrap();
            generate(seed, n, args.get(5).map(|s| s.as_str()).unwrap_or(""), &mut out);
        }
        Some("exec") => {
            for line in std::io::stdin().lock().lines() {
                let line = line.unwrap();
                if line.trim().is_empty() {
                    continue;
                }
                writeln!(out, "{}", exec_line(&line)).unwrap();
            }
        }
        _ => {
            eprintln!("usage: c14 list <keys> | c14 gen <seed> <n> <tier> <keys> | c14 exec");
            std::process::exit(2);
        }
    }
}
