//! Operator table: for an operator key, build the operator (through the ONNX registry's
//! reader, or one of the optimizer-only fused operators, or a `TransformInputs` wrapper) and
//! generate logically valid inputs with small integer values.
//!
//! Keys: `Add` (ai.onnx), `com.microsoft/Gelu` (other domain), `fused:AddSoftmax`,
//! `TI:MatMul` (TransformInputs wrapper around MatMul).
use crate::*;

pub struct OpCase {
    pub key: String,
    pub op: VOp,
    /// the operator without a TransformInputs wrapper + its un-permuted inputs (TI cases only)
    pub inner: Option<(VOp, Vec<Option<In>>)>,
    pub desc: String,
    pub inputs: Vec<Option<In>>,
    pub n_out: usize,
}

pub fn build_op(key: &str, attrs: &[(&str, Attr)]) -> Result<VOp, String> {
    if let Some(name) = key.strip_prefix("fused:") {
        let mut ints = vec![];
        let mut floats = vec![];
        for (_, a) in attrs {
            match a {
                Attr::Int(i) => ints.push(*i),
                Attr::Float(f) => floats.push(*f),
                _ => {}
            }
        }
        return fused_op(name, &ints, &floats).ok_or_else(|| "unknown fused op".to_string());
    }
    let (domain, op_type) = match key.split_once('/') {
        Some((d, t)) => (d, t),
        None => ("", key),
    };
    read_onnx_op(domain, op_type, attrs, Some(21))
}

fn ai(name: &'static str, v: i64) -> (&'static str, Attr) {
    (name, Attr::Int(v))
}
fn af(name: &'static str, v: f32) -> (&'static str, Attr) {
    (name, Attr::Float(v))
}
fn ais(name: &'static str, v: &[i64]) -> (&'static str, Attr) {
    (name, Attr::Ints(v.to_vec()))
}
fn astr(name: &'static str, v: &str) -> (&'static str, Attr) {
    (name, Attr::Str(v.to_string()))
}

/// Random dimension: mostly 1..=5, sometimes 1, rarely 0.
fn dim(rng: &mut SplitMix64, allow0: bool) -> usize {
    match rng.below(20) {
        0 if allow0 => 0,
        1 | 2 => 1,
        _ => 1 + rng.below(5) as usize,
    }
}

pub fn rand_shape(rng: &mut SplitMix64, min_rank: usize, max_rank: usize, allow0: bool) -> Vec<usize> {
    loop {
        let rank = min_rank + rng.upto(max_rank - min_rank);
        let mut s: Vec<usize> = (0..rank).map(|_| dim(rng, allow0)).collect();
        if allow0 && rank > 0 && rng.chance(1, 8) {
            // a zero-sized dimension next to non-trivial ones (empty batch etc.)
            let k = rng.below(rank as u64) as usize;
            s[k] = 0;
        }
        if numel(&s) <= 160 {
            return s;
        }
    }
}

/// Derive a shape that broadcasts to `out` (drop leading dims, replace dims by 1).
fn shrink(rng: &mut SplitMix64, out: &[usize]) -> Vec<usize> {
    let drop = if rng.chance(1, 2) { rng.upto(out.len()) } else { 0 };
    let mut s: Vec<usize> = out[drop..].to_vec();
    let mode = rng.below(5);
    let n = s.len();
    let mid = if n >= 3 { 1 + rng.below(n as u64 - 2) as usize } else { n };
    for (i, d) in s.iter_mut().enumerate() {
        let one = match mode {
            0 => false,
            1 => rng.chance(1, 2),
            2 => i == 0,          // leading
            3 => i == mid,        // a broadcast dimension sandwiched between kept ones
            _ => rng.chance(1, 4),
        };
        if one {
            *d = 1;
        }
    }
    s
}

/// Pair of shapes for a broadcasting binary operator.
pub fn bpair(rng: &mut SplitMix64) -> (Vec<usize>, Vec<usize>) {
    let mut out = rand_shape(rng, 0, 4, true);
    if out.len() >= 2 && rng.chance(1, 8) {
        // a zero-sized dimension broadcast against 1, next to non-trivial dimensions
        let k = rng.below(out.len() as u64) as usize;
        out[k] = 0;
    }
    match rng.below(10) {
        0 | 1 => (out.clone(), out),                       // equal
        2 | 3 | 4 => { let b = shrink(rng, &out); (out, b) }   // b broadcast to a
        5 | 6 => { let a = shrink(rng, &out); (a, out) }   // a broadcast to b (in-place input smaller)
        7 | 8 => (shrink(rng, &out), shrink(rng, &out)),   // both broadcast
        _ => (rand_shape(rng, 0, 3, true), rand_shape(rng, 0, 3, true)), // possibly incompatible
    }
}

fn t(rng: &mut SplitMix64, dt: Dt, shape: &[usize]) -> LT {
    match dt {
        Dt::U8 => LT::rand(rng, dt, shape, 0, 8),
        _ => LT::rand(rng, dt, shape, -4, 4),
    }
}
fn it(lt: LT) -> Option<In> {
    Some(In::T(lt))
}
fn ivec(v: &[i64]) -> Option<In> {
    it(LT::vec_i32(v))
}
fn iscalar_i(v: i64) -> Option<In> {
    it(LT::scalar(Dt::I32, v as f64))
}
fn fi(rng: &mut SplitMix64) -> Dt {
    let f = rng.chance(2, 3);
    if f || inexact_floats() { Dt::F32 } else { Dt::I32 }
}

const UNARY_F32: &[&str] = &[
    "Acos", "Acosh", "Asin", "Asinh", "Atan", "Atanh", "Ceil", "Cos", "Cosh", "Elu", "Erf", "Exp", "Floor",
    "Gelu", "HardSigmoid", "HardSwish", "IsInf", "IsNaN", "LeakyRelu", "Log", "Reciprocal", "Round",
    "Relu", "Sigmoid", "Sin", "Sinh", "Softplus", "Sqrt", "Swish", "Tan", "Tanh", "com.microsoft/Gelu",
    "com.microsoft/QuickGelu", "com.microsoft/FastGelu", "fused:Silu", "GlobalAveragePool?",
];
const UNARY_FI: &[&str] = &["Abs", "Neg", "Sign"];
const BINARY_FI: &[&str] = &["Add", "Sub", "Mul", "Div", "Equal", "Greater", "GreaterOrEqual", "Less", "LessOrEqual"];
const LOGICAL: &[&str] = &["And", "Or", "Xor"];
const VARIADIC: &[&str] = &["Max", "Min", "Sum", "Mean"];
const REDUCE: &[&str] = &[
    "ReduceL1", "ReduceL2", "ReduceLogSum", "ReduceLogSumExp", "ReduceMax", "ReduceMean", "ReduceMin",
    "ReduceProd", "ReduceSum", "ReduceSumSquare",
];

/// Every key this table has a dedicated generator for.
pub fn known_keys() -> Vec<String> {
    let mut v: Vec<String> = vec![];
    for l in [UNARY_F32, UNARY_FI, BINARY_FI, LOGICAL, VARIADIC, REDUCE] {
        v.extend(l.iter().filter(|s| !s.ends_with('?')).map(|s| s.to_string()));
    }
    for s in [
        "Identity", "Not", "Pow", "Mod", "PRelu", "com.microsoft/BiasGelu", "Where", "Clip", "Cast", "CastLike",
        "Concat", "Tile", "Expand", "Flatten", "Reshape", "Squeeze", "Unsqueeze", "Transpose", "Slice", "Split",
        "Pad", "Gather", "GatherElements", "GatherND", "ScatterElements", "ScatterND", "ArgMax", "ArgMin", "CumSum",
        "TopK", "NonZero", "MatMul", "Gemm", "MatMulInteger", "Einsum", "Conv", "ConvTranspose", "ConvInteger",
        "MaxPool", "AveragePool", "GlobalAveragePool", "GlobalMaxPool", "Softmax", "LogSoftmax",
        "LayerNormalization", "RMSNormalization", "BatchNormalization", "InstanceNormalization",
        "LpNormalization", "ai.onnx/SimplifiedLayerNormalization", "com.microsoft/SkipLayerNormalization",
        "com.microsoft/SkipSimplifiedLayerNormalization", "Resize", "Upsample", "DepthToSpace", "Trilu", "OneHot",
        "Range", "ConstantOfShape", "EyeLike", "Shape", "Size", "QuantizeLinear", "DequantizeLinear",
        "DynamicQuantizeLinear", "ReverseSequence", "SequenceConstruct", "SequenceInsert", "SequenceErase",
        "SequenceAt", "SequenceLength", "ConcatFromSequence", "SplitToSequence", "fused:AddSoftmax",
        "fused:FusedMatMul", "fused:RepeatInterleave", "fused:GroupedQueryAttentionMatMul", "Attention",
        "RotaryEmbedding", "Scatter", "GridSample", "NonMaxSuppression", "com.microsoft/MultiHeadAttention",
        "com.microsoft/GroupQueryAttention", "com.microsoft/RotaryEmbedding",
        "TI:MatMul", "TI:Add", "TI:Sub", "TI:Concat", "TI:Expand", "TI:Slice", "TI:Split", "TI:Mul",
    ] {
        v.push(s.to_string());
    }
    v
}

type Gen = (Vec<(&'static str, Attr)>, Vec<Option<In>>, usize);

fn gen_inner(key: &str, rng: &mut SplitMix64) -> Option<Gen> {
    let none: Vec<(&'static str, Attr)> = vec![];
    if UNARY_F32.contains(&key) {
        let s = rand_shape(rng, 0, 4, true);
        let mut attrs = none;
        match key {
            "Elu" | "LeakyRelu" | "Swish" if rng.chance(1, 2) => attrs.push(af("alpha", 0.5)),
            "HardSigmoid" if rng.chance(1, 2) => {
                attrs.push(af("alpha", 0.25));
                attrs.push(af("beta", 0.5));
            }
            "Gelu" if rng.chance(1, 2) => attrs.push(astr("approximate", "tanh")),
            "com.microsoft/QuickGelu" if rng.chance(1, 2) => attrs.push(af("alpha", 1.5)),
            _ => {}
        }
        let mut inputs = vec![it(t(rng, Dt::F32, &s))];
        if key == "com.microsoft/FastGelu" && rng.chance(1, 2) && !s.is_empty() {
            let last = *s.last().unwrap();
            inputs.push(it(t(rng, Dt::F32, &[last])));
        }
        return Some((attrs, inputs, 1));
    }
    if UNARY_FI.contains(&key) {
        let s = rand_shape(rng, 0, 4, true);
        let dt = fi(rng);
        return Some((none, vec![it(t(rng, dt, &s))], 1));
    }
    if BINARY_FI.contains(&key) {
        let (mut sa, mut sb) = bpair(rng);
        if inexact_floats() && rng.chance(if key == "Div" { 2 } else { 1 }, 4) {
            // a second operand with exactly one element (scalar shortcuts such as x * (1/d))
            if numel(&sa) < 4 {
                sa = vec![2 + rng.upto(2), 2 + rng.upto(2)];
            }
            sb = vec![1; rng.upto(sa.len().min(2))];
        }
        let dt = fi(rng);
        let a = t(rng, dt, &sa);
        let b = if key == "Div" { LT::rand_nonzero(rng, dt, &sb, -4, 4) } else { t(rng, dt, &sb) };
        return Some((none, vec![it(a), it(b)], 1));
    }
    if LOGICAL.contains(&key) {
        let (sa, sb) = bpair(rng);
        return Some((none, vec![it(LT::rand(rng, Dt::I32, &sa, 0, 1)), it(LT::rand(rng, Dt::I32, &sb, 0, 1))], 1));
    }
    if VARIADIC.contains(&key) {
        let out = rand_shape(rng, 0, 4, true);
        let n = 1 + rng.upto(2);
        let dt = if key == "Mean" { Dt::F32 } else { fi(rng) };
        let mut inputs = vec![];
        for i in 0..n {
            let s = if i == 0 && rng.chance(1, 2) { out.clone() } else { shrink(rng, &out) };
            inputs.push(it(t(rng, dt, &s)));
        }
        return Some((none, inputs, 1));
    }
    if REDUCE.contains(&key) {
        let s = rand_shape(rng, 0, 4, true);
        let dt = if matches!(key, "ReduceLogSum" | "ReduceLogSumExp" | "ReduceL2" | "ReduceMean") { Dt::F32 } else { fi(rng) };
        let mut attrs = none;
        if rng.chance(1, 2) {
            attrs.push(ai("keepdims", rng.below(2) as i64));
        }
        let mut inputs = vec![it(if key == "ReduceLogSum" { LT::rand(rng, dt, &s, 1, 4) } else { t(rng, dt, &s) })];
        if !s.is_empty() && rng.chance(3, 4) {
            let n = 1 + rng.upto(s.len() - 1);
            let mut axes: Vec<i64> = rng.perm(s.len())[..n].iter().map(|&a| a as i64).collect();
            if rng.chance(1, 3) {
                for a in axes.iter_mut() {
                    *a -= s.len() as i64;
                }
            }
            if rng.chance(1, 2) {
                inputs.push(ivec(&axes));
            } else {
                attrs.push(ais("axes", &axes));
            }
        }
        return Some((attrs, inputs, 1));
    }
    let g: Gen = match key {
        "Identity" => {
            let s = rand_shape(rng, 0, 4, true);
            let dt = rng.pick(&[Dt::F32, Dt::I32, Dt::I8, Dt::U8]);
            (none, vec![it(t(rng, dt, &s))], 1)
        }
        "Not" => {
            let s = rand_shape(rng, 0, 4, true);
            (none, vec![it(LT::rand(rng, Dt::I32, &s, 0, 1))], 1)
        }
        "Pow" => {
            let (sa, sb) = bpair(rng);
            let dt = fi(rng);
            (none, vec![it(LT::rand(rng, dt, &sa, -3, 3)), it(LT::rand(rng, dt, &sb, 0, 3))], 1)
        }
        "Mod" => {
            let (sa, sb) = bpair(rng);
            let dt = fi(rng);
            let fmod = if dt == Dt::F32 { 1 } else { rng.below(2) as i64 };
            (vec![ai("fmod", fmod)], vec![it(t(rng, dt, &sa)), it(LT::rand_nonzero(rng, dt, &sb, -4, 4))], 1)
        }
        "PRelu" => {
            let s = rand_shape(rng, 0, 4, true);
            let sl = shrink(rng, &s);
            (none, vec![it(t(rng, Dt::F32, &s)), it(t(rng, Dt::F32, &sl))], 1)
        }
        "com.microsoft/BiasGelu" => {
            let s = rand_shape(rng, 1, 4, false);
            let last = *s.last().unwrap();
            (none, vec![it(t(rng, Dt::F32, &s)), it(t(rng, Dt::F32, &[last]))], 1)
        }
        "Where" => {
            let out = rand_shape(rng, 0, 4, true);
            let dt = fi(rng);
            let (sc, sx, sy) = (shrink(rng, &out), shrink(rng, &out), if rng.chance(1, 2) { out.clone() } else { shrink(rng, &out) });
            (none, vec![it(LT::rand(rng, Dt::I32, &sc, 0, 1)), it(t(rng, dt, &sx)), it(t(rng, dt, &sy))], 1)
        }
        "Clip" => {
            let s = rand_shape(rng, 0, 4, true);
            let dt = fi(rng);
            let mut inputs = vec![it(t(rng, dt, &s))];
            match rng.below(4) {
                0 => {}
                1 => inputs.push(it(LT::scalar(dt, -1.0))),
                2 => {
                    inputs.push(None);
                    inputs.push(it(LT::scalar(dt, 2.0)));
                }
                _ => {
                    inputs.push(it(LT::scalar(dt, -2.0)));
                    inputs.push(it(LT::scalar(dt, 1.0)));
                }
            }
            (none, inputs, 1)
        }
        "Cast" => {
            let s = rand_shape(rng, 0, 4, true);
            let dt = rng.pick(&[Dt::F32, Dt::I32, Dt::I8, Dt::U8]);
            let to = rng.pick(&[1i64, 2, 3, 6, 7, 9]);
            (vec![ai("to", to)], vec![it(if dt == Dt::U8 { t(rng, dt, &s) } else { LT::rand(rng, dt, &s, -4, 4) })], 1)
        }
        "CastLike" => {
            let s = rand_shape(rng, 0, 4, true);
            let dt = rng.pick(&[Dt::F32, Dt::I32, Dt::I8, Dt::U8]);
            let dl = rng.pick(&[Dt::F32, Dt::I32, Dt::I8, Dt::U8]);
            (none, vec![it(t(rng, dt, &s)), it(t(rng, dl, &[]))], 1)
        }
        "Concat" => {
            let s = rand_shape(rng, 1, 4, true);
            let axis = rng.below(s.len() as u64) as usize;
            let n = 1 + rng.upto(2);
            let dt = fi(rng);
            let mut s = s;
            if s.len() >= 2 && rng.chance(1, 4) {
                // every input is empty because a NON-concat dimension is 0, while the extents
                // along the concat axis are non-zero: the output must still grow along the axis
                let k = (axis + 1 + rng.below(s.len() as u64 - 1) as usize) % s.len();
                s[k] = 0;
                if s[axis] == 0 {
                    s[axis] = 1 + rng.upto(3);
                }
            }
            let mut inputs = vec![];
            for i in 0..n {
                let mut si = s.clone();
                if i > 0 {
                    si[axis] = match rng.below(4) { 0 => 0, _ => 1 + rng.upto(4) };
                }
                inputs.push(it(t(rng, dt, &si)));
            }
            let ax = if rng.chance(1, 3) { axis as i64 - s.len() as i64 } else { axis as i64 };
            (vec![ai("axis", ax)], inputs, 1)
        }
        "Tile" => {
            let s = rand_shape(rng, 0, 3, true);
            let reps: Vec<i64> = s.iter().map(|_| if rng.chance(1, 3) { 1 } else { rng.range(0, 2) }).collect();
            let reps = if rng.chance(1, 4) { vec![1; s.len()] } else { reps };
            let dt = fi(rng);
            (none, vec![it(t(rng, dt, &s)), ivec(&reps)], 1)
        }
        "Expand" => {
            let mut out = rand_shape(rng, 0, 4, true);
            let mut s = if rng.chance(1, 4) { out.clone() } else { shrink(rng, &out) };
            if rng.chance(1, 4) {
                // same number of elements, higher rank: the result must still get the new shape
                s = rand_shape(rng, 0, 3, true);
                out = vec![1; 1 + rng.upto(1)];
                out.extend(&s);
            }
            let tgt: Vec<i64> = if rng.chance(1, 3) { shrink(rng, &out).iter().map(|&x| x as i64).collect() } else { out.iter().map(|&x| x as i64).collect() };
            let dt = fi(rng);
            (none, vec![it(t(rng, dt, &s)), ivec(&tgt)], 1)
        }
        "Flatten" => {
            let s = rand_shape(rng, 0, 4, true);
            let axis = rng.range(-(s.len() as i64), s.len() as i64);
            let dt = fi(rng);
            (vec![ai("axis", axis)], vec![it(t(rng, dt, &s))], 1)
        }
        "Reshape" => {
            let s = rand_shape(rng, 0, 4, true);
            let n = numel(&s);
            let mut new_shape: Vec<i64> = match rng.below(5) {
                0 => vec![n as i64],
                1 => vec![-1],
                2 => s.iter().rev().map(|&x| x as i64).collect(),
                3 => { let mut v: Vec<i64> = s.iter().map(|&x| x as i64).collect(); v.insert(rng.upto(s.len()), 1); v }
                _ => { if s.len() >= 2 { let mut v: Vec<i64> = s[2..].iter().map(|&x| x as i64).collect(); v.insert(0, (s[0] * s[1]) as i64); v } else { s.iter().map(|&x| x as i64).collect() } }
            };
            let mut attrs = none;
            if rng.chance(1, 4) && !new_shape.is_empty() && !s.is_empty() && new_shape.len() >= 1 && new_shape[0] == s[0] as i64 {
                new_shape[0] = 0; // copy from input
            } else if rng.chance(1, 6) {
                attrs.push(ai("allowzero", 1));
            }
            let dt = fi(rng);
            (attrs, vec![it(t(rng, dt, &s)), ivec(&new_shape)], 1)
        }
        "Squeeze" => {
            let mut s = rand_shape(rng, 1, 4, true);
            let k = rng.below(s.len() as u64) as usize;
            s[k] = 1;
            let dt = fi(rng);
            let mut inputs = vec![it(t(rng, dt, &s))];
            if rng.chance(2, 3) {
                let ax = if rng.chance(1, 3) { k as i64 - s.len() as i64 } else { k as i64 };
                inputs.push(ivec(&[ax]));
            }
            (none, inputs, 1)
        }
        "Unsqueeze" => {
            let s = rand_shape(rng, 0, 3, true);
            let k = rng.upto(s.len()) as i64;
            let axes = if rng.chance(1, 3) { vec![k, s.len() as i64 + 1] } else { vec![k] };
            let dt = fi(rng);
            (none, vec![it(t(rng, dt, &s)), ivec(&axes)], 1)
        }
        "Transpose" => {
            let s = rand_shape(rng, 0, 4, true);
            let dt = fi(rng);
            let mut attrs = none;
            if rng.chance(2, 3) {
                let p: Vec<i64> = rng.perm(s.len()).iter().map(|&x| x as i64).collect();
                attrs.push(ais("perm", &p));
            }
            (attrs, vec![it(t(rng, dt, &s))], 1)
        }
        "Slice" => {
            let s = rand_shape(rng, 1, 4, true);
            let dt = fi(rng);
            let n = 1 + rng.upto(s.len() - 1);
            let axes: Vec<usize> = rng.perm(s.len())[..n].to_vec();
            let (mut starts, mut ends, mut steps) = (vec![], vec![], vec![]);
            for &a in &axes {
                let d = s[a] as i64;
                let st = rng.range(-d - 1, d + 1);
                let en = rng.range(-d - 1, d + 2);
                let step = rng.pick(&[1i64, 1, 1, 2, 3, -1, -2]);
                starts.push(st);
                ends.push(if rng.chance(1, 8) { i32::MAX as i64 } else { en });
                steps.push(step);
            }
            let full = rng.chance(1, 5);
            if full {
                // no-op slice (in-place candidate)
                for (i, &a) in axes.iter().enumerate() {
                    starts[i] = 0;
                    ends[i] = s[a] as i64;
                    steps[i] = 1;
                }
            }
            let ax: Vec<i64> = axes.iter().map(|&a| if rng.chance(1, 4) { a as i64 - s.len() as i64 } else { a as i64 }).collect();
            let mut inputs = vec![it(t(rng, dt, &s)), ivec(&starts), ivec(&ends)];
            let with_axes = axes.len() != s.len() || axes.iter().enumerate().any(|(i, &a)| i != a) || rng.chance(1, 2);
            if with_axes {
                inputs.push(ivec(&ax));
                if rng.chance(2, 3) {
                    inputs.push(ivec(&steps));
                }
            }
            (none, inputs, 1)
        }
        "Split" => {
            let s = rand_shape(rng, 1, 4, false);
            let axis = rng.below(s.len() as u64) as usize;
            let dt = fi(rng);
            let d = s[axis];
            let k = 1 + rng.upto(2);
            let mut parts = vec![0i64; k];
            for _ in 0..d {
                parts[rng.below(k as u64) as usize] += 1;
            }
            let mut attrs = vec![ai("axis", if rng.chance(1, 3) { axis as i64 - s.len() as i64 } else { axis as i64 })];
            let mut inputs = vec![it(t(rng, dt, &s))];
            if rng.chance(2, 3) {
                inputs.push(ivec(&parts));
            } else {
                attrs.push(ai("num_outputs", k as i64));
            }
            (attrs, inputs, k)
        }
        "Pad" => {
            let mode = rng.pick(&["constant", "constant", "reflect", "edge"]);
            let s = rand_shape(rng, 1, 3, mode == "constant");
            let dt = fi(rng);
            let mut pads = vec![];
            for _ in 0..2 {
                for &d in &s {
                    let maxp = if mode == "reflect" { (d as i64 - 1).max(0).min(2) } else { 2 };
                    pads.push(rng.range(0, maxp));
                }
            }
            let mut inputs = vec![it(t(rng, dt, &s)), ivec(&pads)];
            if mode == "constant" && rng.chance(1, 2) {
                inputs.push(it(LT::scalar(dt, 3.0)));
            }
            (vec![astr("mode", mode)], inputs, 1)
        }
        "Gather" => {
            let mut s = rand_shape(rng, 1, 4, false);
            let axis = rng.below(s.len() as u64) as usize;
            if rng.chance(1, 4) {
                s[axis] = 1;
            }
            let is = rand_shape(rng, 0, 2, true);
            let d = s[axis] as i64;
            let idx = LT::rand(rng, Dt::I32, &is, -d, d - 1);
            let dt = fi(rng);
            (vec![ai("axis", axis as i64)], vec![it(t(rng, dt, &s)), it(idx)], 1)
        }
        "GatherElements" => {
            let mut s = rand_shape(rng, 1, 4, false);
            let mut axis = rng.below(s.len() as u64) as usize;
            let unit_axis = rng.chance(1, 3);
            if unit_axis {
                // gather along a size-1 axis that is not the last one, with more indices than data
                // along it (a view that is contiguous up to size-1 dims can give that axis stride 1)
                if s.len() < 2 {
                    s.push(2 + rng.upto(2));
                }
                axis = rng.below(s.len() as u64 - 1) as usize;
                s[axis] = 1;
                let last = s.len() - 1;
                if s[last] == 1 {
                    s[last] = 2 + rng.upto(2);
                }
            }
            let mut is = s.clone();
            let same = unit_axis || rng.chance(1, 2);
            for (i, d) in is.iter_mut().enumerate() {
                if i == axis { *d = if unit_axis { 2 + rng.upto(2) } else { 1 + rng.upto(3) } } else if !same { *d = 1 + rng.upto(*d - 1) }
            }
            let d = s[axis] as i64;
            let idx = LT::rand(rng, Dt::I32, &is, -d, d - 1);
            let dt = fi(rng);
            (vec![ai("axis", axis as i64)], vec![it(t(rng, dt, &s)), it(idx)], 1)
        }
        "GatherND" => {
            let s = rand_shape(rng, 1, 3, false);
            let k = 1 + rng.upto(s.len() - 1);
            let mut is = rand_shape(rng, 0, 2, false);
            is.push(k);
            let n = numel(&is) / k;
            let mut vals = vec![];
            for _ in 0..n {
                for j in 0..k {
                    vals.push(rng.below(s[j] as u64) as f64);
                }
            }
            let dt = fi(rng);
            (none, vec![it(t(rng, dt, &s)), it(LT::new(Dt::I32, &is, vals))], 1)
        }
        "ScatterElements" | "Scatter" => {
            let mut s = rand_shape(rng, 1, 3, false);
            let axis = rng.below(s.len() as u64) as usize;
            if rng.chance(1, 4) {
                s[axis] = 1;
            }
            let mut is = s.clone();
            for d in is.iter_mut() {
                *d = 1 + rng.upto(*d - 1);
            }
            let d = s[axis] as i64;
            // unique indices along the axis are not required when a reduction is given; without a
            // reduction duplicates make the result order-dependent, so use a permutation prefix
            let red = if key == "Scatter" { "none" } else { rng.pick(&["none", "add", "mul", "min", "max"]) };
            if red != "none" && rng.chance(1, 2) {
                is[axis] = s[axis] + rng.upto(2);
            }
            let idx = if red == "none" {
                let st = contiguous_strides(&is);
                let n = numel(&is);
                let mut vals = vec![0.0; n];
                // for every line along `axis`, distinct indices
                let lines = n / is[axis];
                let mut done = 0;
                let mut idxv = vec![0usize; is.len()];
                while done < lines {
                    let p = rng.perm(d as usize);
                    for j in 0..is[axis] {
                        idxv[axis] = j;
                        let off: usize = (0..is.len()).map(|q| idxv[q] * st[q]).sum();
                        vals[off] = p[j] as f64;
                    }
                    idxv[axis] = 0;
                    done += 1;
                    for q in (0..is.len()).rev() {
                        if q == axis { continue; }
                        idxv[q] += 1;
                        if idxv[q] < is[q] { break; }
                        idxv[q] = 0;
                    }
                }
                LT::new(Dt::I32, &is, vals)
            } else {
                LT::rand(rng, Dt::I32, &is, -d, d - 1)
            };
            let dt = fi(rng);
            let mut attrs = vec![ai("axis", axis as i64)];
            if key != "Scatter" && (red != "none" || rng.chance(1, 2)) {
                attrs.push(astr("reduction", red));
            }
            (attrs, vec![it(t(rng, dt, &s)), it(idx), it(LT::rand(rng, dt, &is, -2, 2))], 1)
        }
        "ScatterND" => {
            let s = rand_shape(rng, 1, 3, false);
            let k = 1 + rng.upto(s.len() - 1);
            let n = 1 + rng.upto(2);
            let red = rng.pick(&["add", "mul", "min", "max"]);
            let mut vals = vec![];
            for _ in 0..n {
                for j in 0..k {
                    vals.push(rng.below(s[j] as u64) as f64);
                }
            }
            let mut us = vec![n];
            us.extend_from_slice(&s[k..]);
            let dt = fi(rng);
            (vec![astr("reduction", red)], vec![it(t(rng, dt, &s)), it(LT::new(Dt::I32, &[n, k], vals)), it(LT::rand(rng, dt, &us, -2, 2))], 1)
        }
        "ArgMax" | "ArgMin" => {
            let s = rand_shape(rng, 1, 4, false);
            let axis = rng.range(-(s.len() as i64), s.len() as i64 - 1);
            let dt = fi(rng);
            (vec![ai("axis", axis), ai("keepdims", rng.below(2) as i64)], vec![it(t(rng, dt, &s))], 1)
        }
        "CumSum" => {
            let s = rand_shape(rng, 1, 4, true);
            let axis = rng.range(-(s.len() as i64), s.len() as i64 - 1);
            let dt = fi(rng);
            (vec![ai("exclusive", rng.below(2) as i64), ai("reverse", rng.below(2) as i64)], vec![it(t(rng, dt, &s)), iscalar_i(axis)], 1)
        }
        "TopK" => {
            let s = rand_shape(rng, 1, 3, false);
            let axis = rng.below(s.len() as u64) as usize;
            let k = rng.upto(s[axis]) as i64;
            let dt = fi(rng);
            // distinct values along every lane would make the index output unique; ties are
            // resolved by index in ONNX, keep ties (they test stability across layouts)
            (vec![ai("axis", axis as i64), ai("largest", rng.below(2) as i64)], vec![it(t(rng, dt, &s)), ivec(&[k])], 2)
        }
        "NonZero" => {
            let s = rand_shape(rng, 0, 3, true);
            let dt = fi(rng);
            (none, vec![it(LT::rand(rng, dt, &s, -1, 1))], 1)
        }
        "MatMul" | "fused:FusedMatMul" | "MatMulInteger" => {
            let (m, k, n) = (dim(rng, true), dim(rng, true), dim(rng, true));
            let batch = rand_shape(rng, 0, 2, false);
            let (mut sa, mut sb) = (vec![], vec![]);
            match rng.below(5) {
                0 => { sa = vec![m, k]; sb = vec![k, n]; }
                1 => { sa.extend(&batch); sa.extend([m, k]); sb = vec![k, n]; }
                2 => { sa = vec![m, k]; sb.extend(&batch); sb.extend([k, n]); }
                3 => { sa.extend(&batch); sa.extend([m, k]); sb.extend(shrink(rng, &batch)); sb.extend([k, n]); }
                _ => { sa.extend(&batch); sa.extend([m, k]); sb.extend(&batch); sb.extend([k, n]); }
            }
            if key == "MatMulInteger" {
                let da = rng.pick(&[Dt::U8, Dt::I8]);
                let db = rng.pick(&[Dt::U8, Dt::I8]);
                let mut inputs = vec![it(t(rng, da, &sa)), it(t(rng, db, &sb))];
                if rng.chance(1, 2) {
                    inputs.push(it(LT::scalar(da, 1.0)));
                    if rng.chance(1, 2) {
                        inputs.push(it(LT::scalar(db, 2.0)));
                    }
                }
                (none, inputs, 1)
            } else if key == "fused:FusedMatMul" {
                let mut inputs = vec![it(t(rng, Dt::F32, &sa)), it(t(rng, Dt::F32, &sb))];
                if rng.chance(1, 2) {
                    inputs.push(it(t(rng, Dt::F32, &[n])));
                }
                let attrs = if rng.chance(1, 2) { vec![af("alpha", 0.5)] } else { none };
                (attrs, inputs, 1)
            } else {
                let dt = if sa.len() == 2 && sb.len() == 2 { fi(rng) } else { Dt::F32 };
                (none, vec![it(t(rng, dt, &sa)), it(t(rng, dt, &sb))], 1)
            }
        }
        "Gemm" => {
            let (m, k, n) = (dim(rng, false), dim(rng, false), dim(rng, false));
            let (ta, tb) = (rng.below(2), rng.below(2));
            let sa = if ta == 1 { vec![k, m] } else { vec![m, k] };
            let sb = if tb == 1 { vec![n, k] } else { vec![k, n] };
            let mut inputs = vec![it(t(rng, Dt::F32, &sa)), it(t(rng, Dt::F32, &sb))];
            if rng.chance(2, 3) {
                let sc = rng.pick(&[vec![m, n], vec![n], vec![1, n], vec![m, 1], vec![]]);
                inputs.push(it(t(rng, Dt::F32, &sc)));
            }
            let mut attrs = vec![ai("transA", ta as i64), ai("transB", tb as i64)];
            if rng.chance(1, 2) {
                attrs.push(af("alpha", 0.5));
                attrs.push(af("beta", 2.0));
            }
            (attrs, inputs, 1)
        }
        "Einsum" => {
            let (a, b, c, d) = (dim(rng, false), dim(rng, false), dim(rng, false), dim(rng, false));
            let (eq, sa, sb) = match rng.below(5) {
                0 => ("ij,jk->ik", vec![a, b], Some(vec![b, c])),
                1 => ("bij,bjk->bik", vec![d, a, b], Some(vec![d, b, c])),
                2 => ("ij->ji", vec![a, b], None),
                3 => ("ij,ij->i", vec![a, b], Some(vec![a, b])),
                _ => ("bhid,bhjd->bhij", vec![2, a, b, c], Some(vec![2, a, d, c])),
            };
            let mut inputs = vec![it(t(rng, Dt::F32, &sa))];
            if let Some(sb) = sb {
                inputs.push(it(t(rng, Dt::F32, &sb)));
            }
            (vec![astr("equation", eq)], inputs, 1)
        }
        "Conv" | "ConvInteger" if rng.chance(1, 2) => {
            // pointwise: 1x1 kernel, no padding, unit strides, one group (its own code path)
            let (n, c, m, h, w) = (1 + rng.upto(1), 2 + rng.upto(2), 1 + rng.upto(2), 2 + rng.upto(2), 2 + rng.upto(2));
            let mut attrs = vec![ais("kernel_shape", &[1, 1])];
            if rng.chance(1, 2) {
                attrs.push(ais("strides", &[1, 1]));
            }
            if key == "ConvInteger" {
                (attrs, vec![it(t(rng, Dt::U8, &[n, c, h, w])), it(t(rng, Dt::I8, &[m, c, 1, 1]))], 1)
            } else {
                let mut inputs = vec![it(t(rng, Dt::F32, &[n, c, h, w])), it(t(rng, Dt::F32, &[m, c, 1, 1]))];
                if rng.chance(1, 2) {
                    inputs.push(it(t(rng, Dt::F32, &[m])));
                }
                (attrs, inputs, 1)
            }
        }
        "Conv" | "ConvInteger" | "ConvTranspose" => {
            let nd = 1 + rng.upto(1); // spatial dims
            let groups = if key != "ConvTranspose" && rng.chance(1, 3) { 2 } else { 1 };
            let (n, cg, mg) = (1 + rng.upto(1), 1 + rng.upto(2), 1 + rng.upto(2));
            let (c, m) = (cg * groups, mg * groups);
            let ks: Vec<usize> = (0..nd).map(|_| 1 + rng.upto(2)).collect();
            let sp: Vec<usize> = (0..nd).map(|i| ks[i] + rng.upto(3)).collect();
            let mut sx = vec![n, c];
            sx.extend(&sp);
            let mut sw = if key == "ConvTranspose" { vec![c, m] } else { vec![m, cg] };
            sw.extend(&ks);
            let mut attrs = vec![ais("kernel_shape", &ks.iter().map(|&x| x as i64).collect::<Vec<_>>())];
            if groups > 1 {
                attrs.push(ai("group", groups as i64));
            }
            if rng.chance(1, 2) {
                let st: Vec<i64> = (0..nd).map(|_| 1 + rng.upto(1) as i64).collect();
                attrs.push(ais("strides", &st));
            }
            if rng.chance(1, 2) {
                let pads: Vec<i64> = (0..2 * nd).map(|_| rng.upto(1) as i64).collect();
                attrs.push(ais("pads", &pads));
            } else if key == "Conv" && rng.chance(1, 3) {
                attrs.push(astr("auto_pad", "SAME_UPPER"));
            }
            if key == "ConvInteger" {
                let mut inputs = vec![it(t(rng, Dt::U8, &sx)), it(t(rng, Dt::I8, &sw))];
                if rng.chance(1, 2) {
                    inputs.push(it(LT::scalar(Dt::U8, 1.0)));
                }
                (attrs, inputs, 1)
            } else {
                let mut inputs = vec![it(t(rng, Dt::F32, &sx)), it(t(rng, Dt::F32, &sw))];
                if rng.chance(1, 2) {
                    inputs.push(it(t(rng, Dt::F32, &[m])));
                }
                (attrs, inputs, 1)
            }
        }
        "MaxPool" | "AveragePool" => {
            let nd = 1 + rng.upto(1);
            let ks: Vec<usize> = (0..nd).map(|_| 1 + rng.upto(2)).collect();
            let sp: Vec<usize> = (0..nd).map(|i| ks[i] + rng.upto(3)).collect();
            let mut sx = vec![1 + rng.upto(1), 1 + rng.upto(2)];
            sx.extend(&sp);
            let mut attrs = vec![ais("kernel_shape", &ks.iter().map(|&x| x as i64).collect::<Vec<_>>())];
            {
                // (the reader leaves `strides` empty when the attribute is absent and the operator
                // then rejects the input, so always give it)
                let st: Vec<i64> = (0..nd).map(|_| 1 + rng.upto(1) as i64).collect();
                attrs.push(ais("strides", &st));
            }
            if rng.chance(1, 3) {
                let pads: Vec<i64> = (0..2 * nd).map(|i| (rng.upto(1) as i64).min(ks[i % nd] as i64 - 1).max(0)).collect();
                attrs.push(ais("pads", &pads));
            }
            if key == "AveragePool" && rng.chance(1, 3) {
                attrs.push(ai("count_include_pad", 1));
            }
            (attrs, vec![it(t(rng, Dt::F32, &sx))], 1)
        }
        "GlobalAveragePool" | "GlobalMaxPool" => {
            let mut sx = vec![1 + rng.upto(1), 1 + rng.upto(2)];
            sx.extend(rand_shape(rng, 1, 2, false));
            (none, vec![it(t(rng, Dt::F32, &sx))], 1)
        }
        "Softmax" | "LogSoftmax" | "LpNormalization" => {
            let s = rand_shape(rng, 1, 4, true);
            let axis = rng.range(-(s.len() as i64), s.len() as i64 - 1);
            let mut attrs = vec![ai("axis", axis)];
            if key == "LpNormalization" {
                attrs.push(ai("p", 1 + rng.below(2) as i64));
            }
            (attrs, vec![it(t(rng, Dt::F32, &s))], 1)
        }
        "LayerNormalization" | "RMSNormalization" | "ai.onnx/SimplifiedLayerNormalization" => {
            let s = rand_shape(rng, 1, 4, false);
            let axis = rng.below(s.len() as u64) as usize;
            let ns = s[axis..].to_vec();
            let mut inputs = vec![it(t(rng, Dt::F32, &s)), it(t(rng, Dt::F32, &ns))];
            if key == "LayerNormalization" && rng.chance(1, 2) {
                inputs.push(it(t(rng, Dt::F32, &ns)));
            }
            let ax = if rng.chance(1, 2) { axis as i64 - s.len() as i64 } else { axis as i64 };
            (vec![ai("axis", ax), af("epsilon", 0.25)], inputs, 1)
        }
        "com.microsoft/SkipLayerNormalization" | "com.microsoft/SkipSimplifiedLayerNormalization" => {
            let s = vec![1 + rng.upto(1), 1 + rng.upto(3), 1 + rng.upto(4)];
            let h = s[2];
            let mut inputs = vec![it(t(rng, Dt::F32, &s)), it(t(rng, Dt::F32, &s)), it(t(rng, Dt::F32, &[h]))];
            if key.ends_with("SkipLayerNormalization") {
                if rng.chance(1, 2) {
                    inputs.push(it(t(rng, Dt::F32, &[h])));
                    if rng.chance(1, 2) {
                        inputs.push(it(t(rng, Dt::F32, &[h])));
                    }
                }
            } else if rng.chance(1, 2) {
                inputs.push(it(t(rng, Dt::F32, &[h])));
            }
            (vec![af("epsilon", 0.25)], inputs, 1)
        }
        "BatchNormalization" | "InstanceNormalization" => {
            let mut s = vec![1 + rng.upto(2), 1 + rng.upto(3)];
            s.extend(rand_shape(rng, 1, 2, false));
            let c = s[1];
            let mut inputs = vec![it(t(rng, Dt::F32, &s)), it(t(rng, Dt::F32, &[c])), it(t(rng, Dt::F32, &[c]))];
            if key == "BatchNormalization" {
                inputs.push(it(t(rng, Dt::F32, &[c])));
                inputs.push(it(LT::rand(rng, Dt::F32, &[c], 0, 4)));
            }
            (vec![af("epsilon", 0.25)], inputs, 1)
        }
        "Resize" | "Upsample" => {
            let s = vec![1 + rng.upto(1), 1 + rng.upto(2), 1 + rng.upto(3), 1 + rng.upto(3)];
            let mode = rng.pick(&["nearest", "linear"]);
            let mut attrs = vec![astr("mode", mode)];
            let x = it(t(rng, Dt::F32, &s));
            if key == "Upsample" {
                let sc = [1.0, 1.0, rng.pick(&[1.0, 2.0]), rng.pick(&[1.0, 2.0, 3.0])];
                (attrs, vec![x, it(LT::vec_f32(&sc))], 1)
            } else {
                if rng.chance(1, 2) {
                    attrs.push(astr("coordinate_transformation_mode", rng.pick(&["half_pixel", "asymmetric", "align_corners"])));
                }
                if rng.chance(1, 2) {
                    let sc = if rng.chance(1, 3) { [1.0, 1.0, 1.0, 1.0] } else { [1.0, 1.0, rng.pick(&[0.5, 1.0, 2.0]), rng.pick(&[1.0, 2.0, 1.5])] };
                    (attrs, vec![x, None, it(LT::vec_f32(&sc))], 1)
                } else {
                    let sz = if rng.chance(1, 3) { [s[0] as i64, s[1] as i64, s[2] as i64, s[3] as i64] } else { [s[0] as i64, s[1] as i64, 1 + rng.upto(4) as i64, 1 + rng.upto(4) as i64] };
                    (attrs, vec![x, None, None, ivec(&sz)], 1)
                }
            }
        }
        "DepthToSpace" => {
            let b = 1 + rng.upto(1);
            let s = vec![1 + rng.upto(1), b * b * (1 + rng.upto(1)), 1 + rng.upto(2), 1 + rng.upto(2)];
            (vec![ai("blocksize", b as i64), astr("mode", rng.pick(&["DCR", "CRD"]))], vec![it(t(rng, Dt::F32, &s))], 1)
        }
        "Trilu" => {
            let s = rand_shape(rng, 2, 4, true);
            let dt = fi(rng);
            let mut inputs = vec![it(t(rng, dt, &s))];
            if rng.chance(1, 2) {
                inputs.push(iscalar_i(rng.range(-2, 2)));
            }
            (vec![ai("upper", rng.below(2) as i64)], inputs, 1)
        }
        "OneHot" => {
            let s = rand_shape(rng, 0, 3, true);
            let depth = 1 + rng.upto(4) as i64;
            let dt = fi(rng);
            (vec![ai("axis", -1)], vec![it(LT::rand(rng, Dt::I32, &s, -depth, depth - 1)), iscalar_i(depth), it(LT::new(dt, &[2], vec![-1.0, 3.0]))], 1)
        }
        "Range" => {
            let dt = fi(rng);
            (none, vec![it(LT::scalar(dt, rng.range(-3, 3) as f64)), it(LT::scalar(dt, rng.range(-3, 6) as f64)), it(LT::scalar(dt, rng.pick(&[1.0, 2.0, -1.0])))], 1)
        }
        "ConstantOfShape" => {
            let s = rand_shape(rng, 0, 3, true);
            (none, vec![ivec(&s.iter().map(|&x| x as i64).collect::<Vec<_>>())], 1)
        }
        "EyeLike" => {
            let s = rand_shape(rng, 2, 2, true);
            (vec![ai("k", rng.range(-1, 1))], vec![it(t(rng, Dt::F32, &s))], 1)
        }
        "Shape" | "Size" => {
            let s = rand_shape(rng, 0, 4, true);
            let dt = fi(rng);
            (none, vec![it(t(rng, dt, &s))], 1)
        }
        "QuantizeLinear" => {
            let s = rand_shape(rng, 1, 3, true);
            let inputs = vec![it(t(rng, Dt::F32, &s)), it(LT::scalar(Dt::F32, 0.5)), it(LT::scalar(rng.pick(&[Dt::U8, Dt::I8]), 1.0))];
            (none, inputs, 1)
        }
        "DequantizeLinear" => {
            let s = rand_shape(rng, 1, 3, true);
            let dt = rng.pick(&[Dt::U8, Dt::I8]);
            let mut inputs = vec![it(t(rng, dt, &s)), it(LT::scalar(Dt::F32, 0.5))];
            if rng.chance(1, 2) {
                inputs.push(it(LT::scalar(dt, 1.0)));
            }
            (none, inputs, 1)
        }
        "DynamicQuantizeLinear" => {
            let s = rand_shape(rng, 1, 3, false);
            (none, vec![it(t(rng, Dt::F32, &s))], 3)
        }
        "ReverseSequence" => {
            let s = rand_shape(rng, 2, 3, false);
            let (ba, ta) = if rng.chance(1, 2) { (0usize, 1usize) } else { (1, 0) };
            let lens: Vec<i64> = (0..s[ba]).map(|_| 1 + rng.upto(s[ta] - 1) as i64).collect();
            let dt = fi(rng);
            (vec![ai("batch_axis", ba as i64), ai("time_axis", ta as i64)], vec![it(t(rng, dt, &s)), ivec(&lens)], 1)
        }
        "SequenceConstruct" => {
            let n = 1 + rng.upto(2);
            let dt = fi(rng);
            let inputs = (0..n).map(|_| { let s = rand_shape(rng, 0, 2, true); it(t(rng, dt, &s)) }).collect();
            (none, inputs, 1)
        }
        "SequenceInsert" | "SequenceErase" | "SequenceAt" | "SequenceLength" | "ConcatFromSequence" => {
            let n = if key == "SequenceInsert" { rng.upto(3) } else { 1 + rng.upto(2) };
            let dt = fi(rng);
            let base = rand_shape(rng, 1, 2, false);
            let items: Vec<LT> = (0..n).map(|_| { let s = if key == "ConcatFromSequence" { base.clone() } else { rand_shape(rng, 0, 2, true) }; t(rng, dt, &s) }).collect();
            let seq = Some(In::S(dt, items));
            match key {
                "SequenceInsert" => {
                    let s = rand_shape(rng, 0, 2, true);
                    let mut inputs = vec![seq, it(t(rng, dt, &s))];
                    if rng.chance(1, 2) {
                        inputs.push(iscalar_i(rng.range(-(n as i64), n as i64)));
                    }
                    (none, inputs, 1)
                }
                "SequenceErase" | "SequenceAt" => {
                    let mut inputs = vec![seq];
                    if key == "SequenceAt" || rng.chance(1, 2) {
                        inputs.push(iscalar_i(rng.range(-(n as i64), n as i64 - 1)));
                    }
                    (none, inputs, 1)
                }
                "SequenceLength" => (none, vec![seq], 1),
                _ => (vec![ai("axis", 0), ai("new_axis", rng.below(2) as i64)], vec![seq], 1),
            }
        }
        "SplitToSequence" => {
            let s = rand_shape(rng, 1, 3, false);
            let axis = rng.below(s.len() as u64) as usize;
            let dt = fi(rng);
            let mut inputs = vec![it(t(rng, dt, &s))];
            if rng.chance(1, 2) {
                inputs.push(iscalar_i(1 + rng.upto(1) as i64));
            }
            (vec![ai("axis", axis as i64)], inputs, 1)
        }
        "fused:AddSoftmax" => {
            let (sa, sb) = loop {
                let (a, b) = bpair(rng);
                if !a.is_empty() || !b.is_empty() {
                    break (a, b);
                }
            };
            (vec![ai("flush_nans_to_zero", rng.below(2) as i64)], vec![it(t(rng, Dt::F32, &sa)), it(t(rng, Dt::F32, &sb))], 1)
        }
        "fused:RepeatInterleave" => {
            let s = rand_shape(rng, 1, 4, true);
            let axis = rng.below(s.len() as u64) as i64;
            let dt = fi(rng);
            (vec![ai("axis", axis), ai("repeats", 1 + rng.upto(2) as i64)], vec![it(t(rng, dt, &s))], 1)
        }
        "fused:GroupedQueryAttentionMatMul" => {
            let (b, kvh, rep, sq, sk, d) = (1 + rng.upto(1), 1 + rng.upto(1), 1 + rng.upto(2), dim(rng, false), dim(rng, false), dim(rng, false));
            let tr = rng.below(2);
            let sa = vec![b, kvh * rep, sq, d];
            let sb = if tr == 1 { vec![b, kvh, sk, d] } else { vec![b, kvh, d, sk] };
            let mut attrs = vec![ai("repeats", rep as i64), ai("transpose_rhs", tr as i64)];
            if rng.chance(1, 2) {
                attrs.push(af("alpha", 0.5));
            }
            (attrs, vec![it(t(rng, Dt::F32, &sa)), it(t(rng, Dt::F32, &sb))], 1)
        }
        "Attention" => {
            // 4-D query/key/value (batch, heads, seq, head_size) with optional past key/value
            let (b, h, sq, skv, d, dv) = (1 + rng.upto(1), 1 + rng.upto(1), 1 + rng.upto(2), 1 + rng.upto(2), 1 + rng.upto(3), 1 + rng.upto(3));
            let past = rng.upto(2);
            // V (and past V) are non-negative: softmax(QK^T) * V is then a sum of non-negative terms, so
            // the f32 summation order of the GEMM (known finding F61) moves the result by a few ulp at
            // most; with mixed signs the terms can cancel and the same rounding difference becomes an
            // arbitrarily large ULP distance (0 vs 3e-8), which is not a different phenomenon
            let mut inputs = vec![it(t(rng, Dt::F32, &[b, h, sq, d])), it(t(rng, Dt::F32, &[b, h, skv, d])), it(LT::rand(rng, Dt::F32, &[b, h, skv, dv], 0, 4))];
            let mut n_out = 1;
            if rng.chance(2, 3) {
                inputs.push(None); // attn_mask
                inputs.push(it(t(rng, Dt::F32, &[b, h, past, d])));
                inputs.push(it(LT::rand(rng, Dt::F32, &[b, h, past, dv], 0, 4)));
                n_out = 3;
            }
            let attrs = if rng.chance(1, 2) { vec![ai("is_causal", 1)] } else { none };
            (attrs, inputs, n_out)
        }
        "GridSample" => {
            let (n, c, h, w, ho, wo) = (1 + rng.upto(1), 1 + rng.upto(1), 1 + rng.upto(3), 1 + rng.upto(3), 1 + rng.upto(2), 1 + rng.upto(2));
            let grid = LT::rand_with(rng, Dt::F32, &[n, ho, wo, 2], |r| r.range(-2, 2) as f64 * 0.5);
            (none, vec![it(t(rng, Dt::F32, &[n, c, h, w])), it(grid)], 1)
        }
        "NonMaxSuppression" => {
            let (b, c, n) = (1 + rng.upto(1), 1 + rng.upto(1), 1 + rng.upto(4));
            // boxes as [y1, x1, y2, x2] with integer corners
            let mut bv = vec![];
            for _ in 0..b * n {
                let (y, x) = (rng.range(0, 3) as f64, rng.range(0, 3) as f64);
                bv.extend([y, x, y + rng.range(1, 3) as f64, x + rng.range(1, 3) as f64]);
            }
            let boxes = LT::new(Dt::F32, &[b, n, 4], bv);
            let scores = LT::rand(rng, Dt::F32, &[b, c, n], 0, 4);
            (none, vec![it(boxes), it(scores), iscalar_i(rng.range(0, 3)), it(LT::scalar(Dt::F32, 0.5)), it(LT::scalar(Dt::F32, 1.0))], 1)
        }
        "com.microsoft/MultiHeadAttention" => {
            let (b, nh, h, hv, sq, skv, past) = (1 + rng.upto(1), 1 + rng.upto(1), 1 + rng.upto(2), 1 + rng.upto(2), 1 + rng.upto(2), 1 + rng.upto(2), rng.upto(2));
            // non-negative V / past V: see "Attention"
            let mut inputs = vec![it(t(rng, Dt::F32, &[b, sq, nh * h])), it(t(rng, Dt::F32, &[b, skv, nh * h])), it(LT::rand(rng, Dt::F32, &[b, skv, nh * hv], 0, 4))];
            let mut n_out = 1;
            if rng.chance(3, 4) {
                inputs.extend([None, None, None]);
                inputs.push(it(t(rng, Dt::F32, &[b, nh, past, h])));
                inputs.push(it(LT::rand(rng, Dt::F32, &[b, nh, past, hv], 0, 4)));
                n_out = 3;
            }
            (vec![ai("num_heads", nh as i64)], inputs, n_out)
        }
        "com.microsoft/GroupQueryAttention" => {
            let (mut b, kvh, rep, h, s, past) = (1 + rng.upto(1), 1 + rng.upto(1), 1 + rng.upto(1), 2 * (1 + rng.upto(1)), 1 + rng.upto(2), rng.upto(2));
            if s > 1 {
                b = 1; // a prompt on top of a past context is only supported for batch size 1
            }
            let nh = kvh * rep;
            // non-negative V / past V: see "Attention"
            let mut inputs = vec![it(t(rng, Dt::F32, &[b, s, nh * h])), it(t(rng, Dt::F32, &[b, s, kvh * h])), it(LT::rand(rng, Dt::F32, &[b, s, kvh * h], 0, 4))];
            let with_past = rng.chance(3, 4);
            let p = if with_past { past } else { 0 };
            if with_past {
                inputs.push(it(t(rng, Dt::F32, &[b, kvh, p, h])));
                inputs.push(it(LT::rand(rng, Dt::F32, &[b, kvh, p, h], 0, 4)));
            } else {
                inputs.extend([None, None]);
            }
            inputs.push(ivec(&vec![(p + s) as i64 - 1; b]));
            inputs.push(iscalar_i((p + s) as i64));
            (vec![ai("num_heads", nh as i64), ai("kv_num_heads", kvh as i64)], inputs, 3)
        }
        "com.microsoft/RotaryEmbedding" => {
            let (b, h, s, d, maxpos) = (1 + rng.upto(1), 1 + rng.upto(1), 1 + rng.upto(2), 2 * (1 + rng.upto(1)), 3 + rng.upto(2));
            let pos = LT::rand(rng, Dt::I32, &[b, s], 0, maxpos as i64 - 1);
            (none, vec![it(t(rng, Dt::F32, &[b, h, s, d])), it(pos), it(t(rng, Dt::F32, &[maxpos, d / 2])), it(t(rng, Dt::F32, &[maxpos, d / 2]))], 1)
        }
        "RotaryEmbedding" => {
            let (b, h, s, d) = (1 + rng.upto(1), 1 + rng.upto(1), 1 + rng.upto(2), 2 * (1 + rng.upto(1)));
            let cb = if rng.chance(1, 2) { 1 } else { b };
            (none, vec![it(t(rng, Dt::F32, &[b, h, s, d])), it(t(rng, Dt::F32, &[cb, s, d / 2])), it(t(rng, Dt::F32, &[cb, s, d / 2]))], 1)
        }
        _ => return None,
    };
    Some(g)
}

fn attrs_desc(attrs: &[(&'static str, Attr)]) -> String {
    let v: Vec<String> = attrs
        .iter()
        .map(|(n, a)| {
            let s = match a {
                Attr::Int(i) => i.to_string(),
                Attr::Ints(v) => format!("{:?}", v),
                Attr::Float(f) => f.to_string(),
                Attr::Floats(v) => format!("{:?}", v),
                Attr::Str(s) => s.clone(),
                Attr::Strs(v) => format!("{:?}", v),
                _ => "tensor".to_string(),
            };
            format!("{}={}", n, s)
        })
        .collect();
    v.join(",")
}

pub fn inputs_desc(inputs: &[Option<In>]) -> String {
    let v: Vec<String> = inputs
        .iter()
        .map(|i| match i {
            None => "-".to_string(),
            Some(In::T(lt)) => {
                if lt.vals.len() <= 8 && lt.dt == Dt::I32 && lt.shape.len() <= 1 {
                    format!("i32{:?}={:?}", lt.shape, lt.vals.iter().map(|&x| x as i64).collect::<Vec<_>>())
                } else {
                    lt.describe()
                }
            }
            Some(In::S(dt, items)) => format!("seq<{}>{:?}", dt.coq().to_lowercase(), items.iter().map(|l| l.shape.clone()).collect::<Vec<_>>()),
        })
        .collect();
    v.join(" ")
}

/// Generate a case for `key`. Keys without a dedicated generator get a generic attempt
/// (no attributes; one f32 tensor, or two broadcastable f32 tensors).
pub fn gen_case(key: &str, rng: &mut SplitMix64) -> Result<OpCase, String> {
    if let Some(inner_key) = key.strip_prefix("TI:") {
        let (attrs, inputs, n_out) = gen_inner(inner_key, rng).ok_or("no generator")?;
        let inner = build_op(inner_key, &attrs)?;
        // pick tensor inputs of rank >= 2 to transform
        let cands: Vec<usize> = inputs
            .iter()
            .enumerate()
            .filter(|(_, i)| matches!(i, Some(In::T(lt)) if lt.shape.len() >= 2))
            .map(|(i, _)| i)
            .collect();
        let mut perms: Vec<(usize, Option<Vec<usize>>)> = vec![];
        let mut outer_inputs = inputs.clone();
        for &i in &cands {
            if !perms.is_empty() && rng.chance(1, 2) {
                continue;
            }
            if let Some(In::T(lt)) = &inputs[i] {
                let rank = lt.shape.len();
                // the wrapper applies `perm` to the input it is given; give it the inverse-permuted tensor
                let (perm, spec) = if rng.chance(1, 3) {
                    let p: Vec<usize> = (0..rank).rev().collect();
                    (p, None)
                } else {
                    let p = rng.perm(rank);
                    (p.clone(), Some(p))
                };
                // outer.permuted(perm) == lt  <=>  outer = lt.permuted(inverse(perm))
                let outer = lt.permuted(&inverse_perm(&perm));
                outer_inputs[i] = Some(In::T(outer));
                perms.push((i, spec));
            }
        }
        let op = inner.with_permuted_inputs(&perms);
        let desc = format!("{} [{}] perms={:?} inputs: {}", key, attrs_desc(&attrs), perms, inputs_desc(&outer_inputs));
        return Ok(OpCase { key: key.to_string(), op, inner: Some((inner, inputs)), desc, inputs: outer_inputs, n_out });
    }
    if let Some((attrs, inputs, n_out)) = gen_inner(key, rng) {
        let op = build_op(key, &attrs)?;
        let desc = format!("{} [{}] inputs: {}", key, attrs_desc(&attrs), inputs_desc(&inputs));
        return Ok(OpCase { key: key.to_string(), op, inner: None, desc, inputs, n_out });
    }
    // generic fallback for operators the table does not know
    let op = build_op(key, &[])?;
    let inputs = if rng.chance(1, 2) {
        let s = rand_shape(rng, 0, 4, true);
        vec![it(t(rng, Dt::F32, &s))]
    } else {
        let (sa, sb) = bpair(rng);
        vec![it(t(rng, Dt::F32, &sa)), it(t(rng, Dt::F32, &sb))]
    };
    let desc = format!("{} [generic] inputs: {}", key, inputs_desc(&inputs));
    Ok(OpCase { key: key.to_string(), op, inner: None, desc, inputs, n_out: 1 })
}
