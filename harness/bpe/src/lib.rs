//! Shared helpers for the BPE correspondence harness (C27, C28).
//!
//! Input lines are `|`-separated `K=value` fields.  Strings are written as `.`-separated
//! hexadecimal code points (`-` = empty string), list items are separated by `;`, the two
//! halves of a pair by `,`.
//!
//!   M=  merges            a,b;a,b;...
//!   V=  vocabulary        n (none: Bpe builds it) | s<seed>,<mode> (generated, see
//!                         `scrambled_vocab`) | x<str>:<id>;... (explicit)
//!   E=  end_of_word_suffix (string, `-` = None)
//!   I=  ignore_merges     0|1
//!   A=  added tokens      <id>:<str>;...
use rten_text::models::{Bpe, BpeError, BpeOptions, char_to_byte};
use rten_text::Tokenizer;
use rustc_hash::FxHashMap;
use std::borrow::Cow;
use std::collections::{BTreeMap, HashMap};
use std::sync::mpsc;
use std::time::Duration;

pub struct SplitMix64(pub u64);
impl SplitMix64 {
    pub fn next(&mut self) -> u64 {
        self.0 = self.0.wrapping_add(0x9E3779B97F4A7C15);
        let mut z = self.0;
        z = (z ^ (z >> 30)).wrapping_mul(0xBF58476D1CE4E5B9);
        z = (z ^ (z >> 27)).wrapping_mul(0x94D049BB133111EB);
        z ^ (z >> 31)
    }
    pub fn below(&mut self, n: u64) -> u64 {
        if n == 0 { 0 } else { self.next() % n }
    }
    pub fn pick<T: Clone>(&mut self, xs: &[T]) -> T {
        xs[self.below(xs.len() as u64) as usize].clone()
    }
    pub fn chance(&mut self, num: u64, den: u64) -> bool {
        self.below(den) < num
    }
    pub fn shuffle<T>(&mut self, xs: &mut [T]) {
        for i in (1..xs.len()).rev() {
            let j = self.below(i as u64 + 1) as usize;
            xs.swap(i, j);
        }
    }
}

pub fn quiet_panics() {
    std::panic::set_hook(Box::new(|_| {}));
}

/// Outcome of running a closure under catch_unwind and a watchdog.
pub enum Run<T> {
    Done(T),
    Panicked,
    TimedOut,
}

/// Run `f` in its own thread; a panic or a 5 s overrun is an outcome, not a crash.  (A thread
/// that overran keeps spinning until the process exits.)
pub fn guarded<T: Send + 'static>(f: impl FnOnce() -> T + Send + 'static) -> Run<T> {
    let (tx, rx) = mpsc::channel();
    std::thread::Builder::new()
        .stack_size(16 << 20)
        .spawn(move || {
            let r = std::panic::catch_unwind(std::panic::AssertUnwindSafe(f));
            let _ = tx.send(r);
        })
        .unwrap();
    match rx.recv_timeout(Duration::from_secs(5)) {
        Ok(Ok(v)) => Run::Done(v),
        Ok(Err(_)) => Run::Panicked,
        Err(_) => Run::TimedOut,
    }
}

// ---------------------------------------------------------------- string syntax
pub fn hex_of_str(s: &str) -> String {
    if s.is_empty() {
        return "-".to_string();
    }
    s.chars().map(|c| format!("{:x}", c as u32)).collect::<Vec<_>>().join(".")
}
pub fn str_of_hex(h: &str) -> String {
    if h == "-" || h.is_empty() {
        return String::new();
    }
    h.split('.')
        .map(|x| char::from_u32(u32::from_str_radix(x, 16).expect("hex code point")).expect("scalar value"))
        .collect()
}
pub fn coq_str(s: &str) -> String {
    format!("[{}]", s.chars().map(|c| (c as u32).to_string()).collect::<Vec<_>>().join(";"))
}
pub fn coq_bytes(b: &[u8]) -> String {
    format!("[{}]", b.iter().map(|x| x.to_string()).collect::<Vec<_>>().join(";"))
}
pub fn coq_ids(b: &[u32]) -> String {
    format!("[{}]", b.iter().map(|x| x.to_string()).collect::<Vec<_>>().join(";"))
}
pub fn coq_usizes(b: &[usize]) -> String {
    format!("[{}]", b.iter().map(|x| x.to_string()).collect::<Vec<_>>().join(";"))
}
/// `[n+1; ids..]` per `Some(ids)`, `[0]` per `None`, concatenated: the argument of `unflat`.
pub fn coq_unflat<T: std::fmt::Display>(items: &[Option<Vec<T>>]) -> String {
    let mut out: Vec<String> = Vec::new();
    for it in items {
        match it {
            None => out.push("0".to_string()),
            Some(v) => {
                out.push((v.len() + 1).to_string());
                out.extend(v.iter().map(|x| x.to_string()));
            }
        }
    }
    format!("(unflat [{}])", out.join(";"))
}

/// A vocabulary as `keyed_vocab sfx [first chars] [ids] ++ .. ++ [explicit entries]`: entries
/// are grouped by the key's tail after its first char; groups of at least 8 are written flat.
pub fn coq_vocab(v: &[(String, u32)]) -> String {
    let mut groups: BTreeMap<String, Vec<(u32, u32)>> = BTreeMap::new();
    let mut rest: Vec<String> = Vec::new();
    for (k, id) in v {
        let mut cs = k.chars();
        match cs.next() {
            Some(c) => groups.entry(cs.as_str().to_string()).or_default().push((c as u32, *id)),
            None => rest.push(format!("({},{})", coq_str(k), id)),
        }
    }
    let mut parts: Vec<String> = Vec::new();
    for (tail, es) in groups {
        if es.len() >= 8 {
            let cs: Vec<String> = es.iter().map(|e| e.0.to_string()).collect();
            let ids: Vec<String> = es.iter().map(|e| e.1.to_string()).collect();
            parts.push(format!("keyed_vocab {} [{}] [{}]", coq_str(&tail), cs.join(";"), ids.join(";")));
        } else {
            for (c, id) in es {
                let key: String = std::iter::once(char::from_u32(c).unwrap()).chain(tail.chars()).collect();
                rest.push(format!("({},{})", coq_str(&key), id));
            }
        }
    }
    parts.push(coq_list(&rest));
    parts.join(" ++ ")
}

pub fn coq_list(items: &[String]) -> String {
    format!("[{}]", items.join(";"))
}

/// byte -> printable char, recovered from the public `char_to_byte()`.  Entries that the
/// implementation's map does not define stay '\0'.
pub fn impl_byte_to_char() -> [char; 256] {
    let mut t = ['\0'; 256];
    for (ch, b) in char_to_byte() {
        t[b as usize] = ch;
    }
    t
}

/// `(char, byte)` pairs of the public `char_to_byte()` map, sorted by byte then char.
pub fn impl_char_to_byte_sorted() -> Vec<(u32, u8)> {
    let m: HashMap<char, u8> = char_to_byte();
    let mut v: Vec<(u32, u8)> = m.into_iter().map(|(c, b)| (c as u32, b)).collect();
    v.sort_by_key(|&(c, b)| (b, c));
    v
}

// ---------------------------------------------------------------- tokenizer spec
#[derive(Clone, Debug)]
pub enum VocabSpec {
    None,
    Scrambled(u64, String),
    Explicit(Vec<(String, u32)>),
}

#[derive(Clone, Debug)]
pub struct Spec {
    pub merges: Vec<(String, String)>,
    pub vocab: VocabSpec,
    pub eow: Option<String>,
    pub ignore: bool,
    pub added: Vec<(u32, String)>,
}

pub fn fields(line: &str) -> BTreeMap<String, String> {
    let mut m = BTreeMap::new();
    for f in line.split('|') {
        if let Some((k, v)) = f.split_once('=') {
            m.insert(k.to_string(), v.to_string());
        }
    }
    m
}

pub fn items(v: &str) -> Vec<&str> {
    if v.is_empty() { vec![] } else { v.split(';').collect() }
}

impl Spec {
    pub fn parse(f: &BTreeMap<String, String>) -> Spec {
        let merges = items(f.get("M").map(|s| s.as_str()).unwrap_or(""))
            .into_iter()
            .map(|p| {
                let (a, b) = p.split_once(',').expect("merge pair");
                (str_of_hex(a), str_of_hex(b))
            })
            .collect();
        let v = f.get("V").map(|s| s.as_str()).unwrap_or("n");
        let vocab = if v == "n" {
            VocabSpec::None
        } else if let Some(rest) = v.strip_prefix('s') {
            let (seed, mode) = rest.split_once(',').unwrap_or((rest, ""));
            VocabSpec::Scrambled(seed.parse().expect("vocab seed"), mode.to_string())
        } else if let Some(rest) = v.strip_prefix('x') {
            VocabSpec::Explicit(
                items(rest)
                    .into_iter()
                    .map(|e| {
                        let (s, id) = e.rsplit_once(':').expect("vocab entry");
                        (str_of_hex(s), id.parse().expect("vocab id"))
                    })
                    .collect(),
            )
        } else {
            panic!("bad V field")
        };
        let eow = match f.get("E").map(|s| s.as_str()) {
            None | Some("-") => None,
            // `E=e` = Some(""), which Bpe::new normalises to None
            Some("e") => Some(String::new()),
            Some(h) => Some(str_of_hex(h)),
        };
        let ignore = f.get("I").map(|s| s == "1").unwrap_or(false);
        let added = items(f.get("A").map(|s| s.as_str()).unwrap_or(""))
            .into_iter()
            .map(|e| {
                let (id, s) = e.split_once(':').expect("added token");
                (id.parse().expect("added id"), str_of_hex(s))
            })
            .collect();
        Spec { merges, vocab, eow, ignore, added }
    }

    pub fn format(&self) -> String {
        let m: Vec<String> = self.merges.iter().map(|(a, b)| format!("{},{}", hex_of_str(a), hex_of_str(b))).collect();
        let v = match &self.vocab {
            VocabSpec::None => "n".to_string(),
            VocabSpec::Scrambled(s, mode) => format!("s{},{}", s, mode),
            VocabSpec::Explicit(es) => format!(
                "x{}",
                es.iter().map(|(s, id)| format!("{}:{}", hex_of_str(s), id)).collect::<Vec<_>>().join(";")
            ),
        };
        let e = match &self.eow {
            None => "-".to_string(),
            Some(s) if s.is_empty() => "e".to_string(),
            Some(s) => hex_of_str(s),
        };
        let a: Vec<String> = self.added.iter().map(|(id, s)| format!("{}:{}", id, hex_of_str(s))).collect();
        format!("M={}|V={}|E={}|I={}|A={}", m.join(";"), v, e, if self.ignore { 1 } else { 0 }, a.join(";"))
    }

    /// The vocabulary handed to `BpeOptions::vocab` (None = let Bpe build it), as a list with
    /// pairwise distinct keys sorted by id then key.
    pub fn explicit_vocab(&self) -> Option<Vec<(String, u32)>> {
        match &self.vocab {
            VocabSpec::None => None,
            VocabSpec::Explicit(es) => {
                let mut m: BTreeMap<String, u32> = BTreeMap::new();
                for (s, id) in es {
                    m.insert(s.clone(), *id);
                }
                let mut v: Vec<(String, u32)> = m.into_iter().collect();
                v.sort_by(|a, b| (a.1, &a.0).cmp(&(b.1, &b.0)));
                Some(v)
            }
            VocabSpec::Scrambled(seed, mode) => Some(scrambled_vocab(self, *seed, mode)),
        }
    }

    pub fn coq_opts(&self) -> String {
        let merges: Vec<String> = self.merges.iter().map(|(a, b)| format!("({},{})", coq_str(a), coq_str(b))).collect();
        let vocab = match self.explicit_vocab() {
            None => "None".to_string(),
            Some(v) => format!("Some ({})", coq_vocab(&v)),
        };
        let added: Vec<String> = self.added.iter().map(|(id, s)| format!("({},{})", id, coq_bytes(s.as_bytes()))).collect();
        let eow = match &self.eow {
            None => "None".to_string(),
            Some(s) => format!("Some {}", coq_str(s)),
        };
        format!(
            "{{| o_merges := {}; o_vocab := {}; o_added := {}; o_eow := {}; o_ignore := {} |}}",
            coq_list(&merges), vocab, coq_list(&added), eow, self.ignore
        )
    }
}

/// A generated vocabulary with pairwise distinct ids.  It contains the 256 byte characters
/// (taken from the implementation's own table), the end-of-word variants when a suffix is
/// set, and every operand and result of the merge list.  `mode` letters:
///   h  ids start near u32::MAX - n instead of near 0
///   k  with a suffix: do NOT use the "byte id + 256" layout for the end-of-word entries
///   d  drop one random entry (Bpe::new must then report an error)
///   t  add a few extra multi-character tokens
pub fn scrambled_vocab(spec: &Spec, seed: u64, mode: &str) -> Vec<(String, u32)> {
    let mut rng = SplitMix64(seed ^ 0x5eed_0000_0000_0001);
    let b2c = impl_byte_to_char();
    let eow = spec.eow.clone().filter(|s| !s.is_empty());
    let mut seen: HashMap<String, ()> = HashMap::new();
    let mut push = |k: String, keys: &mut Vec<String>| {
        if seen.insert(k.clone(), ()).is_none() {
            keys.push(k);
        }
    };
    let mut others: Vec<String> = Vec::new();
    for (a, b) in &spec.merges {
        for k in [a.clone(), b.clone(), format!("{}{}", a, b)] {
            push(k, &mut others);
        }
    }
    if mode.contains('t') {
        for _ in 0..3 {
            let n = 2 + rng.below(3);
            let k: String = (0..n).map(|_| b2c[rng.below(256) as usize]).collect();
            push(k, &mut others);
        }
    }
    let singles: Vec<String> = b2c.iter().map(|c| c.to_string()).collect();
    let n_total = 512 + others.len() as u32 + 8;
    let base: u32 = if mode.contains('h') { u32::MAX - n_total - rng.below(300) as u32 } else { rng.below(3) as u32 * 500 };
    let mut out: Vec<(String, u32)> = Vec::new();
    let mut taken: HashMap<String, ()> = HashMap::new();
    let mut add = |k: &String, id: u32, out: &mut Vec<(String, u32)>| {
        if taken.insert(k.clone(), ()).is_none() {
            out.push((k.clone(), id));
        }
    };
    // byte ids: a permutation of base .. base+255
    let mut perm: Vec<u32> = (0..256).collect();
    rng.shuffle(&mut perm);
    for (i, k) in singles.iter().enumerate() {
        add(k, base + perm[i], &mut out);
    }
    let mut next_free: Vec<u32> = (0..(256 + others.len() as u32 + 8)).map(|i| base + 256 + i).collect();
    if let Some(sfx) = &eow {
        if mode.contains('k') {
            // arbitrary ids for the end-of-word entries
            rng.shuffle(&mut next_free);
            for k in singles.iter() {
                let id = next_free.pop().unwrap();
                add(&format!("{}{}", k, sfx), id, &mut out);
            }
        } else {
            for (i, k) in singles.iter().enumerate() {
                add(&format!("{}{}", k, sfx), base + perm[i] + 256, &mut out);
            }
            next_free.retain(|&id| id >= base + 512);
        }
    }
    rng.shuffle(&mut next_free);
    for k in others.iter() {
        if let Some(id) = next_free.pop() {
            add(k, id, &mut out);
        }
    }
    if mode.contains('d') && !out.is_empty() {
        // prefer dropping something the merges need; otherwise any entry
        let idx = if !others.is_empty() && rng.chance(2, 3) {
            let k = rng.pick(&others);
            out.iter().position(|(s, _)| *s == k).unwrap_or(0)
        } else {
            rng.below(out.len() as u64) as usize
        };
        out.remove(idx);
    }
    out.sort_by(|a, b| (a.1, &a.0).cmp(&(b.1, &b.0)));
    out
}

#[derive(Clone, Copy, Debug, PartialEq)]
pub enum NewErr {
    InvalidMergeEntry,
    MissingVocabEntry,
    Other,
    Panic,
}

pub fn coq_new_outcome(r: &Result<(), NewErr>) -> &'static str {
    match r {
        Ok(()) => "NewOk",
        Err(NewErr::InvalidMergeEntry) => "NewErr InvalidMergeEntry",
        Err(NewErr::MissingVocabEntry) => "NewErr MissingVocabEntry",
        Err(NewErr::Other) => "NewOther",
        Err(NewErr::Panic) => "NewPanic",
    }
}

/// `Bpe::new` through the public options struct.
pub fn build_bpe(spec: &Spec) -> Result<Bpe, NewErr> {
    let spec = spec.clone();
    let r = std::panic::catch_unwind(move || {
        let pairs: Vec<(Cow<str>, Cow<str>)> = spec
            .merges
            .iter()
            .map(|(a, b)| (Cow::Owned(a.clone()), Cow::Owned(b.clone())))
            .collect();
        let vocab: Option<FxHashMap<String, u32>> = spec.explicit_vocab().map(|v| v.into_iter().collect());
        let added: FxHashMap<u32, String> = spec.added.iter().cloned().collect();
        let opts = BpeOptions {
            merges: &pairs,
            vocab,
            added_tokens: added,
            end_of_word_suffix: spec.eow.clone(),
            ignore_merges: spec.ignore,
        };
        Bpe::new(opts)
    });
    match r {
        Err(_) => Err(NewErr::Panic),
        Ok(Ok(b)) => Ok(b),
        Ok(Err(BpeError::InvalidMergeEntry(_))) => Err(NewErr::InvalidMergeEntry),
        Ok(Err(BpeError::MissingVocabEntry(_))) => Err(NewErr::MissingVocabEntry),
        Ok(Err(_)) => Err(NewErr::Other),
    }
}

pub fn build_tokenizer(spec: &Spec) -> Result<Tokenizer, NewErr> {
    build_bpe(spec).map(|b| Tokenizer::new(b, Default::default()))
}

/// BPE "training" on a corpus of byte strings: `k` rounds, each picks an adjacent pair that
/// occurs somewhere (uniformly over positions, not by frequency) and merges it everywhere.
/// Returns the merge list in the printable-char encoding of the implementation's table.
pub fn train_merges(rng: &mut SplitMix64, corpus: &[Vec<u8>], k: usize, eow: Option<&str>) -> Vec<(String, String)> {
    let b2c = impl_byte_to_char();
    let mut words: Vec<Vec<String>> = corpus
        .iter()
        .filter(|w| !w.is_empty())
        .map(|w| {
            let mut v: Vec<String> = w.iter().map(|&b| b2c[b as usize].to_string()).collect();
            if let Some(s) = eow {
                v.last_mut().unwrap().push_str(s);
            }
            v
        })
        .collect();
    let mut merges = Vec::new();
    for _ in 0..k {
        let cands: Vec<usize> = (0..words.len()).filter(|&i| words[i].len() >= 2).collect();
        if cands.is_empty() {
            break;
        }
        let w = rng.pick(&cands);
        let p = rng.below(words[w].len() as u64 - 1) as usize;
        let (a, b) = (words[w][p].clone(), words[w][p + 1].clone());
        for word in words.iter_mut() {
            let mut out = Vec::with_capacity(word.len());
            let mut i = 0;
            while i < word.len() {
                if i + 1 < word.len() && word[i] == a && word[i + 1] == b {
                    out.push(format!("{}{}", a, b));
                    i += 2;
                } else {
                    out.push(word[i].clone());
                    i += 1;
                }
            }
            *word = out;
        }
        merges.push((a, b));
    }
    merges
}
