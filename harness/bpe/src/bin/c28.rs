//! C28 correspondence: BPE merging through the public API
//! (`Bpe::new(BpeOptions{..})`, `Tokenizer::new`, `Tokenizer::encode`, `Model::get_token_str`).
//!
//!   c28 gen <seed> <n> <tier>    print input lines
//!   c28 exec                     read input lines, print `tag \t input \t coq-case`
//!
//! Input line = tokenizer spec (see lib.rs) plus
//!   S=  alphabet symbols (strings)   L= maximum word length (in symbols)   X= extra words
//! The words of a case are all words over S of length 0..=L (shorter first, then in alphabet
//! order with the first symbol most significant), followed by the extra words.
use rten_text::models::Model;
use std::collections::BTreeMap;
use std::io::{BufRead, Write};
use vh_bpe::*;

fn words_n(alpha: &[String], n: usize) -> Vec<String> {
    if n == 0 {
        return vec![String::new()];
    }
    let shorter = words_n(alpha, n - 1);
    let mut out = Vec::new();
    for s in alpha {
        for w in &shorter {
            out.push(format!("{}{}", s, w));
        }
    }
    out
}

fn case_words(alpha: &[String], len: usize, extra: &[String]) -> Vec<String> {
    let mut out = Vec::new();
    for n in 0..=len {
        out.extend(words_n(alpha, n));
    }
    out.extend(extra.iter().cloned());
    out
}

type Outs = (Vec<Option<Vec<u32>>>, BTreeMap<u32, String>);

fn run_words(spec: &Spec, words: &[String]) -> Result<Outs, NewErr> {
    let tk = build_tokenizer(spec)?;
    let mut outs = Vec::with_capacity(words.len());
    let mut obs = BTreeMap::new();
    for w in words {
        let r = std::panic::catch_unwind(std::panic::AssertUnwindSafe(|| tk.encode(w.as_str(), None).map(|e| e.token_ids().to_vec())));
        match r {
            Ok(Ok(ids)) => {
                for &id in &ids {
                    if !obs.contains_key(&id) {
                        if let Some(s) = tk.model().get_token_str(id) {
                            obs.insert(id, s);
                        }
                    }
                }
                outs.push(Some(ids));
            }
            _ => outs.push(None),
        }
    }
    Ok((outs, obs))
}

fn exec_line(line: &str) -> String {
    let f = fields(line);
    let spec = Spec::parse(&f);
    let alpha: Vec<String> = items(f.get("S").map(|s| s.as_str()).unwrap_or("")).into_iter().map(str_of_hex).collect();
    let len: usize = f.get("L").and_then(|s| s.parse().ok()).unwrap_or(0);
    let extra: Vec<String> = items(f.get("X").map(|s| s.as_str()).unwrap_or("")).into_iter().map(str_of_hex).collect();
    let words = case_words(&alpha, len, &extra);

    let (spec2, words2) = (spec.clone(), words.clone());
    let whole = guarded(move || run_words(&spec2, &words2));
    let result: Result<Outs, NewErr> = match whole {
        Run::Done(r) => r,
        Run::Panicked => Err(NewErr::Panic),
        Run::TimedOut => {
            // locate the words that hang: one guarded run per word
            let mut outs = Vec::new();
            let mut obs = BTreeMap::new();
            for w in &words {
                let (s, w1) = (spec.clone(), vec![w.clone()]);
                match guarded(move || run_words(&s, &w1)) {
                    Run::Done(Ok((o, ob))) => {
                        outs.push(o.into_iter().next().unwrap());
                        obs.extend(ob);
                    }
                    _ => outs.push(None),
                }
            }
            Ok((outs, obs))
        }
    };
    let new_out = result.as_ref().map(|_| ()).map_err(|e| *e);
    let (outs, obs) = result.unwrap_or_default();
    let obs_s: Vec<String> = obs.iter().map(|(id, s)| format!("({},{})", id, coq_str(s))).collect();
    let term = format!(
        "{{| m_opts := {}; m_new := {}; m_alpha := {}; m_len := {}; m_extra := {}; m_out := {}; m_obs := {} |}}",
        spec.coq_opts(),
        coq_new_outcome(&new_out),
        coq_list(&alpha.iter().map(|s| coq_bytes(s.as_bytes())).collect::<Vec<_>>()),
        len,
        coq_list(&extra.iter().map(|s| coq_bytes(s.as_bytes())).collect::<Vec<_>>()),
        coq_unflat(&outs),
        coq_list(&obs_s)
    );
    let tag = f.get("G").cloned().unwrap_or_else(|| "replay".to_string());
    let tag = match new_out {
        Ok(()) => {
            if spec.merges.is_empty() { format!("trivial-nomerge-{}", tag) } else { tag }
        }
        Err(NewErr::InvalidMergeEntry) | Err(NewErr::MissingVocabEntry) => format!("rejected-{}", tag),
        Err(_) => format!("anomaly-{}", tag),
    };
    format!("{}\t{}\t{}", tag, line, term)
}

// ---------------------------------------------------------------------- generation
fn emit(out: &mut impl Write, spec: &Spec, alpha: &[String], len: usize, extra: &[String], tag: &str) {
    let s: Vec<String> = alpha.iter().map(|a| hex_of_str(a)).collect();
    let x: Vec<String> = extra.iter().map(|a| hex_of_str(a)).collect();
    writeln!(out, "{}|S={}|L={}|X={}|G={}", spec.format(), s.join(";"), len, x.join(";"), tag).unwrap();
}

/// All merge tables with exactly `k` entries whose operands are alphabet symbols or results
/// of earlier entries (repeated pairs and repeated results allowed).
fn tables(alpha: &[String], k: usize, prefix: &mut Vec<(String, String)>, f: &mut dyn FnMut(&[(String, String)])) {
    if prefix.len() == k {
        f(prefix);
        return;
    }
    let mut strs: Vec<String> = alpha.to_vec();
    for (a, b) in prefix.iter() {
        let m = format!("{}{}", a, b);
        if !strs.contains(&m) {
            strs.push(m);
        }
    }
    for a in &strs {
        for b in &strs {
            prefix.push((a.clone(), b.clone()));
            tables(alpha, k, prefix, f);
            prefix.pop();
        }
    }
}

/// First occurrences of the symbols in the table's operands are in the order a, b, c.
fn canonical(t: &[(String, String)]) -> bool {
    let mut next = b'a';
    for (a, b) in t {
        for ch in a.bytes().chain(b.bytes()) {
            if ch > next {
                return false;
            }
            if ch == next {
                next += 1;
            }
        }
    }
    true
}

fn random_table(rng: &mut SplitMix64, alpha: &[String], k: usize) -> Vec<(String, String)> {
    let mut strs: Vec<String> = alpha.to_vec();
    let mut t = Vec::new();
    for _ in 0..k {
        let a = rng.pick(&strs);
        let b = rng.pick(&strs);
        let m = format!("{}{}", a, b);
        if !strs.contains(&m) {
            strs.push(m);
        }
        t.push((a, b));
    }
    t
}

fn base_spec(merges: Vec<(String, String)>) -> Spec {
    Spec { merges, vocab: VocabSpec::None, eow: None, ignore: false, added: vec![] }
}

fn generate(seed: u64, n: usize, tier: &str, out: &mut impl Write) {
    let thorough = tier == "thorough";
    let abc: Vec<String> = ["a", "b", "c"].iter().map(|s| s.to_string()).collect();
    let mut rng = SplitMix64(seed);

    // 1. exhaustive tables over {a,b,c}
    // (Coq parses the implementation's answers at roughly a numeral per millisecond, which
    // bounds the volume.)  Tables with <= 2 entries: all of them.  Tables with 3 entries
    // (thorough): all of them up to renaming of the alphabet -- the canonical representative
    // mentions a before b before c; the word set is closed under renaming and bpe_merge uses
    // symbols only through equality, so the other 5/6 are the same runs with other names.
    let (kmax, len) = if thorough { (3usize, 5usize) } else { (2, 4) };
    for k in 0..=kmax {
        let tag = if k == 3 { "exh-m3-canon".to_string() } else { format!("exh-m{}", k) };
        let l = if k == 3 { 4 } else { len };
        tables(&abc, k, &mut Vec::new(), &mut |t| {
            if k < 3 || canonical(t) {
                emit(out, &base_spec(t.to_vec()), &abc, l, &[], &tag)
            }
        });
    }
    // the same small tables with a supplied vocabulary whose ids are scrambled
    for k in 1..=2 {
        let mut i = 0u64;
        tables(&abc, k, &mut Vec::new(), &mut |t| {
            i += 1;
            if thorough || i % 4 == 0 {
                let mut s = base_spec(t.to_vec());
                s.vocab = VocabSpec::Scrambled(seed.wrapping_add(i), if i % 3 == 0 { "h".into() } else { "".into() });
                emit(out, &s, &abc, if thorough { 5 } else { 4 }, &[], &format!("exh-vocab-m{}", k));
            }
        });
    }
    // a pair listed twice with a competitor in between: [p, q, p] -- p takes its LAST rank (2),
    // so q (rank 1) must win wherever both apply
    for a1 in &abc { for b1 in &abc { for a2 in &abc { for b2 in &abc {
        if (a1, b1) != (a2, b2) {
            let t = vec![(a1.clone(), b1.clone()), (a2.clone(), b2.clone()), (a1.clone(), b1.clone())];
            emit(out, &base_spec(t), &abc, 3, &[], "dup-pqp");
        }
    }}}}
    // 2. sampled deeper tables over {a,b,c}
    let nsamp = n / 2;
    for i in 0..nsamp {
        let k = if thorough { 4 } else { 3 + (i % 2) };
        let t = random_table(&mut rng, &abc, k);
        emit(out, &base_spec(t), &abc, 4, &[], &format!("samp-m{}", k));
    }
    // two-symbol alphabet, longer words: long runs of one symbol, deep tables
    let ab: Vec<String> = abc[..2].to_vec();
    for _ in 0..nsamp / 4 + 1 {
        let k = 2 + rng.below(5) as usize;
        let t = random_table(&mut rng, &ab, k);
        emit(out, &base_spec(t), &ab, if thorough { 7 } else { 6 }, &[], "samp-ab-long");
    }

    // 3. random: trained merges over richer alphabets, explicit words
    let pool: Vec<&str> = vec!["a", "b", "c", "x", " ", "é", "日", "😀", "\u{0301}", "\n", "A", "0", "-", "\u{a0}", "ß"];
    for i in 0..n {
        let na = 2 + rng.below(4) as usize;
        let alpha: Vec<String> = (0..na).map(|_| rng.pick(&pool).to_string()).collect();
        let nwords = 6 + rng.below(10) as usize;
        let mut words: Vec<String> = Vec::new();
        for _ in 0..nwords {
            let lmax = if rng.chance(1, 5) { 25 } else { 9 };
            let l = rng.below(lmax) as usize;
            let mut w = String::new();
            for _ in 0..l {
                // runs of a repeated symbol are where overlapping occurrences compete
                let s = rng.pick(&alpha);
                let rep = if rng.chance(1, 4) { 1 + rng.below(4) } else { 1 };
                for _ in 0..rep {
                    w.push_str(&s);
                }
            }
            words.push(w);
        }
        let eow: Option<String> = match rng.below(8) {
            0 => Some("</w>".to_string()),
            1 => Some("#".to_string()),
            2 => Some(String::new()),
            _ => None,
        };
        let k = rng.below(14) as usize;
        let corpus: Vec<Vec<u8>> = words.iter().map(|w| w.as_bytes().to_vec()).collect();
        let mut merges = train_merges(&mut rng, &corpus, k, eow.as_deref().filter(|s| !s.is_empty()));
        let mut tag = String::from("rand");
        // perturbations of the table
        match rng.below(10) {
            0 if merges.len() >= 2 => {
                // repeat an earlier pair later: its rank becomes the later index
                let j = rng.below(merges.len() as u64 - 1) as usize;
                let e = merges[j].clone();
                merges.push(e);
                tag.push_str("-dup");
            }
            1 if merges.len() >= 2 => {
                rng.shuffle(&mut merges);
                tag.push_str("-shuffled");
            }
            2 if !merges.is_empty() => {
                merges.reverse();
                tag.push_str("-reversed");
            }
            _ => {}
        }
        let mut spec = base_spec(merges);
        spec.eow = eow.clone();
        let shuffled_order = tag.contains("shuffled") || tag.contains("reversed");
        match rng.below(6) {
            0 | 1 if !shuffled_order => {}
            _ => {
                let mut mode = String::new();
                if rng.chance(1, 4) { mode.push('h'); }
                if rng.chance(1, 4) { mode.push('t'); }
                if rng.chance(1, 12) { mode.push('d'); }
                if eow.as_deref().map(|s| !s.is_empty()).unwrap_or(false) && rng.chance(1, 3) { mode.push('k'); }
                spec.vocab = VocabSpec::Scrambled(seed.wrapping_mul(31).wrapping_add(i as u64), mode.clone());
                tag.push_str("-vocab");
                if mode.contains('k') { tag.push_str("-eowfree"); }
                if mode.contains('d') { tag.push_str("-drop"); }
            }
        }
        if eow.as_deref().map(|s| !s.is_empty()).unwrap_or(false) { tag.push_str("-eow"); }
        emit(out, &spec, &alpha, if na <= 3 { 3 } else { 2 }, &words, &tag);
    }

    // 4. malformed tables: operands or results that the vocabulary does not contain
    for _ in 0..(n / 10 + 6) {
        let kk = 1 + rng.below(3) as usize;
        let mut t = random_table(&mut rng, &abc, kk);
        let bad = match rng.below(4) {
            0 => ("ab".to_string(), "c".to_string()),
            1 => ("".to_string(), "a".to_string()),
            2 => ("a".to_string(), "".to_string()),
            _ => ("zz".to_string(), "a".to_string()),
        };
        let pos = rng.below(t.len() as u64 + 1) as usize;
        t.insert(pos, bad);
        emit(out, &base_spec(t), &abc, 3, &[], "malformed");
    }
}

fn main() {
    quiet_panics();
    let args: Vec<String> = std::env::args().collect();
    let stdout = std::io::stdout();
    let mut out = std::io::BufWriter::new(stdout.lock());
    match args.get(1).map(|s| s.as_str()) {
        Some("gen") => {
            let seed: u64 = args[2].parse().unwrap();
            let n: usize = args[3].parse().unwrap();
            generate(seed, n, &args[4], &mut out);
        }
        Some("exec") => {
            for line in std::io::stdin().lock().lines() {
                let line = line.unwrap();
                if line.trim().is_empty() {
                    continue;
                }
                writeln!(out, "{}", exec_line(&line)).unwrap();
            }
        }
        _ => {
            eprintln!("usage: c28 gen <seed> <n> <tier> | c28 exec");
            std::process::exit(2);
        }
    }
}
