//! C27 correspondence: byte-level BPE round trip and token offsets through the public API
//! (`Tokenizer::{new, with_pre_tokenizer, with_normalizer, encode, decode}`,
//! `Encoded::{token_ids, token_offsets, text_for_token_range}`, `models::char_to_byte`).
//!
//!   c27 gen <seed> <n> <tier>    print input lines
//!   c27 exec                     read input lines, print `tag \t input \t coq-case`
//!
//! Input line: `TABLE`, or a tokenizer spec (see lib.rs) plus
//!   P= pre-tokenizer kind   N= normalizer kind   T= texts   D= id lists to decode (ids `,`-separated)
use rten_text::normalizers::{self, Normalizer};
use rten_text::pre_tokenizers::{self, PreTokenizer, SplitDelimiterBehavior, SplitOptions};
use rten_text::tokenizer::TokenizerError;
use rten_text::models::DecodeError;
use rten_text::Tokenizer;
use std::io::{BufRead, Write};
use vh_bpe::*;

fn split(pattern: &str, invert: bool, delimiter: SplitDelimiterBehavior) -> Box<dyn PreTokenizer> {
    Box::new(pre_tokenizers::Split::new(SplitOptions { pattern, invert, delimiter }).expect("pattern"))
}

const LLAMA3: &str = r"(?i:'s|'t|'re|'ve|'m|'ll|'d)|[^\r\n\p{L}\p{N}]?\p{L}+|\p{N}{1,3}| ?[^\s\p{L}\p{N}]+[\r\n]*|\s*[\r\n]+|\s+(?!\S)|\s+";

/// Patterns that can match the empty string (at the start, between characters, at the end).
/// Used by the `re:<index>:<i|n>:<I|R>` configurations (invert / not, Isolate / Remove).
const EMPTY_MATCHING: &[&str] = &[r"\d*", r"\s*", r",?", r"(?=[A-Z])", r"x*", r"$", r"\b", r"(?=\d)"];
/// Those of them that only ever match the empty string.
const ZERO_WIDTH_ONLY: &[usize] = &[3, 5, 6, 7];

fn parse_re_kind(kind: &str) -> Option<(usize, bool, SplitDelimiterBehavior)> {
    let rest = kind.strip_prefix("re:")?;
    let mut it = rest.split(':');
    let idx: usize = it.next()?.parse().ok()?;
    let invert = it.next()? == "i";
    let delim = if it.next()? == "I" { SplitDelimiterBehavior::Isolate } else { SplitDelimiterBehavior::Remove };
    Some((idx, invert, delim))
}

fn make_pretok(kind: &str) -> Option<Box<dyn PreTokenizer>> {
    use SplitDelimiterBehavior::*;
    if let Some((idx, invert, delim)) = parse_re_kind(kind) {
        return Some(split(EMPTY_MATCHING[idx], invert, delim));
    }
    Some(match kind {
        "none" => return None,
        "gpt2" => Box::new(pre_tokenizers::Split::gpt2()),
        "llama3" => split(LLAMA3, true, Isolate),
        "bert" => Box::new(pre_tokenizers::Bert::new()),
        "digits" => Box::new(pre_tokenizers::Digits::new(false)),
        "digits1" => Box::new(pre_tokenizers::Digits::new(true)),
        "ws-iso" => split(r"\s+", false, Isolate),
        "ws-rem" => split(r"\s+", false, Remove),
        "word-iso" => split(r"\w+", true, Isolate),
        "word-rem" => split(r"\w+", true, Remove),
        "char" => split(r"(?s).", true, Isolate),
        "noop" => split(r".*", true, Remove),
        "seq" => Box::new(pre_tokenizers::Sequence::from_vec(vec![
            Box::new(pre_tokenizers::Digits::new(true)),
            Box::new(pre_tokenizers::Split::gpt2()),
        ])),
        _ => panic!("unknown pre-tokenizer kind {}", kind),
    })
}

/// Pre-tokenizer configurations that are meant to partition their input: every byte of the
/// (normalized) text must end up in exactly one chunk.  The others remove delimiters by design.
fn split_expected(kind: &str) -> bool {
    if let Some((idx, invert, delim)) = parse_re_kind(kind) {
        // Isolate keeps matches and the text between them.  Remove keeps everything only when
        // it removes the (always empty) matches of a zero-width pattern in non-inverted mode.
        return delim == SplitDelimiterBehavior::Isolate || (!invert && ZERO_WIDTH_ONLY.contains(&idx));
    }
    !matches!(kind, "ws-rem" | "word-rem" | "noop")
}

fn make_norm(kind: &str) -> Option<Box<dyn Normalizer>> {
    use normalizers::{Bert, BertOptions, Replace, Sequence, Unicode};
    Some(match kind {
        "-" | "" => return None,
        "lower" => Box::new(Bert::new(BertOptions { lowercase: true, strip_accents: false })),
        "bert" => Box::new(Bert::new(BertOptions { lowercase: true, strip_accents: true })),
        "bertnoop" => Box::new(Bert::new(BertOptions { lowercase: false, strip_accents: false })),
        "nfc" => Box::new(Unicode::Nfc),
        "nfd" => Box::new(Unicode::Nfd),
        "nfkc" => Box::new(Unicode::Nfkc),
        "nfkd" => Box::new(Unicode::Nfkd),
        "repl" => Box::new(Replace::new(" ", "\u{2581}".to_string()).expect("replace")),
        "repl-short" => Box::new(Replace::new("\u{e9}", "e".to_string()).expect("replace")),
        "seq" => Box::new(Sequence::from_vec(vec![
            Box::new(Unicode::Nfd),
            Box::new(Bert::new(BertOptions { lowercase: true, strip_accents: false })),
        ])),
        _ => panic!("unknown normalizer kind {}", kind),
    })
}

fn coq_dec(r: &Result<Result<String, TokenizerError>, ()>) -> String {
    match r {
        Err(()) => "DecPanic".to_string(),
        Ok(Ok(s)) => format!("(DecOk {})", coq_bytes(s.as_bytes())),
        Ok(Err(TokenizerError::DecodeError(DecodeError::InvalidUtf8))) => "DecInvalidUtf8".to_string(),
        Ok(Err(TokenizerError::DecodeError(DecodeError::InvalidTokenId(id)))) => format!("(DecInvalidId {})", id),
        // not a decode outcome: make the case disagree
        Ok(Err(_)) => "(DecInvalidId 4294967296)".to_string(),
    }
}

fn decode_guard(tk: &Tokenizer, ids: &[u32]) -> Result<Result<String, TokenizerError>, ()> {
    std::panic::catch_unwind(std::panic::AssertUnwindSafe(|| tk.decode(ids))).map_err(|_| ())
}

struct CaseOut {
    new_out: Result<(), NewErr>,
    runs: Vec<String>,
    decs: Vec<String>,
    lossy: bool,
    normalized: bool,
}

fn run_case(spec: &Spec, pkind: &str, nkind: &str, texts: &[String], decs: &[Vec<u32>]) -> CaseOut {
    let mut out = CaseOut { new_out: Ok(()), runs: vec![], decs: vec![], lossy: false, normalized: false };
    let mut tk = match build_tokenizer(spec) {
        Ok(t) => t,
        Err(e) => {
            out.new_out = Err(e);
            return out;
        }
    };
    if let Some(pt) = make_pretok(pkind) {
        tk = tk.with_pre_tokenizer(pt);
    }
    if let Some(nm) = make_norm(nkind) {
        tk = tk.with_normalizer(nm);
    }
    let oracle_pt = make_pretok(pkind);
    let oracle_nm = make_norm(nkind);
    for text in texts {
        // oracles: what the normalizer and the pre-tokenizer answer for this text
        let (normalized, norm_term) = match &oracle_nm {
            None => (text.clone(), "None".to_string()),
            Some(nm) => match nm.normalize(text) {
                Ok((n, map)) => {
                    let t = format!("Some ({},{})", coq_bytes(n.as_bytes()), coq_usizes(&map));
                    (n, t)
                }
                Err(_) => (text.clone(), "None".to_string()),
            },
        };
        if normalized != *text {
            out.normalized = true;
        }
        let pieces: Vec<(usize, &str)> = match &oracle_pt {
            None => vec![(0, normalized.as_str())],
            Some(pt) => match pt.pre_tokenize(&normalized) {
                Ok(chunks) => chunks
                    .into_iter()
                    .map(|c| (c.as_ptr() as usize - normalized.as_ptr() as usize, c))
                    .collect(),
                Err(_) => vec![],
            },
        };
        let covered: usize = pieces.iter().map(|p| p.1.len()).sum();
        if covered != normalized.len() {
            out.lossy = true;
        }
        let pieces_term = coq_list(
            &pieces.iter().map(|(o, c)| format!("({},{})", o, coq_bytes(c.as_bytes()))).collect::<Vec<_>>(),
        );
        let enc = std::panic::catch_unwind(std::panic::AssertUnwindSafe(|| {
            tk.encode(text.as_str(), None).map(|e| {
                let ids = e.token_ids().to_vec();
                let offs = e.token_offsets().to_vec();
                let slices: Vec<Option<Vec<u8>>> = (0..ids.len())
                    .map(|i| e.text_for_token_range(i..i + 1).map(|s| s.as_bytes().to_vec()))
                    .collect();
                (ids, offs, slices)
            })
        }));
        let (enc_term, dec_term) = match enc {
            Err(_) => ("EncPanic".to_string(), "DecPanic".to_string()),
            Ok(Err(_)) => ("EncErr".to_string(), "DecPanic".to_string()),
            Ok(Ok((ids, offs, slices))) => {
                let d = decode_guard(&tk, &ids);
                (format!("(EncOk {} {} {})", coq_ids(&ids), coq_usizes(&offs), coq_unflat(&slices)), coq_dec(&d))
            }
        };
        out.runs.push(format!(
            "{{| r_text := {}; r_norm := {}; r_pieces := {}; r_enc := {}; r_dec := {} |}}",
            coq_bytes(text.as_bytes()), norm_term, pieces_term, enc_term, dec_term
        ));
    }
    for ids in decs {
        let d = decode_guard(&tk, ids);
        out.decs.push(format!("({},{})", coq_ids(ids), coq_dec(&d)));
    }
    out
}

fn exec_line(line: &str) -> String {
    if line.trim() == "TABLE" {
        let t: Vec<String> = impl_char_to_byte_sorted().iter().map(|(c, b)| format!("({},{})", c, b)).collect();
        return format!("table\t{}\tCTable {}", line, coq_list(&t));
    }
    let f = fields(line);
    let spec = Spec::parse(&f);
    let pkind = f.get("P").cloned().unwrap_or_else(|| "none".to_string());
    let nkind = f.get("N").cloned().unwrap_or_else(|| "-".to_string());
    let texts: Vec<String> = items(f.get("T").map(|s| s.as_str()).unwrap_or("")).into_iter().map(str_of_hex).collect();
    let decs: Vec<Vec<u32>> = items(f.get("D").map(|s| s.as_str()).unwrap_or(""))
        .into_iter()
        .map(|l| if l == "-" { vec![] } else { l.split(',').map(|x| x.parse().expect("id")).collect() })
        .collect();
    let (s2, p2, n2, t2, d2) = (spec.clone(), pkind.clone(), nkind.clone(), texts.clone(), decs.clone());
    let r = match guarded(move || run_case(&s2, &p2, &n2, &t2, &d2)) {
        Run::Done(r) => r,
        Run::Panicked => CaseOut { new_out: Err(NewErr::Panic), runs: vec![], decs: vec![], lossy: false, normalized: false },
        Run::TimedOut => CaseOut { new_out: Err(NewErr::Other), runs: vec![], decs: vec![], lossy: false, normalized: false },
    };
    let term = format!(
        "CTok {} ({}) {} {} {}",
        spec.coq_opts(), coq_new_outcome(&r.new_out), split_expected(&pkind), coq_list(&r.runs), coq_list(&r.decs)
    );
    let base = f.get("G").cloned().unwrap_or_else(|| "replay".to_string());
    let tag = match r.new_out {
        Ok(()) => {
            if r.lossy && split_expected(&pkind) { format!("dropped-text-{}", base) }
            else if r.lossy { format!("trivial-lossy-pretok-{}", base) }
            else if r.normalized { format!("normalized-{}", base) }
            else { base }
        }
        Err(NewErr::InvalidMergeEntry) | Err(NewErr::MissingVocabEntry) => format!("trivial-rejected-{}", base),
        Err(_) => format!("anomaly-{}", base),
    };
    format!("{}\t{}\t{}", tag, line, term)
}

// ---------------------------------------------------------------------- generation
fn gen_text(rng: &mut SplitMix64) -> String {
    let words = ["the", "cat", "Hello", "world", "is", "in", "bed", "don't", "I'll", "we've", "x", "aaa", "aaaa", "ab", "abab",
                 "na\u{ef}ve", "caf\u{e9}", "\u{130}stanbul", "\u{65e5}\u{672c}\u{8a9e}", "\u{41f}\u{440}\u{438}", "\u{5e9}\u{5dc}\u{5d5}\u{5dd}",
                 "<|endoftext|>", "<pad>", "123", "2024", "3.14", "e\u{301}", "o\u{308}\u{304}", "\u{1f600}", "\u{1f468}\u{200d}\u{1f469}",
                 "\u{10000}", "\u{10ffff}", "\u{d7ff}", "\u{e000}", "\u{fffd}", "\u{feff}", "\u{fb01}", "\u{212b}", "\u{1e9e}", "\u{df}"];
    let seps = [" ", " ", " ", "  ", "   ", "\n", "\t", "\r\n", "\u{a0}", "\u{85}", "\u{2028}", "\u{3000}", "", "-", ".", ", ", "!?", "\u{0}", "\u{7f}", "\u{1b}", "\u{ad}", "\u{200b}"];
    let n = match rng.below(10) { 0 => 0, 1 => 1, _ => 1 + rng.below(7) };
    let mut s = String::new();
    if rng.chance(1, 5) {
        s.push_str(rng.pick(&seps[..]));
    }
    for i in 0..n {
        if i > 0 {
            s.push_str(rng.pick(&seps[..]));
        }
        if rng.chance(1, 8) {
            // a random scalar value
            let c = loop {
                let v = match rng.below(4) { 0 => rng.below(0x80), 1 => rng.below(0x800), 2 => rng.below(0x10000), _ => rng.below(0x110000) } as u32;
                if let Some(c) = char::from_u32(v) { break c; }
            };
            s.push(c);
        } else {
            s.push_str(rng.pick(&words[..]));
        }
    }
    if rng.chance(1, 6) {
        s.push_str(rng.pick(&seps[..]));
    }
    s
}

fn pieces_for_training(kind: &str, text: &str) -> Vec<Vec<u8>> {
    match make_pretok(kind) {
        None => vec![text.as_bytes().to_vec()],
        Some(pt) => pt.pre_tokenize(text).map(|v| v.into_iter().map(|c| c.as_bytes().to_vec()).collect()).unwrap_or_default(),
    }
}

/// At least one ASCII (where it exists) and one non-ASCII representative of every Unicode
/// general category that a Rust string can contain (Cs cannot occur), plus unassigned /
/// noncharacter code points next to assigned blocks.
const CATEGORY_REPS: &[(&str, &[char])] = &[
    ("Lu", &['A', '\u{c9}', '\u{3a9}', '\u{1e9e}']),
    ("Ll", &['a', '\u{e9}', '\u{3c9}', '\u{df}']),
    ("Lt", &['\u{1c5}', '\u{1f88}']),
    ("Lm", &['\u{2b0}', '\u{30fc}', '\u{2c6}']),
    ("Lo", &['\u{aa}', '\u{65e5}', '\u{5d0}', '\u{1bb}']),
    ("Mn", &['\u{301}', '\u{5b0}', '\u{20d0}']),
    ("Mc", &['\u{903}', '\u{93e}']),
    ("Me", &['\u{20dd}', '\u{488}']),
    ("Nd", &['7', '\u{663}', '\u{ff19}', '\u{1d7d8}']),
    ("Nl", &['\u{2167}', '\u{16ee}', '\u{3007}']),
    ("No", &['\u{b2}', '\u{bd}', '\u{2460}', '\u{3251}', '\u{b9}']),
    ("Pc", &['_', '\u{203f}']),
    ("Pd", &['-', '\u{2013}', '\u{30a0}']),
    ("Ps", &['(', '\u{27e8}', '\u{300c}']),
    ("Pe", &[')', '\u{27e9}', '\u{300d}']),
    ("Pi", &['\u{ab}', '\u{2018}']),
    ("Pf", &['\u{bb}', '\u{2019}']),
    ("Po", &['!', '\'', '\u{a1}', '\u{3002}']),
    ("Sm", &['+', '\u{b1}', '\u{2211}']),
    ("Sc", &['$', '\u{a3}', '\u{20ac}']),
    ("Sk", &['^', '\u{a8}', '\u{2c2}']),
    ("So", &['\u{a9}', '\u{2603}', '\u{1f600}']),
    ("Zs", &[' ', '\u{a0}', '\u{2003}', '\u{3000}']),
    ("Zl", &['\u{2028}']),
    ("Zp", &['\u{2029}']),
    ("Cc", &['\t', '\n', '\u{0}', '\u{85}', '\u{9f}']),
    ("Cf", &['\u{ad}', '\u{200b}', '\u{200d}', '\u{feff}', '\u{e0001}']),
    ("Co", &['\u{e000}', '\u{f8ff}', '\u{100000}']),
    ("Cn", &['\u{378}', '\u{ffff}', '\u{10ffff}', '\u{2fe0}']),
];

/// Every representative alone, doubled, and embedded between letters, spaces and digits.
fn category_sweep_texts() -> Vec<String> {
    let mut v = Vec::new();
    for (_, reps) in CATEGORY_REPS {
        for &c in reps.iter() {
            v.push(format!("{}", c));
            v.push(format!("{}{}", c, c));
            v.push(format!("x{}y", c));
            v.push(format!(" {} ", c));
            v.push(format!("1{}2", c));
            v.push(format!("a {}{} 3", c, c));
        }
    }
    v
}

const SWEEP_CHUNK: usize = 56;

/// The category sweep: for every pre-tokenizer configuration that is meant to split, the sweep
/// texts in chunks of SWEEP_CHUNK per case; default vocabulary, no or a few trained merges.
/// Both tiers run every chunk for every configuration (the cases are cheap: no vocabulary literal).
fn generate_sweep(rng: &mut SplitMix64, out: &mut impl Write) {
    let texts = category_sweep_texts();
    let chunks: Vec<&[String]> = texts.chunks(SWEEP_CHUNK).collect();
    let kinds = ["gpt2", "llama3", "seq", "bert", "digits", "digits1", "ws-iso", "word-iso", "char", "none"];
    for kind in kinds.iter() {
        for (ci, chunk) in chunks.iter().enumerate() {
            let merges = if ci % 2 == 1 {
                let mut corpus: Vec<Vec<u8>> = Vec::new();
                for t in chunk.iter() {
                    corpus.extend(pieces_for_training(kind, t));
                }
                train_merges(rng, &corpus, 8, None)
            } else {
                vec![]
            };
            let spec = Spec { merges, vocab: VocabSpec::None, eow: None, ignore: false, added: vec![] };
            let t: Vec<String> = chunk.iter().map(|s| hex_of_str(s)).collect();
            writeln!(out, "{}|P={}|N=-|T={}|D=|G=catsweep-{}", spec.format(), kind, t.join(";"), kind).unwrap();
        }
    }
}

/// `Split` with patterns that can match the empty string x invert x {Isolate, Remove} (the two
/// behaviours rten-text has), over texts in which the pattern matches empty at the start, between
/// every pair of characters and at the end, next to non-empty matches.
fn generate_empty_matching(rng: &mut SplitMix64, out: &mut impl Write) {
    let texts = ["ab1", "a1b22c", "1", "", "ab", " a b ", "a,b,,c", "HelloWorldX", "xxaxbxx", "x", "12", "\u{e9}1\u{fc}",
                 "A", "aB", "1a", "a1", "a b\t\n c", ",", "\u{1f600}1\u{1f600}", "ABC", "  ", "a\u{301}1,X x"];
    for idx in 0..EMPTY_MATCHING.len() {
        for inv in ["i", "n"] {
            for delim in ["I", "R"] {
                let kind = format!("re:{}:{}:{}", idx, inv, delim);
                let merges = if (idx + inv.len()) % 2 == 0 {
                    let mut corpus: Vec<Vec<u8>> = Vec::new();
                    for t in texts.iter() {
                        corpus.extend(pieces_for_training(&kind, t));
                    }
                    train_merges(rng, &corpus, 6, None)
                } else {
                    vec![]
                };
                let spec = Spec { merges, vocab: VocabSpec::None, eow: None, ignore: false, added: vec![] };
                let t: Vec<String> = texts.iter().map(|s| hex_of_str(s)).collect();
                writeln!(out, "{}|P={}|N=-|T={}|D=|G=emptymatch-{}{}", spec.format(), kind, t.join(";"), inv, delim).unwrap();
            }
        }
    }
}

fn generate(seed: u64, n: usize, tier: &str, out: &mut impl Write) {
    writeln!(out, "TABLE").unwrap();
    let mut rng = SplitMix64(seed ^ 0xc27);
    let _ = tier;
    generate_sweep(&mut rng, out);
    generate_empty_matching(&mut rng, out);
    let pkinds = ["gpt2", "gpt2", "gpt2", "none", "llama3", "bert", "digits", "digits1", "ws-iso", "word-iso", "char", "noop", "seq", "ws-rem", "word-rem"];
    let nkinds = ["-", "-", "-", "-", "-", "-", "-", "-", "-", "bertnoop", "nfc", "nfd", "nfkc", "nfkd", "lower", "bert", "repl", "repl-short", "seq"];
    for i in 0..n {
        let pkind = rng.pick(&pkinds[..]);
        let nkind = rng.pick(&nkinds[..]);
        let ntexts = 4 + rng.below(7) as usize;
        let mut texts: Vec<String> = (0..ntexts).map(|_| gen_text(&mut rng)).collect();
        if i % 7 == 0 {
            texts.push(String::new());
        }
        let eow: Option<String> = match rng.below(16) { 0 => Some("</w>".to_string()), 1 => Some(String::new()), _ => None };
        let mut corpus: Vec<Vec<u8>> = Vec::new();
        for t in &texts {
            corpus.extend(pieces_for_training(pkind, t));
        }
        let kmax = [0u64, 3, 10, 30, 60][rng.below(5) as usize];
        let k = rng.below(kmax + 1) as usize;
        let mut merges = train_merges(&mut rng, &corpus, k, eow.as_deref().filter(|s| !s.is_empty()));
        let mut tag = format!("{}", pkind);
        if nkind != "-" { tag.push_str("-norm"); }
        if merges.len() >= 2 && rng.chance(1, 10) {
            let j = rng.below(merges.len() as u64 - 1) as usize;
            let e = merges[j].clone();
            merges.push(e);
        }
        let mut spec = Spec { merges, vocab: VocabSpec::None, eow: eow.clone(), ignore: rng.chance(1, 5), added: vec![] };
        if rng.chance(3, 5) {
            let mut mode = String::new();
            if rng.chance(1, 4) { mode.push('h'); }
            if rng.chance(1, 3) { mode.push('t'); }
            if rng.chance(1, 25) { mode.push('d'); }
            spec.vocab = VocabSpec::Scrambled(seed.wrapping_mul(131).wrapping_add(i as u64), mode);
            tag.push_str("-vocab");
        }
        if spec.ignore { tag.push_str("-ignore"); }
        if eow.as_deref().map(|s| !s.is_empty()).unwrap_or(false) { tag.push_str("-eow"); }
        // added tokens: ids outside the vocabulary, or the id of an existing entry with the same
        // content, or (rarely) a colliding id with different content
        let vocab_ids: Vec<(String, u32)> = spec.explicit_vocab().unwrap_or_else(|| {
            // default vocabulary: printable ASCII bytes keep rank order; only used to pick ids
            vec![("a".to_string(), 64)]
        });
        let mut added: Vec<(u32, String)> = Vec::new();
        match rng.below(6) {
            0 => {}
            1 | 2 => added.push((50256, "<|endoftext|>".to_string())),
            3 => {
                added.push((4_000_000_000, "<pad>".to_string()));
                added.push((50257, "<|im start|>\u{e9}".to_string()));
            }
            4 => {
                // same id and same content as a vocabulary entry made of printable ASCII
                if let Some((s, id)) = vocab_ids.iter().find(|(s, _)| s.chars().all(|c| ('!'..='~').contains(&c))) {
                    added.push((*id, s.clone()));
                    tag.push_str("-added-same");
                }
            }
            _ => {
                if let Some((_, id)) = vocab_ids.first() {
                    added.push((*id, "<clash>".to_string()));
                    tag.push_str("-added-clash");
                }
            }
        }
        spec.added = added.clone();
        // decode probes
        let hi = 256 + spec.merges.len() as u32 + 4;
        let mut decs: Vec<Vec<u32>> = vec![vec![]];
        for _ in 0..5 {
            let l = rng.below(6) as usize;
            let mut ids: Vec<u32> = Vec::new();
            for _ in 0..l {
                let id = match rng.below(8) {
                    0 => rng.below(0x1_0000_0000) as u32,
                    1 if !added.is_empty() => rng.pick(&added).0,
                    2 | 3 if !vocab_ids.is_empty() => rng.pick(&vocab_ids).1,
                    _ => rng.below(hi as u64) as u32,
                };
                ids.push(id);
            }
            decs.push(ids);
        }
        let t: Vec<String> = texts.iter().map(|s| hex_of_str(s)).collect();
        let d: Vec<String> = decs
            .iter()
            .map(|l| if l.is_empty() { "-".to_string() } else { l.iter().map(|x| x.to_string()).collect::<Vec<_>>().join(",") })
            .collect();
        writeln!(out, "{}|P={}|N={}|T={}|D={}|G={}", spec.format(), pkind, nkind, t.join(";"), d.join(";"), tag).unwrap();
    }
}

fn main() {
    quiet_panics();
    let args: Vec<String> = std::env::args().collect();
    let stdout = std::io::stdout();
    let mut out = std::io::BufWriter::new(stdout.lock());
    match args.get(1).map(|s| s.as_str()) {
        Some("gen") => {
            let seed: u64 = args[2].parse().unwrap();
            let n: usize = args[3].parse().unwrap();
            generate(seed, n, &args[4], &mut out);
        }
        Some("exec") => {
            for line in std::io::stdin().lock().lines() {
                let line = line.unwrap();
                if line.trim().is_empty() {
                    continue;
                }
                writeln!(out, "{}", exec_line(&line)).unwrap();
            }
        }
        _ => {
            eprintln!("usage: c27 gen <seed> <n> <tier> | c27 exec");
            std::process::exit(2);
        }
    }
}
