//! C31 correspondence: rten_generate::filter::{TopK, TopP, Temperature, Sort, token_id_filter, Chain}
//! reached through `LogitsFilter::filter`.
//!
//!   c31 gen <seed> <n> <tier>     print input lines `ctor|ids|bits|chain`
//!   c31 exec                      read input lines, print `tag \t input \t coq-case`
//!
//! ctor: `d` = Logits::dense(bits) (ids ignored), `s` = Logits::sparse(bits, ids).
//! chain: filter specs joined by `>`:
//!   K<k> TopK::new(k) | k<k> Chain::top_k(k)
//!   P<pbits>:t|f|d  TopP::new(p).normalize(true|false) / TopP::new(p) | p<pbits> Chain::top_p(p)
//!   T<tbits> Temperature::new(t) | t<tbits> Chain::temperature(t)
//!   Ie | Ig<c> | Il<c>   token_id_filter(id even | id > c | id < c)
//!   S Sort::new()
//!   N(<spec>+<spec>..)   nested Chain
//! All f32 values are u32 bit patterns in decimal.
use rten_generate::Logits;
use rten_generate::filter::{Chain, LogitsFilter, Sort, Temperature, TopK, TopP, token_id_filter};
use rten_simd::SimdOp;
use rten_vecmath::Softmax;
use std::io::{BufRead, Write};
use std::panic::AssertUnwindSafe;
use vh_filters::*;

#[derive(Clone, Debug)]
enum Pred {
    Even,
    Gt(u32),
    Lt(u32),
}

#[derive(Clone, Debug)]
enum Spec {
    TopK(usize, bool),
    TopP(u32, char, bool),
    Temp(u32, bool),
    IdF(Pred),
    Sort,
    Nested(Vec<Spec>),
}

struct Boxed(Box<dyn LogitsFilter>);
impl LogitsFilter for Boxed {
    fn filter(&self, logits: Logits, prev: &[u32]) -> Logits {
        self.0.filter(logits, prev)
    }
}

fn parse_spec(s: &str) -> Spec {
    let (h, rest) = s.split_at(1);
    match h {
        "K" => Spec::TopK(rest.parse().unwrap(), false),
        "k" => Spec::TopK(rest.parse().unwrap(), true),
        "P" => {
            let (b, m) = rest.split_once(':').unwrap();
            Spec::TopP(b.parse().unwrap(), m.chars().next().unwrap(), false)
        }
        "p" => Spec::TopP(rest.parse().unwrap(), 'd', true),
        "T" => Spec::Temp(rest.parse().unwrap(), false),
        "t" => Spec::Temp(rest.parse().unwrap(), true),
        "I" => {
            let (k, c) = rest.split_at(1);
            match k {
                "e" => Spec::IdF(Pred::Even),
                "g" => Spec::IdF(Pred::Gt(c.parse().unwrap())),
                "l" => Spec::IdF(Pred::Lt(c.parse().unwrap())),
                _ => panic!("bad pred {s}"),
            }
        }
        "S" => Spec::Sort,
        "N" => {
            let inner = rest.trim_start_matches('(').trim_end_matches(')');
            if inner.is_empty() {
                Spec::Nested(vec![])
            } else {
                Spec::Nested(inner.split('+').map(parse_spec).collect())
            }
        }
        _ => panic!("bad spec {s}"),
    }
}

fn parse_chain(s: &str) -> Vec<Spec> {
    if s.trim().is_empty() {
        return vec![];
    }
    s.split('>').map(parse_spec).collect()
}

fn pred_fn(p: &Pred) -> Box<dyn Fn(u32) -> bool> {
    match p.clone() {
        Pred::Even => Box::new(|id| id % 2 == 0),
        Pred::Gt(c) => Box::new(move |id| id > c),
        Pred::Lt(c) => Box::new(move |id| id < c),
    }
}

/// Build the standalone filter object for one spec.
fn build(spec: &Spec) -> Box<dyn LogitsFilter> {
    match spec {
        Spec::TopK(k, _) => Box::new(TopK::new(*k)),
        Spec::TopP(p, m, _) => {
            let f = TopP::new(f32::from_bits(*p));
            Box::new(match m {
                't' => f.normalize(true),
                'f' => f.normalize(false),
                _ => f,
            })
        }
        Spec::Temp(t, _) => Box::new(Temperature::new(f32::from_bits(*t))),
        Spec::IdF(p) => Box::new(token_id_filter(pred_fn(p))),
        Spec::Sort => Box::new(Sort::new()),
        Spec::Nested(inner) => Box::new(build_chain(inner)),
    }
}

/// Build a `Chain`, using the builder methods where the spec asks for them.
fn build_chain(specs: &[Spec]) -> Chain {
    let mut c = Chain::new();
    for s in specs {
        c = match s {
            Spec::TopK(k, true) => c.top_k(*k),
            Spec::TopP(p, _, true) => c.top_p(f32::from_bits(*p)),
            Spec::Temp(t, true) => c.temperature(f32::from_bits(*t)),
            other => c.append(Boxed(build(other))),
        };
    }
    c
}

fn flatten(specs: &[Spec], out: &mut Vec<Spec>) {
    for s in specs {
        match s {
            Spec::Nested(inner) => flatten(inner, out),
            other => out.push(other.clone()),
        }
    }
}

fn coq_spec(s: &Spec) -> String {
    match s {
        Spec::TopK(k, _) => format!("FTopK {}", k),
        Spec::TopP(p, m, _) => format!(
            "FTopP {} {}",
            p,
            match m { 't' => "NormTrue", 'f' => "NormFalse", _ => "NormDefault" }
        ),
        Spec::Temp(t, _) => format!("FTemp {}", t),
        Spec::IdF(Pred::Even) => "FIdF PEven".to_string(),
        Spec::IdF(Pred::Gt(c)) => format!("FIdF (PGt {})", c),
        Spec::IdF(Pred::Lt(c)) => format!("FIdF (PLt {})", c),
        Spec::Sort => "FSort".to_string(),
        Spec::Nested(inner) => format!("FChain {}", coq_specs(inner)),
    }
}

fn coq_specs(specs: &[Spec]) -> String {
    let v: Vec<String> = specs.iter().map(coq_spec).collect();
    format!("[{}]", v.join(";"))
}

fn coq_outcome(o: &Option<Logits>) -> String {
    match o {
        Some(l) => format!("Ok {}", coq_logits(l)),
        None => "Panic".to_string(),
    }
}

fn tag_spec(s: &Spec) -> String {
    match s {
        Spec::TopK(..) => "K".into(),
        Spec::TopP(_, m, _) => format!("P{}", m),
        Spec::Temp(..) => "T".into(),
        Spec::IdF(_) => "I".into(),
        Spec::Sort => "S".into(),
        Spec::Nested(inner) => format!("N({})", inner.iter().map(tag_spec).collect::<Vec<_>>().join("")),
    }
}

fn exec_line(line: &str) -> String {
    let parts: Vec<&str> = line.split('|').collect();
    assert!(parts.len() == 4, "bad input line {line}");
    let dense = parts[0] == "d";
    let bits = parse_u32s(parts[2]);
    let ids: Vec<u32> = if dense { (0..bits.len() as u32).collect() } else { parse_u32s(parts[1]) };
    let specs = parse_chain(parts[3]);

    // whole chain through `Chain`
    let input = make_logits(dense, &ids, &bits);
    let chain_out = {
        let specs = specs.clone();
        let input = input.clone();
        no_panic(AssertUnwindSafe(move || build_chain(&specs).filter(input, &[])))
    };

    // one filter at a time (flattened), recording the softmax oracle at every top-P step
    let mut flat = vec![];
    flatten(&specs, &mut flat);
    let mut cur = Some(input.clone());
    let mut steps: Vec<Option<Logits>> = vec![];
    let mut tbl: Vec<String> = vec![];
    for s in &flat {
        let Some(c) = cur.clone() else { break };
        if let Spec::TopP(..) = s {
            let mut v = c.logits().to_vec();
            let key = bits_of(&v);
            let r = no_panic(AssertUnwindSafe(|| {
                Softmax::new_mut(&mut v).dispatch();
            }));
            if r.is_some() {
                tbl.push(format!("({},{})", coq_list_u32(&key), coq_list_u32(&bits_of(&v))));
            }
        }
        let f = s.clone();
        let next = no_panic(AssertUnwindSafe(move || build(&f).filter(c, &[])));
        steps.push(next.clone());
        cur = next;
    }

    let has_nan = bits.iter().any(|b| is_nan_bits(*b));
    let kgt = flat.iter().any(|s| matches!(s, Spec::TopK(k, _) if *k > bits.len()));
    let tag = if bits.is_empty() {
        "trivial-empty".to_string()
    } else if specs.is_empty() {
        "trivial-nochain".to_string()
    } else {
        format!(
            "{}{}{}{}",
            specs.iter().map(tag_spec).collect::<Vec<_>>().join(""),
            if dense { "" } else { "-sp" },
            if has_nan { "-nan" } else { "" },
            if kgt { "-kgt" } else { "" }
        )
    };
    let term = format!(
        "{{| c_in := {}; c_chain := {}; c_tbl := [{}]; c_steps := [{}]; c_out := {} |}}",
        coq_pairs(&ids, &bits),
        coq_specs(&specs),
        tbl.join(";"),
        steps.iter().map(coq_outcome).collect::<Vec<_>>().join(";"),
        coq_outcome(&chain_out)
    );
    format!("{}\t{}\t{}", tag, line, term)
}

// ------------------------------------------------------------------ generator

fn p_values(rng: &mut SplitMix64) -> u32 {
    let fixed: [u32; 16] = [
        0,                          // 0
        0x8000_0000,                // -0
        1,                          // smallest subnormal
        MIN_POS,                    // f32::MIN_POSITIVE
        0x3F00_0000,                // 0.5
        0x3F40_0000,                // 0.75
        0x3F7F_FFFF,                // 1 - eps
        ONE,                        // 1
        0x3F80_0001,                // 1 + eps
        0x3FC0_0000,                // 1.5
        INF_P,
        QNAN_P,
        QNAN_N,
        0xBF00_0000,                // -0.5
        0x3E80_0000,                // 0.25
        0x3F66_6666,                // 0.9
    ];
    if rng.chance(3, 4) { rng.pick(&fixed) } else { ((rng.below(1 << 20) as f32) / (1u32 << 20) as f32).to_bits() }
}

fn t_values(rng: &mut SplitMix64) -> u32 {
    let fixed: [u32; 10] = [
        ONE, 0x4000_0000, 0x3F00_0000, 0, 0x8000_0000, INF_P, 1, MIN_POS, 0x7F7F_FFFF, 0x3F4C_CCCD,
    ];
    rng.pick(&fixed)
}

fn rand_spec(rng: &mut SplitMix64, n: usize, nested_ok: bool) -> String {
    match rng.below(if nested_ok { 12 } else { 11 }) {
        0..=3 => {
            let k = if rng.chance(1, 25) { usize::MAX } else { rng.below(n as u64 + 4) as usize };
            format!("{}{}", if rng.chance(1, 2) { "K" } else { "k" }, k)
        }
        4..=7 => {
            let p = p_values(rng);
            match rng.below(4) {
                0 => format!("P{}:t", p),
                1 => format!("P{}:f", p),
                2 => format!("P{}:d", p),
                _ => format!("p{}", p),
            }
        }
        8 => format!("{}{}", if rng.chance(1, 2) { "T" } else { "t" }, t_values(rng)),
        9 => match rng.below(3) {
            0 => "Ie".to_string(),
            1 => format!("Ig{}", rng.below(n as u64 + 2)),
            _ => format!("Il{}", rng.below(n as u64 + 2)),
        },
        10 => "S".to_string(),
        _ => {
            let m = rng.below(3) as usize;
            let inner: Vec<String> = (0..m).map(|_| rand_spec(rng, n, false)).collect();
            format!("N({})", inner.join("+"))
        }
    }
}

fn emit(out: &mut impl Write, dense: bool, ids: &[u32], bits: &[u32], chain: &str) {
    writeln!(out, "{}|{}|{}|{}", if dense { "d" } else { "s" }, if dense { String::new() } else { fmt_u32s(ids) }, fmt_u32s(bits), chain).unwrap();
}

fn generate(seed: u64, n: usize, tier: &str, out: &mut impl Write) {
    let thorough = tier == "thorough";
    // 1. small-scope exhaustive: every vector over a 6-value alphabet, every K in 0..=len+1
    //    alphabet: +NaN, -NaN, -0, +0, 1.0, -inf
    let alpha = [QNAN_P, QNAN_N, ZERO_N, ZERO_P, ONE, INF_N];
    let max_len = if thorough { 4 } else { 3 };
    for len in 0..=max_len {
        let total = alpha.len().pow(len as u32);
        for mut code in 0..total {
            let mut v = vec![];
            for _ in 0..len {
                v.push(alpha[code % alpha.len()]);
                code /= alpha.len();
            }
            for k in 0..=len + 1 {
                emit(out, true, &[], &v, &format!("K{}", k));
            }
        }
    }
    // 2. small-scope exhaustive top-P without normalisation over dyadic probabilities
    let palpha = [0.0f32, 0.125, 0.25, 0.5, 1.0].map(|x| x.to_bits());
    let ps = [0u32, MIN_POS, 0x3E80_0000, 0x3F00_0000, 0x3F40_0000, 0x3F7F_FFFF, ONE, 0x3FC0_0000];
    for len in 0..=3usize {
        let total = palpha.len().pow(len as u32);
        for mut code in 0..total {
            let mut v = vec![];
            for _ in 0..len {
                v.push(palpha[code % palpha.len()]);
                code /= palpha.len();
            }
            for p in ps {
                emit(out, true, &[], &v, &format!("P{}:f", p));
            }
        }
    }
    // 3. seeded random: single filters over all lengths 0..40 (several SIMD widths + tails)
    let mut rng = SplitMix64(seed ^ 0xC31);
    let singles = n / 2;
    for i in 0..singles {
        let len = (i % 41) as usize;
        let profile = rng.below(8);
        let bits = rand_values(&mut rng, len, profile);
        let dense = rng.chance(1, 2);
        let ids = if dense { vec![] } else { rand_ids(&mut rng, len) };
        let spec = rand_spec(&mut rng, len, false);
        emit(out, dense, &ids, &bits, &spec);
    }
    // 4. chains of up to 3 filters in every order
    for _ in 0..(n - singles) / 4 {
        let len = rng.below(41) as usize;
        let profile = rng.below(8);
        let bits = rand_values(&mut rng, len, profile);
        let dense = rng.chance(1, 2);
        let ids = if dense { vec![] } else { rand_ids(&mut rng, len) };
        let m = 2 + rng.below(2) as usize;
        let specs: Vec<String> = (0..m).map(|_| rand_spec(&mut rng, len, true)).collect();
        // all permutations of the chosen filters (<= 6)
        let mut idx: Vec<usize> = (0..m).collect();
        let mut perms = vec![];
        permute(&mut idx, 0, &mut perms);
        for p in perms.iter().take(if m == 2 { 2 } else { 3 + rng.below(4) as usize }) {
            let chain: Vec<String> = p.iter().map(|&i| specs[i].clone()).collect();
            emit(out, dense, &ids, &bits, &chain.join(">"));
        }
    }
    // 5. empty chain
    emit(out, true, &[], &[ONE, ZERO_P], "");
}

fn permute(idx: &mut Vec<usize>, k: usize, out: &mut Vec<Vec<usize>>) {
    if k == idx.len() {
        out.push(idx.clone());
        return;
    }
    for i in k..idx.len() {
        idx.swap(k, i);
        permute(idx, k + 1, out);
        idx.swap(k, i);
    }
}

fn main() {
    let args: Vec<String> = std::env::args().collect();
    let stdout = std::io::stdout();
    let mut out = std::io::BufWriter::new(stdout.lock());
    match args.get(1).map(|s| s.as_str()) {
        Some("gen") => {
            let seed: u64 = args[2].parse().unwrap();
            let n: usize = args[3].parse().unwrap();
            generate(seed, n, &args[4], &mut out);
        }
        Some("exec") => {
            quiet_panics();
            let stdin = std::io::stdin();
            for line in stdin.lock().lines() {
                let line = line.unwrap();
                if line.trim().is_empty() {
                    continue;
                }
                writeln!(out, "{}", exec_line(&line)).unwrap();
            }
        }
        _ => {
            eprintln!("usage: c31 gen <seed> <n> <tier> | c31 exec");
            std::process::exit(2);
        }
    }
}
