//! C33 correspondence: rten_generate::sampler::{ArgMax, Multinomial} through `Sampler::sample`.
//!
//!   c33 gen <seed> <n> <tier>     print input lines
//!   c33 exec                      read input lines, print `tag \t input \t coq-case`
//!
//! input lines:  `A|ctor|ids|bits`                 ArgMax::new().sample
//!               `M|ctor|ids|bits|seed|count`      Multinomial::with_seed(seed), `count` samples
//! ctor `d` = Logits::dense, `s` = Logits::sparse.  f32 values are u32 bit patterns (decimal).
//!
//! Oracles printed with every multinomial case (DESIGN 0.4 / C33): the softmax output
//! (`Softmax::new(..).dispatch()`, the call the sampler makes) and the targets the sampler draws
//! (`fastrand::Rng::with_seed(seed).f32()`, one per sample).
use rten_generate::sampler::{ArgMax, Multinomial, Sampler};
use rten_simd::SimdOp;
use rten_vecmath::Softmax;
use std::io::{BufRead, Write};
use std::panic::AssertUnwindSafe;
use vh_filters::*;

fn coq_res(r: &Option<u32>) -> String {
    match r {
        Some(id) => format!("SId {}", id),
        None => "SPanic".to_string(),
    }
}

fn softmax_bits(logits: &[f32]) -> Option<Vec<u32>> {
    let n = logits.len();
    no_panic(AssertUnwindSafe(|| {
        let mut scratch: Vec<f32> = Vec::with_capacity(n);
        let spare = &mut scratch.spare_capacity_mut()[..n];
        let probs = Softmax::new(logits, spare).dispatch();
        bits_of(probs)
    }))
}

fn exec_line(line: &str) -> String {
    let parts: Vec<&str> = line.split('|').collect();
    let dense = parts[1] == "d";
    let bits = parse_u32s(parts[3]);
    let ids: Vec<u32> = if dense { (0..bits.len() as u32).collect() } else { parse_u32s(parts[2]) };
    let has_nan = bits.iter().any(|b| is_nan_bits(*b));
    let has_ninf = bits.iter().any(|b| *b == INF_N);
    let suffix = format!(
        "{}{}{}{}",
        if dense { "" } else { "-sp" },
        if has_nan { "-nan" } else { "" },
        if has_ninf { "-ninf" } else { "" },
        if bits.len() == 1 { "-single" } else { "" }
    );
    match parts[0] {
        "A" => {
            let logits = make_logits(dense, &ids, &bits);
            let run = || {
                let l = logits.clone();
                no_panic(AssertUnwindSafe(move || ArgMax::new().sample(&l)))
            };
            let r1 = run();
            let r2 = run();
            let tag = if bits.is_empty() { "trivial-argmax-empty".to_string() } else { format!("argmax{}", suffix) };
            let term = format!(
                "{{| s_kind := KArgMax; s_in := {}; s_probs := []; s_targets := []; s_out := [{}]; s_det := {} |}}",
                coq_pairs(&ids, &bits), coq_res(&r1), r1 == r2
            );
            format!("{}\t{}\t{}", tag, line, term)
        }
        "M" => {
            let seed: u64 = parts[4].parse().unwrap();
            let count: usize = parts[5].parse().unwrap();
            let logits = make_logits(dense, &ids, &bits);
            let run = || -> Vec<Option<u32>> {
                let l = logits.clone();
                // a panic poisons nothing here: the sampler is rebuilt for every run
                let sampler = Multinomial::with_seed(seed);
                let mut out = vec![];
                for _ in 0..count {
                    let r = no_panic(AssertUnwindSafe(|| sampler.sample(&l)));
                    let stop = r.is_none();
                    out.push(r);
                    if stop {
                        break;
                    }
                }
                out
            };
            let r1 = run();
            let r2 = run();
            let probs = softmax_bits(logits.logits()).unwrap_or_default();
            let mut rng = fastrand::Rng::with_seed(seed);
            let targets: Vec<u32> = (0..r1.len()).map(|_| rng.f32().to_bits()).collect();
            let zero_t = targets.iter().any(|t| *t == 0);
            let tag = if bits.is_empty() {
                "trivial-multi-empty".to_string()
            } else {
                format!("multi{}{}", suffix, if zero_t { "-t0" } else { "" })
            };
            let term = format!(
                "{{| s_kind := KMulti; s_in := {}; s_probs := {}; s_targets := {}; s_out := [{}]; s_det := {} |}}",
                coq_pairs(&ids, &bits),
                coq_list_u32(&probs),
                coq_list_u32(&targets),
                r1.iter().map(coq_res).collect::<Vec<_>>().join(";"),
                r1 == r2
            );
            format!("{}\t{}\t{}", tag, line, term)
        }
        _ => panic!("bad line {line}"),
    }
}

// ------------------------------------------------------------------ generator

/// First seed >= start whose first `f32()` draw has the given bit pattern.
fn find_seed(start: u64, want: u32, max_tries: u64) -> Option<u64> {
    for s in start..start + max_tries {
        if fastrand::Rng::with_seed(s).f32().to_bits() == want {
            return Some(s);
        }
    }
    None
}

/// Running f32 sum of the sampler's softmax output, in the sampler's order.
fn seq_sum(probs: &[u32]) -> f32 {
    let mut c = 0.0f32;
    for p in probs {
        c += f32::from_bits(*p);
    }
    c
}

fn emit(out: &mut impl Write, kind: &str, dense: bool, ids: &[u32], bits: &[u32], extra: &str) {
    writeln!(out, "{}|{}|{}|{}{}", kind, if dense { "d" } else { "s" }, if dense { String::new() } else { fmt_u32s(ids) }, fmt_u32s(bits), extra).unwrap();
}

fn generate(seed: u64, n: usize, tier: &str, out: &mut impl Write) {
    let thorough = tier == "thorough";
    let mut rng = SplitMix64(seed ^ 0xC33);
    // 1. ArgMax, small-scope exhaustive over an alphabet with NaN (both signs), zeros, ties, -inf
    let alpha = [QNAN_P, QNAN_N, ZERO_N, ZERO_P, ONE, INF_N, INF_P];
    let max_len = if thorough { 4 } else { 3 };
    for len in 0..=max_len {
        let total = alpha.len().pow(len as u32);
        for mut code in 0..total {
            let mut v = vec![];
            for _ in 0..len {
                v.push(alpha[code % alpha.len()]);
                code /= alpha.len();
            }
            emit(out, "A", true, &[], &v, "");
        }
    }
    // 2. ArgMax random
    for i in 0..n / 3 {
        let len = 1 + (i % 40);
        let profile = rng.below(8);
        let bits = rand_values(&mut rng, len, profile);
        let dense = rng.chance(1, 2);
        let ids = if dense { vec![] } else { rand_ids(&mut rng, len) };
        emit(out, "A", dense, &ids, &bits, "");
    }
    // 3. Multinomial: seeds whose first draw is exactly 0.0 / the largest value below 1
    let zero_seed = find_seed(0, 0, 1 << 27);
    let max_seed = find_seed(0, 0x3F7F_FFFE, 1 << 27); // 1 - 2^-23, the largest fastrand f32
    let special_seeds: Vec<u64> = [zero_seed, max_seed].iter().flatten().copied().collect();
    for i in 0..(n - n / 3) {
        let len = if i % 50 == 0 { 0 } else { 1 + (i % 40) };
        // profiles without NaN/+inf dominate (the property's domain); a few with them
        let profile = match rng.below(10) { 0 => 2, 1 => 3, 2 | 3 => 1, 4..=6 => 5, _ => 0 };
        let mut bits = rand_values(&mut rng, len, profile);
        if len > 0 && rng.chance(1, 2) {
            bits[0] = INF_N; // first candidate masked: probability exactly 0
        }
        if len > 1 && rng.chance(1, 4) {
            let l = bits.len();
            bits[l - 1] = INF_N;
        }
        let dense = rng.chance(1, 2);
        let ids = if dense { vec![] } else { rand_ids(&mut rng, len) };
        let s = if !special_seeds.is_empty() && rng.chance(1, 3) { rng.pick(&special_seeds) } else { rng.next() % 1_000_000 };
        let count = 1 + rng.below(6);
        emit(out, "M", dense, &ids, &bits, &format!("|{}|{}", s, count));
    }
    // 4. Multinomial: inputs whose softmax sums (in f32, sampler order) to less than the
    //    largest target, with the first candidate masked -> the `None` branch of `multinomial`
    if let Some(ms) = max_seed {
        let want = if thorough { 40 } else { 8 };
        let mut found = 0;
        let mut tries = 0;
        while found < want && tries < 200_000 {
            tries += 1;
            let len = 8 + rng.below(33) as usize;
            let mut bits: Vec<u32> = (0..len).map(|_| ((rng.below(4000) as f32) / 1000.0).to_bits()).collect();
            bits[0] = INF_N;
            let fl = floats_of(&bits);
            if let Some(p) = softmax_bits(&fl) {
                if seq_sum(&p) < f32::from_bits(0x3F7F_FFFE) {
                    emit(out, "M", true, &[], &bits, &format!("|{}|2", ms));
                    found += 1;
                }
            }
        }
    }
}

fn main() {
    let args: Vec<String> = std::env::args().collect();
    let stdout = std::io::stdout();
    let mut out = std::io::BufWriter::new(stdout.lock());
    match args.get(1).map(|s| s.as_str()) {
        Some("gen") => {
            let seed: u64 = args[2].parse().unwrap();
            let n: usize = args[3].parse().unwrap();
            generate(seed, n, &args[4], &mut out);
        }
        Some("exec") => {
            quiet_panics();
            let stdin = std::io::stdin();
            for line in stdin.lock().lines() {
                let line = line.unwrap();
                if line.trim().is_empty() {
                    continue;
                }
                writeln!(out, "{}", exec_line(&line)).unwrap();
            }
        }
        Some("seeds") => {
            println!("zero {:?} max {:?}", find_seed(0, 0, 1 << 27), find_seed(0, 0x3F7F_FFFE, 1 << 27));
        }
        _ => {
            eprintln!("usage: c33 gen <seed> <n> <tier> | c33 exec");
            std::process::exit(2);
        }
    }
}
