//! Shared helpers for the C31 / C33 correspondence harness (rten-generate filters, samplers).
//!
//! Floats never cross the harness boundary as decimal text: every f32 is printed and parsed as
//! its `u32` bit pattern (decimal), which is what the Coq order model works on.
use rten_generate::Logits;

pub struct SplitMix64(pub u64);
impl SplitMix64 {
    pub fn next(&mut self) -> u64 {
        self.0 = self.0.wrapping_add(0x9E3779B97F4A7C15);
        let mut z = self.0;
        z = (z ^ (z >> 30)).wrapping_mul(0xBF58476D1CE4E5B9);
        z = (z ^ (z >> 27)).wrapping_mul(0x94D049BB133111EB);
        z ^ (z >> 31)
    }
    pub fn below(&mut self, n: u64) -> u64 {
        if n == 0 { 0 } else { self.next() % n }
    }
    pub fn pick<T: Copy>(&mut self, xs: &[T]) -> T {
        xs[self.below(xs.len() as u64) as usize]
    }
    pub fn chance(&mut self, num: u64, den: u64) -> bool {
        self.below(den) < num
    }
}

/// Run `f`, mapping a panic to None.
pub fn no_panic<T>(f: impl FnOnce() -> T + std::panic::UnwindSafe) -> Option<T> {
    std::panic::catch_unwind(f).ok()
}

pub fn quiet_panics() {
    std::panic::set_hook(Box::new(|_| {}));
}

pub fn parse_u32s(s: &str) -> Vec<u32> {
    if s.trim().is_empty() {
        return vec![];
    }
    s.split(',').map(|x| x.trim().parse::<u32>().unwrap()).collect()
}

pub fn fmt_u32s(xs: &[u32]) -> String {
    let v: Vec<String> = xs.iter().map(|x| x.to_string()).collect();
    v.join(",")
}

pub fn coq_list_u32(xs: &[u32]) -> String {
    let v: Vec<String> = xs.iter().map(|x| x.to_string()).collect();
    format!("[{}]", v.join(";"))
}

pub fn coq_pairs(ids: &[u32], bits: &[u32]) -> String {
    let v: Vec<String> = ids.iter().zip(bits).map(|(i, b)| format!("({},{})", i, b)).collect();
    format!("[{}]", v.join(";"))
}

pub fn bits_of(xs: &[f32]) -> Vec<u32> {
    xs.iter().map(|x| x.to_bits()).collect()
}

pub fn floats_of(xs: &[u32]) -> Vec<f32> {
    xs.iter().map(|x| f32::from_bits(*x)).collect()
}

/// `Logits` built through the dense or the sparse constructor.
pub fn make_logits(dense: bool, ids: &[u32], bits: &[u32]) -> Logits {
    if dense {
        Logits::dense(floats_of(bits))
    } else {
        Logits::sparse(floats_of(bits), ids.to_vec())
    }
}

pub fn coq_logits(l: &Logits) -> String {
    coq_pairs(l.indices(), &bits_of(l.logits()))
}

// ---------------------------------------------------------------- value pools

pub const QNAN_P: u32 = 0x7FC0_0000;
pub const QNAN_N: u32 = 0xFFC0_0000;
pub const INF_P: u32 = 0x7F80_0000;
pub const INF_N: u32 = 0xFF80_0000;
pub const ZERO_P: u32 = 0;
pub const ZERO_N: u32 = 0x8000_0000;
pub const ONE: u32 = 0x3F80_0000;
pub const MIN_POS: u32 = 0x0080_0000;

/// NaNs (both signs, quiet/signalling, several payloads), infinities, zeros, subnormals, extremes.
pub const SPECIALS: [u32; 22] = [
    QNAN_P, QNAN_N, 0x7F80_0001, 0xFF80_0001, 0x7FFF_FFFF, 0xFFFF_FFFF, 0x7FC0_0001, 0xFFE0_0000,
    INF_P, INF_N, ZERO_P, ZERO_N,
    1, 0x8000_0001, 0x007F_FFFF, 0x807F_FFFF, MIN_POS, 0x8080_0000,
    0x7F7F_FFFF, 0xFF7F_FFFF, ONE, 0xBF80_0000,
];

pub fn is_nan_bits(b: u32) -> bool {
    (b & 0x7FFF_FFFF) > 0x7F80_0000
}

/// A "model-like" logit: finite, moderate magnitude, random fraction.
pub fn rand_logit(rng: &mut SplitMix64) -> u32 {
    let v = (rng.below(40_000) as f32 - 20_000.0) / 1000.0;
    v.to_bits()
}

/// Value drawn from a small set, to force ties.
pub fn rand_tie(rng: &mut SplitMix64) -> u32 {
    let vals = [-2.0f32, -1.0, -0.5, 0.0, 0.5, 1.0, 2.0, 3.5];
    rng.pick(&vals).to_bits()
}

pub fn rand_any(rng: &mut SplitMix64) -> u32 {
    rng.next() as u32
}

/// Dyadic probability k/64 (sums of these are exact in f32).
pub fn rand_dyadic(rng: &mut SplitMix64) -> u32 {
    (rng.below(17) as f32 / 64.0).to_bits()
}

/// Logit vector of length `n` with a seeded profile.
/// 0 plain, 1 ties, 2 specials mixed in, 3 arbitrary bit patterns, 4 dyadic probabilities,
/// 5 plain with -inf masks, 6 ascending (every later entry beats the running top-K), 7 descending
pub fn rand_values(rng: &mut SplitMix64, n: usize, profile: u64) -> Vec<u32> {
    let mut v: Vec<u32> = (0..n)
        .map(|_| match profile {
            0 | 6 | 7 => rand_logit(rng),
            1 => rand_tie(rng),
            2 => {
                if rng.chance(1, 3) { rng.pick(&SPECIALS) } else if rng.chance(1, 2) { rand_tie(rng) } else { rand_logit(rng) }
            }
            3 => {
                if rng.chance(1, 4) { rng.pick(&SPECIALS) } else { rand_any(rng) }
            }
            4 => rand_dyadic(rng),
            _ => {
                if rng.chance(1, 3) { INF_N } else { rand_logit(rng) }
            }
        })
        .collect();
    if profile == 6 || profile == 7 {
        v.sort_by(|a, b| f32::from_bits(*a).total_cmp(&f32::from_bits(*b)));
        if profile == 7 {
            v.reverse();
        }
    }
    v
}

/// Token ids for the sparse constructor: shuffled, gapped, occasionally duplicated.
pub fn rand_ids(rng: &mut SplitMix64, n: usize) -> Vec<u32> {
    let mode = rng.below(4);
    let mut ids: Vec<u32> = match mode {
        0 => (0..n as u32).collect(),
        1 => (0..n as u32).map(|i| i * 3 + 1).collect(),
        2 => (0..n as u32).map(|_| rng.below(50) as u32).collect(), // duplicates likely
        _ => (0..n as u32).map(|i| 1000 + i).collect(),
    };
    if mode != 0 || rng.chance(1, 2) {
        for i in (1..ids.len()).rev() {
            let j = rng.below(i as u64 + 1) as usize;
            ids.swap(i, j);
        }
    }
    if rng.chance(1, 20) && n > 0 {
        ids[0] = u32::MAX;
    }
    ids
}
