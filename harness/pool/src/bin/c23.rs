//! C23 correspondence: rten::BufferPool driven through its public API.
//!   c23 gen <seed> <n> <tier>   -> input lines `min|op;op;...`  (or `S:seed:threads:ops` stress)
//!   c23 exec                    -> `tag \t input \t coq-case`
//! ops: `a<ty>:<cap>` alloc::<ty>(cap); `r<k>` return k-th held buffer to the pool;
//!      `d<k>` drop the k-th held buffer.
use rten::BufferPool;
use std::collections::HashSet;
use std::io::{BufRead, Write};
use std::sync::{Arc, Mutex};

struct SplitMix64(u64);
impl SplitMix64 {
    fn next(&mut self) -> u64 {
        self.0 = self.0.wrapping_add(0x9E3779B97F4A7C15);
        let mut z = self.0;
        z = (z ^ (z >> 30)).wrapping_mul(0xBF58476D1CE4E5B9);
        z = (z ^ (z >> 27)).wrapping_mul(0x94D049BB133111EB);
        z ^ (z >> 31)
    }
    fn below(&mut self, n: u64) -> u64 { if n == 0 { 0 } else { self.next() % n } }
}

#[repr(align(16))]
#[derive(Clone, Copy)]
struct A16([u8; 16]);

macro_rules! types {
    ($($idx:literal => $var:ident : $t:ty),*) => {
        #[allow(dead_code)]
        enum Held { $($var(Vec<$t>)),* }
        impl Held {
            fn ptr_cap(&self) -> (usize, usize) {
                match self { $(Held::$var(v) => (v.as_ptr() as usize, v.capacity())),* }
            }
            fn esize(&self) -> usize {
                match self { $(Held::$var(_) => std::mem::size_of::<$t>()),* }
            }
            fn add_to(self, pool: &BufferPool) {
                match self { $(Held::$var(v) => pool.add(v)),* }
            }
        }
        fn alloc_ty(pool: &BufferPool, ty: usize, cap: usize) -> Held {
            match ty { $($idx => Held::$var(pool.alloc::<$t>(cap)),)* _ => unreachable!() }
        }
        fn size_align(ty: usize) -> (usize, usize) {
            match ty { $($idx => (std::mem::size_of::<$t>(), std::mem::align_of::<$t>()),)* _ => unreachable!() }
        }
        const NTYPES: usize = [$($idx),*].len();
    };
}
types!(0 => U8: u8, 1 => U16: u16, 2 => I32: i32, 3 => F32: f32, 4 => F64: f64, 5 => U64: u64,
       6 => B3: [u8; 3], 7 => B4: [u8; 4], 8 => H2: [u16; 2], 9 => Unit: (), 10 => W4: [u32; 4],
       11 => U128: u128, 12 => Al16: A16, 13 => B8: [u8; 8]);

fn exec_seq(line: &str) -> String {
    let (m, opss) = line.split_once('|').unwrap();
    let (pool, min_size) = if m == "d" {
        (BufferPool::new(), None)
    } else {
        let n: usize = m.parse().unwrap();
        (BufferPool::new().with_min_size(n), Some(n))
    };
    let mut held: Vec<(u64, Held)> = vec![];
    // buffers we believe are in the pool, in the order they were added: (id, ptr)
    let mut pooled: Vec<(u64, usize, usize, usize)> = vec![]; // (id, ptr, capacity, elem size)
    let mut next_id = 0u64;
    let mut terms: Vec<String> = vec![];
    let mut anomalies = 0;
    let mut nalloc = 0; let mut nreuse = 0;
    for op in opss.split(';').filter(|s| !s.is_empty()) {
        let kind = &op[0..1];
        match kind {
            "a" => {
                let (t, c) = op[1..].split_once(':').unwrap();
                let ty: usize = t.parse().unwrap();
                let cap: usize = c.parse().unwrap();
                let (es, al) = size_align(ty);
                let len_before = pool.len();
                let v = match std::panic::catch_unwind(std::panic::AssertUnwindSafe(|| alloc_ty(&pool, ty, cap))) {
                    Ok(v) => v,
                    Err(_) => {
                        terms.push(format!("(OAlloc {} {} {} {}, ObsPanic)", es, al, cap, cap));
                        anomalies += 1;
                        break;
                    }
                };
                let (ptr, vcap) = v.ptr_cap();
                let len_after = pool.len();
                nalloc += 1;
                if len_after + 1 == len_before {
                    // served from the pool: identify which buffer by pointer (earliest added wins
                    // for indistinguishable dangling pointers of zero-sized allocations)
                    let pos = pooled.iter().position(|&(_, p, c, _)| p == ptr && c == vcap);
                    let mut poisoned = false;
                    let id = match pos {
                        Some(i) => { let e = pooled.remove(i); poisoned = e.3 == 0 && es != 0; e.0 }
                        None => { anomalies += 1; 999_999 }
                    };
                    nreuse += 1;
                    terms.push(format!("(OAlloc {} {} {} {}, ObsAlloc (Some {}) {} {})", es, al, cap, cap, id, vcap, len_after));
                    if poisoned {
                        // a zero-sized-element buffer was handed out for a sized type: the Vec is backed by
                        // no memory; touching or dropping it is UB, so leak it and stop the sequence here
                        std::mem::forget(v);
                        anomalies += 1;
                        break;
                    }
                    held.push((id, v));
                } else {
                    let id = next_id;
                    next_id += 1;
                    terms.push(format!("(OAlloc {} {} {} {}, ObsAlloc None {} {})", es, al, cap, vcap, vcap, len_after));
                    held.push((id, v));
                }
            }
            "z" => {
                // a zero-sized-element Vec built by the holder itself (not through the pool)
                let cap: usize = op[1..].parse().unwrap();
                let v = Held::Unit(Vec::<()>::with_capacity(cap));
                let (_, vcap) = v.ptr_cap();
                let _ = cap; terms.push(format!("(OFresh 0 1 {}, ObsAlloc None {} {})", vcap, vcap, pool.len()));
                held.push((next_id, v));
                next_id += 1;
            }
            "r" | "d" => {
                if held.is_empty() { continue; }
                let k: usize = op[1..].parse().unwrap();
                let (id, v) = held.remove(k % held.len());
                let (ptr, bcap) = v.ptr_cap();
                let es_b = v.esize();
                if kind == "r" {
                    let len_before = pool.len();
                    v.add_to(&pool);
                    let len_after = pool.len();
                    if len_after == len_before + 1 { pooled.push((id, ptr, bcap, es_b)); }
                    terms.push(format!("(OAdd {}, ObsAdd {})", id, len_after));
                } else {
                    drop(v);
                    terms.push(format!("(ODrop {}, ObsDrop {})", id, pool.len()));
                }
            }
            _ => panic!("bad op"),
        }
    }
    let tag = if anomalies > 0 { "anomaly".to_string() }
        else if nreuse == 0 { "trivial-noreuse".to_string() }
        else { format!("seq-reuse{}", if nreuse > 3 { "4+" } else { "1-3" }) };
    let _ = nalloc;
    // the pool may be poisoned after a panic: do not run destructors that touch it
    if anomalies > 0 { std::mem::forget(held); }
    let min_term = match min_size { Some(n) => n.to_string(), None => "Pins.pool_default_min_size".to_string() };
    format!("{}\t{}\t{{| c_min_size := {}; c_ops := [{}] |}}", tag, line, min_term, terms.join("; "))
}

/// Multi-threaded stress: a run-time observation (not a proof). Detects a buffer handed to two
/// holders at once (same non-dangling pointer live twice) or a too-small capacity.
fn exec_stress(line: &str) -> String {
    let parts: Vec<&str> = line.split(':').collect();
    let seed: u64 = parts[1].parse().unwrap();
    let threads: usize = parts[2].parse().unwrap();
    let nops: usize = parts[3].parse().unwrap();
    let pool = Arc::new(BufferPool::new());
    let live: Arc<Mutex<HashSet<usize>>> = Arc::new(Mutex::new(HashSet::new()));
    let bad = Arc::new(Mutex::new(Vec::<String>::new()));
    let mut hs = vec![];
    for t in 0..threads {
        let pool = pool.clone(); let live = live.clone(); let bad = bad.clone();
        hs.push(std::thread::spawn(move || {
            let mut rng = SplitMix64(seed ^ (t as u64).wrapping_mul(0x1234567));
            let mut held: Vec<(Held, u8, usize)> = vec![];
            for _ in 0..nops {
                if held.len() < 6 && rng.below(3) != 0 {
                    let ty = [0usize, 2, 3, 5, 7, 8][rng.below(6) as usize];
                    let cap = 20 + rng.below(400) as usize;
                    let mut v = alloc_ty(&pool, ty, cap);
                    let (ptr, vcap) = v.ptr_cap();
                    if vcap < cap { bad.lock().unwrap().push(format!("capacity {} < {}", vcap, cap)); }
                    if !live.lock().unwrap().insert(ptr) {
                        bad.lock().unwrap().push(format!("pointer {:x} handed out twice", ptr));
                    }
                    // scribble a per-holder tag over the whole capacity
                    let tag = (t as u8).wrapping_mul(31).wrapping_add(rng.below(200) as u8);
                    let (es, _) = size_align(ty);
                    unsafe { std::ptr::write_bytes(ptr as *mut u8, tag, vcap * es); }
                    if let Held::U8(ref mut x) = v { x.clear(); }
                    held.push((v, tag, vcap * es));
                } else if !held.is_empty() {
                    let k = rng.below(held.len() as u64) as usize;
                    let (v, tag, bytes) = held.remove(k);
                    let (ptr, _) = v.ptr_cap();
                    let s = unsafe { std::slice::from_raw_parts(ptr as *const u8, bytes) };
                    if s.iter().any(|&b| b != tag) {
                        bad.lock().unwrap().push(format!("buffer {:x} was written by another holder", ptr));
                    }
                    live.lock().unwrap().remove(&ptr);
                    if rng.below(4) == 0 { drop(v) } else { v.add_to(&pool) }
                }
            }
            for (v, _, _) in held { let (ptr, _) = v.ptr_cap(); live.lock().unwrap().remove(&ptr); drop(v); }
        }));
    }
    for h in hs { let _ = h.join(); }
    let bad = bad.lock().unwrap();
    if bad.is_empty() {
        format!("stress-ok\t{}\t{{| c_min_size := 0; c_ops := [] |}}", line)
    } else {
        // a case that fails both oracles by construction; details in the tag
        format!("stress-FAIL[{}]\t{}\t{{| c_min_size := 0; c_ops := [(OAdd 0, ObsAdd 0)] |}}", bad[0].replace('\t', " "), line)
    }
}

fn generate(seed: u64, n: usize, tier: &str, out: &mut impl Write) {
    let mut rng = SplitMix64(seed);
    for i in 0..n {
        let m = match rng.below(6) { 0 => "0".to_string(), 1 => "1".to_string(), 2 => "1000".to_string(), 3 => "64".to_string(), _ => "d".to_string() };
        let len = 4 + rng.below(28);
        // favour a small set of types and capacities so that reuse (and near-misses) happen
        let palette: Vec<usize> = (0..3 + rng.below(3)).map(|_| rng.below(NTYPES as u64) as usize).collect();
        let caps: Vec<usize> = (0..2 + rng.below(3)).map(|_| match rng.below(8) { 0 => 0, 1 => 1, 2 => 31, 3 => 32, 4 => 33, 5 => 128, _ => 1 + rng.below(300) as usize }).collect();
        let mut ops = vec![];
        for _ in 0..len {
            match rng.below(10) {
                0..=4 => {
                    let ty = if rng.below(8) == 0 { rng.below(NTYPES as u64) as usize } else { palette[rng.below(palette.len() as u64) as usize] };
                    let base = caps[rng.below(caps.len() as u64) as usize];
                    let cap = match rng.below(4) { 0 => base, 1 => base.saturating_sub(1), 2 => base + 1, _ => base / 2 };
                    // Vec<()>::capacity() is always usize::MAX and its pointer is dangling, so a pooled
                    // zero-sized buffer cannot be identified from outside: keep ZSTs on the bypass path
                    let ty = if ty == 9 && m == "0" { 0 } else { ty };
                    ops.push(format!("a{}:{}", ty, cap));
                }
                5..=8 => {
                    // now and then hand the pool a Vec<()> (capacity usize::MAX, zero-size layout): with
                    // min_size 0 it is pooled and must never be handed out for a non-zero-sized type
                    if rng.below(12) == 0 { ops.push(format!("z{}", rng.below(40))); }
                    ops.push(format!("r{}", rng.below(8)))
                }
                _ => ops.push(format!("d{}", rng.below(8))),
            }
        }
        writeln!(out, "{}|{}", m, ops.join(";")).unwrap();
        let _ = i;
    }
    let nstress = if tier == "thorough" { 40 } else { 6 };
    for i in 0..nstress {
        writeln!(out, "S:{}:{}:{}", rng.next() % 1_000_000, 2 + i % 7, if tier == "thorough" { 20000 } else { 4000 }).unwrap();
    }
}

fn main() {
    std::panic::set_hook(Box::new(|_| {}));
    let args: Vec<String> = std::env::args().collect();
    let stdout = std::io::stdout();
    let mut out = std::io::BufWriter::new(stdout.lock());
    match args.get(1).map(|s| s.as_str()) {
        Some("gen") => generate(args[2].parse().unwrap(), args[3].parse().unwrap(), &args[4], &mut out),
        Some("exec") => {
            for line in std::io::stdin().lock().lines() {
                let line = line.unwrap();
                if line.trim().is_empty() { continue; }
                let r = if line.starts_with("S:") { exec_stress(&line) } else { exec_seq(&line) };
                writeln!(out, "{}", r).unwrap();
            }
        }
        _ => { eprintln!("usage: c23 gen <seed> <n> <tier> | c23 exec"); std::process::exit(2); }
    }
}
