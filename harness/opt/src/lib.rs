//! C01 harness: ONNX graph specs, a minimal ONNX protobuf writer, the end-to-end differential
//! runner (optimisation off/on x shape inference off/on/strict) and the optimized-graph dump.
use rten::{Model, ModelOptions, ShapeInferenceMode, Value, ValueOrView};
use rten_tensor::prelude::*;
use rten_tensor::Tensor;

pub mod gen_graphs;

// ------------------------------------------------------------------ rng
#[derive(Clone)]
pub struct SplitMix64(pub u64);
impl SplitMix64 {
    pub fn next(&mut self) -> u64 {
        self.0 = self.0.wrapping_add(0x9E3779B97F4A7C15);
        let mut z = self.0;
        z = (z ^ (z >> 30)).wrapping_mul(0xBF58476D1CE4E5B9);
        z = (z ^ (z >> 27)).wrapping_mul(0x94D049BB133111EB);
        z ^ (z >> 31)
    }
    pub fn below(&mut self, n: usize) -> usize { if n == 0 { 0 } else { (self.next() % n as u64) as usize } }
    pub fn chance(&mut self, pct: usize) -> bool { self.below(100) < pct }
    pub fn pick<'a, T>(&mut self, xs: &'a [T]) -> &'a T { &xs[self.below(xs.len())] }
    pub fn range(&mut self, lo: i64, hi: i64) -> i64 { lo + self.below((hi - lo + 1) as usize) as i64 }
}

// ------------------------------------------------------------------ spec
#[derive(Clone, Copy, Debug, PartialEq, Eq)]
pub enum Dt { F, L, I, B, U, C }
impl Dt {
    pub fn onnx(self) -> u64 { match self { Dt::F => 1, Dt::U => 2, Dt::C => 3, Dt::I => 6, Dt::L => 7, Dt::B => 9 } }
    pub fn ch(self) -> char { match self { Dt::F => 'f', Dt::L => 'l', Dt::I => 'i', Dt::B => 'b', Dt::U => 'u', Dt::C => 'c' } }
    pub fn from_ch(c: &str) -> Dt { match c { "f" => Dt::F, "l" => Dt::L, "i" => Dt::I, "b" => Dt::B, "u" => Dt::U, "c" => Dt::C, _ => panic!("dtype {}", c) } }
    pub fn is_float(self) -> bool { self == Dt::F }
}

/// Declaration of one dimension in a ValueInfoProto: `dim_value`, `dim_param`, or neither
/// (an unnamed dynamic dimension, written `?`).
#[derive(Clone, Debug, PartialEq, Eq)]
pub enum DimDecl { Fixed(usize), Named(String), Unnamed }
#[derive(Clone, Debug, PartialEq, Eq)]
pub enum Decl { Fixed, Sym, NoShape, Dims(Vec<DimDecl>) }
impl Decl {
    pub fn text(&self) -> String {
        match self {
            Decl::Fixed => "fixed".into(), Decl::Sym => "sym".into(), Decl::NoShape => "none".into(),
            Decl::Dims(ds) => format!("d:{}", if ds.is_empty() { "-".to_string() } else { ds.iter().map(|d| match d { DimDecl::Fixed(n) => n.to_string(), DimDecl::Named(s) => s.clone(), DimDecl::Unnamed => "?".into() }).collect::<Vec<_>>().join(",") }),
        }
    }
    pub fn parse(t: &str) -> Decl {
        match t {
            "fixed" => Decl::Fixed, "sym" => Decl::Sym, "none" => Decl::NoShape,
            _ => { let body = t.strip_prefix("d:").unwrap_or("-");
                   Decl::Dims(if body == "-" { vec![] } else { body.split(',').map(|d| if d == "?" { DimDecl::Unnamed } else if let Ok(n) = d.parse::<usize>() { DimDecl::Fixed(n) } else { DimDecl::Named(d.to_string()) }).collect() }) }
        }
    }
}

#[derive(Clone, Debug)]
pub struct InSpec { pub name: String, pub dt: Dt, pub shape: Vec<usize>, pub decl: Decl }
#[derive(Clone, Debug)]
pub struct ConstSpec { pub name: String, pub dt: Dt, pub shape: Vec<usize>, pub vals: Vec<f64> }
#[derive(Clone, Debug)]
pub enum Attr { Int(i64), Ints(Vec<i64>), Float(f32), Str(String) }
#[derive(Clone, Debug)]
pub struct NodeSpec { pub op: String, pub name: String, pub ins: Vec<String>, pub outs: Vec<String>, pub attrs: Vec<(String, Attr)> }

#[derive(Clone, Debug, Default)]
pub struct Spec {
    pub exact: bool,
    /// emit value_info (shape + dtype of every intermediate, learned from a run of the unoptimized model)
    pub vi: u8,
    pub focus: String,
    pub tag: String,
    pub inputs: Vec<InSpec>,
    pub consts: Vec<ConstSpec>,
    pub nodes: Vec<NodeSpec>,
    pub outputs: Vec<String>,
    /// results of random operators: never graph outputs, only used to observe run-to-run variation
    pub hidden: Vec<String>,
    pub data: Vec<(String, Vec<f64>)>,
}

pub fn shape_str(s: &[usize]) -> String { if s.is_empty() { "-".into() } else { s.iter().map(|d| d.to_string()).collect::<Vec<_>>().join("x") } }
pub fn parse_shape(s: &str) -> Vec<usize> { if s == "-" { vec![] } else { s.split('x').map(|d| d.parse().unwrap()).collect() } }
fn val_str(v: f64) -> String {
    if v.is_nan() { "nan".into() } else if v == f64::INFINITY { "inf".into() } else if v == f64::NEG_INFINITY { "-inf".into() }
    else if v == 0.0 && v.is_sign_negative() { "-0.0".into() }
    else if v.fract() == 0.0 && v.abs() < 1e15 { format!("{}", v as i64) } else { format!("{:?}", v as f32) }
}
fn parse_val(s: &str) -> f64 {
    match s { "nan" => f64::NAN, "inf" => f64::INFINITY, "-inf" => f64::NEG_INFINITY, _ => s.parse::<f64>().unwrap() }
}
fn vals_str(v: &[f64]) -> String { if v.is_empty() { "_".into() } else { v.iter().map(|x| val_str(*x)).collect::<Vec<_>>().join(",") } }
fn parse_vals(s: &str) -> Vec<f64> { if s == "_" { vec![] } else { s.split(',').map(parse_val).collect() } }

impl Spec {
    pub fn to_line(&self) -> String {
        let mut items = vec![format!("M exact={} vi={} tag={} focus={}", self.exact as u8, self.vi, if self.tag.is_empty() { "-" } else { &self.tag }, if self.focus.is_empty() { "-" } else { &self.focus })];
        for i in &self.inputs {
            items.push(format!("I {} {} {} {}", i.name, i.dt.ch(), shape_str(&i.shape), i.decl.text()));
        }
        for c in &self.consts { items.push(format!("C {} {} {} {}", c.name, c.dt.ch(), shape_str(&c.shape), vals_str(&c.vals))); }
        for n in &self.nodes {
            let mut s = format!("N {} {} {} {}", n.op, n.name, n.ins.iter().map(|x| if x.is_empty() { "_" } else { x }).collect::<Vec<_>>().join(","), n.outs.join(","));
            if n.ins.is_empty() { s = format!("N {} {} _none {}", n.op, n.name, n.outs.join(",")); }
            for (k, a) in &n.attrs {
                s += &match a {
                    Attr::Int(i) => format!(" {}=i:{}", k, i),
                    Attr::Ints(v) => format!(" {}=is:{}", k, if v.is_empty() { "_".to_string() } else { v.iter().map(|x| x.to_string()).collect::<Vec<_>>().join(",") }),
                    Attr::Float(f) => format!(" {}=f:{:?}", k, f),
                    Attr::Str(t) => format!(" {}=s:{}", k, t),
                };
            }
            items.push(s);
        }
        items.push(format!("O {}", self.outputs.join(",")));
        if !self.hidden.is_empty() { items.push(format!("H {}", self.hidden.join(","))); }
        for (n, d) in &self.data { items.push(format!("D {} {}", n, vals_str(d))); }
        items.join(" ; ")
    }

    pub fn parse(line: &str) -> Spec {
        let mut s = Spec::default();
        for item in line.split(';') {
            let t: Vec<&str> = item.split_whitespace().collect();
            if t.is_empty() { continue; }
            match t[0] {
                "M" => for kv in &t[1..] {
                    let (k, v) = kv.split_once('=').unwrap();
                    match k { "exact" => s.exact = v == "1", "vi" => s.vi = v.parse().unwrap_or(0), "focus" => s.focus = if v == "-" { String::new() } else { v.to_string() }, "tag" => s.tag = v.to_string(), _ => {} }
                },
                "I" => s.inputs.push(InSpec { name: t[1].into(), dt: Dt::from_ch(t[2]), shape: parse_shape(t[3]),
                                               decl: Decl::parse(t[4]) }),
                "C" => s.consts.push(ConstSpec { name: t[1].into(), dt: Dt::from_ch(t[2]), shape: parse_shape(t[3]), vals: parse_vals(t[4]) }),
                "N" => {
                    let ins = if t[3] == "_none" { vec![] } else { t[3].split(',').map(|x| if x == "_" { String::new() } else { x.to_string() }).collect() };
                    let outs = t[4].split(',').map(|x| x.to_string()).collect();
                    let mut attrs = vec![];
                    for kv in &t[5..] {
                        let (k, v) = kv.split_once('=').unwrap();
                        let (ty, val) = v.split_once(':').unwrap();
                        attrs.push((k.to_string(), match ty {
                            "i" => Attr::Int(val.parse().unwrap()),
                            "is" => Attr::Ints(if val == "_" { vec![] } else { val.split(',').map(|x| x.parse().unwrap()).collect() }),
                            "f" => Attr::Float(val.parse().unwrap()),
                            _ => Attr::Str(val.to_string()),
                        }));
                    }
                    s.nodes.push(NodeSpec { op: t[1].into(), name: t[2].into(), ins, outs, attrs });
                }
                "O" => s.outputs = t[1].split(',').map(|x| x.to_string()).collect(),
                "H" => s.hidden = t[1].split(',').map(|x| x.to_string()).collect(),
                "D" => s.data.push((t[1].to_string(), parse_vals(t[2]))),
                _ => {}
            }
        }
        s
    }
}

// ------------------------------------------------------------------ protobuf writer
fn varint(mut v: u64, out: &mut Vec<u8>) {
    loop {
        let b = (v & 0x7f) as u8;
        v >>= 7;
        if v == 0 { out.push(b); break; } else { out.push(b | 0x80); }
    }
}
fn tag(field: u32, wt: u32, out: &mut Vec<u8>) { varint(((field << 3) | wt) as u64, out); }
fn f_varint(field: u32, v: u64, out: &mut Vec<u8>) { tag(field, 0, out); varint(v, out); }
fn f_bytes(field: u32, b: &[u8], out: &mut Vec<u8>) { tag(field, 2, out); varint(b.len() as u64, out); out.extend_from_slice(b); }
fn f_str(field: u32, s: &str, out: &mut Vec<u8>) { f_bytes(field, s.as_bytes(), out); }
fn f_f32(field: u32, v: f32, out: &mut Vec<u8>) { tag(field, 5, out); out.extend_from_slice(&v.to_le_bytes()); }

fn raw_of(dt: Dt, vals: &[f64]) -> Vec<u8> {
    let mut raw = vec![];
    for v in vals {
        match dt {
            Dt::F => raw.extend_from_slice(&(*v as f32).to_le_bytes()),
            Dt::I => raw.extend_from_slice(&(*v as i32).to_le_bytes()),
            Dt::L => raw.extend_from_slice(&(*v as i64).to_le_bytes()),
            Dt::B | Dt::U => raw.push(*v as u8),
            Dt::C => raw.push(*v as i8 as u8),
        }
    }
    raw
}

fn tensor_proto(c: &ConstSpec) -> Vec<u8> {
    let mut p = vec![];
    for d in &c.shape { f_varint(1, *d as u64, &mut p); }
    f_varint(2, c.dt.onnx(), &mut p);
    f_str(8, &c.name, &mut p);
    f_bytes(9, &raw_of(c.dt, &c.vals), &mut p);
    p
}

fn attr_proto(name: &str, v: &Attr) -> Vec<u8> {
    let mut a = vec![];
    f_str(1, name, &mut a);
    match v {
        Attr::Int(i) => { f_varint(3, *i as u64, &mut a); f_varint(20, 2, &mut a); }
        Attr::Float(f) => { f_f32(2, *f, &mut a); f_varint(20, 1, &mut a); }
        Attr::Str(s) => { f_str(4, s, &mut a); f_varint(20, 3, &mut a); }
        Attr::Ints(is) => { for i in is { f_varint(8, *i as u64, &mut a); } f_varint(20, 7, &mut a); }
    }
    a
}

/// ValueInfoProto; `dims`: None = no shape field.
fn value_info(name: &str, dt: Option<Dt>, dims: Option<&[DimDecl]>) -> Vec<u8> {
    let mut v = vec![];
    f_str(1, name, &mut v);
    if let Some(dt) = dt {
        let mut tt = vec![];
        f_varint(1, dt.onnx(), &mut tt);
        if let Some(dims) = dims {
            let mut sh = vec![];
            for d in dims {
                let mut dim = vec![];
                match d { DimDecl::Fixed(n) => f_varint(1, *n as u64, &mut dim), DimDecl::Named(s) => f_str(2, s, &mut dim), DimDecl::Unnamed => {} }
                f_bytes(1, &dim, &mut sh);
            }
            f_bytes(2, &sh, &mut tt);
        }
        let mut ty = vec![];
        f_bytes(1, &tt, &mut ty);
        f_bytes(2, &ty, &mut v);
    }
    v
}

/// Shapes/dtypes of intermediates (name, dtype, shape), used for value_info when `spec.vi`.
pub type ValueInfos = Vec<(String, Dt, Vec<usize>)>;

impl Spec {
    pub fn to_onnx(&self, infos: Option<&ValueInfos>) -> Vec<u8> {
        let mut g = vec![];
        for n in &self.nodes {
            let mut node = vec![];
            for i in &n.ins { f_str(1, i, &mut node); }
            for o in &n.outs { f_str(2, o, &mut node); }
            f_str(3, &n.name, &mut node);
            f_str(4, &n.op, &mut node);
            for (k, a) in &n.attrs { f_bytes(5, &attr_proto(k, a), &mut node); }
            f_bytes(1, &node, &mut g);
        }
        f_str(2, "g", &mut g);
        for c in &self.consts { f_bytes(5, &tensor_proto(c), &mut g); }
        for i in &self.inputs {
            let dims: Option<Vec<DimDecl>> = match &i.decl {
                Decl::NoShape => None,
                Decl::Fixed => Some(i.shape.iter().map(|d| DimDecl::Fixed(*d)).collect()),
                Decl::Sym => Some(i.shape.iter().enumerate().map(|(k, d)| if k % 2 == 0 { DimDecl::Named(format!("{}_d{}", i.name, k)) } else { DimDecl::Fixed(*d) }).collect()),
                Decl::Dims(ds) => Some(ds.clone()),
            };
            f_bytes(11, &value_info(&i.name, Some(i.dt), dims.as_deref()), &mut g);
        }
        for o in &self.outputs { f_bytes(12, &value_info(o, None, None), &mut g); }
        if let Some(infos) = infos {
            for (name, dt, shape) in infos {
                if self.outputs.contains(name) || self.inputs.iter().any(|i| &i.name == name) { continue; }
                // vi = 2: some dimensions of the intermediates are declared as unnamed dynamic dims
                let h = name.bytes().fold(0usize, |a, b| a.wrapping_mul(31).wrapping_add(b as usize));
                let dims: Vec<DimDecl> = shape.iter().enumerate().map(|(k, d)| if self.vi == 2 && (h + 3 * k) % 4 == 0 { DimDecl::Unnamed } else { DimDecl::Fixed(*d) }).collect();
                f_bytes(13, &value_info(name, Some(*dt), Some(&dims)), &mut g);
            }
        }
        let mut m = vec![];
        f_varint(1, 8, &mut m);
        let mut opset = vec![]; f_str(1, "", &mut opset); f_varint(2, 18, &mut opset);
        f_bytes(8, &opset, &mut m);
        f_bytes(7, &g, &mut m);
        m
    }
}

// ------------------------------------------------------------------ running
#[derive(Clone, Debug, PartialEq)]
pub enum Outcome { Ok(Vec<OutT>), LoadErr(String), RunErr(String), Panic }
#[derive(Clone, Debug)]
pub struct OutT { pub kind: &'static str, pub shape: Vec<usize>, pub vals: Vec<String>, pub nums: Vec<f64> }

/// Exact encoding of an f32 as a Coq term of type `fval`: `Fin m e` (value m * 2^e, m odd or 0),
/// `PInf`, `NInf`, `FNaN`.  -0.0 is printed as zero: the property compares values.
pub fn fval(x: f32) -> String {
    if x.is_nan() { return "FNaN".into(); }
    if x == f32::INFINITY { return "PInf".into(); }
    if x == f32::NEG_INFINITY { return "NInf".into(); }
    if x == 0.0 { return "(Fin 0 0)".into(); }
    let bits = x.to_bits();
    let sign = if bits >> 31 == 1 { -1i64 } else { 1 };
    let exp = ((bits >> 23) & 0xff) as i64;
    let frac = (bits & 0x7fffff) as i64;
    let (mut m, mut e) = if exp == 0 { (frac, -149) } else { (frac | 0x800000, exp - 150) };
    while m & 1 == 0 { m >>= 1; e += 1; }
    let z = |v: i64| if v < 0 { format!("({})", v) } else { v.to_string() };
    format!("(Fin {} {})", z(sign * m), z(e))
}
fn ival(v: i64) -> String { if v < 0 { format!("(Fin ({}) 0)", v) } else { format!("(Fin {} 0)", v) } }

fn out_of(v: &Value) -> OutT {
    match v {
        Value::FloatTensor(t) => OutT { kind: "KFloat", shape: t.shape().to_vec(), vals: t.iter().map(|x| fval(*x)).collect(), nums: t.iter().map(|x| *x as f64).collect() },
        Value::Int32Tensor(t) => OutT { kind: "KInt", shape: t.shape().to_vec(), vals: t.iter().map(|x| ival(*x as i64)).collect(), nums: t.iter().map(|x| *x as f64).collect() },
        Value::Int8Tensor(t) => OutT { kind: "KI8", shape: t.shape().to_vec(), vals: t.iter().map(|x| ival(*x as i64)).collect(), nums: t.iter().map(|x| *x as f64).collect() },
        Value::UInt8Tensor(t) => OutT { kind: "KU8", shape: t.shape().to_vec(), vals: t.iter().map(|x| ival(*x as i64)).collect(), nums: t.iter().map(|x| *x as f64).collect() },
        _ => OutT { kind: "KOther", shape: vec![], vals: vec![], nums: vec![] },
    }
}

fn input_values(spec: &Spec, model: &Model) -> Result<Vec<(rten::NodeId, ValueOrView<'static>)>, String> {
    let mut inputs = vec![];
    for i in &spec.inputs {
        let id = model.find_node(&i.name).ok_or_else(|| format!("input {} missing", i.name))?;
        let data = spec.data.iter().find(|(n, _)| n == &i.name).map(|(_, d)| d.clone()).unwrap_or_default();
        let v: Value = match i.dt {
            Dt::F => Tensor::from_data(&i.shape, data.iter().map(|x| *x as f32).collect::<Vec<_>>()).into(),
            Dt::I | Dt::L | Dt::B => Tensor::from_data(&i.shape, data.iter().map(|x| *x as i32).collect::<Vec<_>>()).into(),
            Dt::U => Tensor::from_data(&i.shape, data.iter().map(|x| *x as u8).collect::<Vec<_>>()).into(),
            Dt::C => Tensor::from_data(&i.shape, data.iter().map(|x| *x as i8).collect::<Vec<_>>()).into(),
        };
        inputs.push((id, v.into()));
    }
    Ok(inputs)
}

pub fn load(bytes: &[u8], optimize: bool, mode: ShapeInferenceMode) -> Result<Model, String> {
    let mut opts = ModelOptions::with_all_ops();
    opts.enable_optimization(optimize);
    opts.shape_inference(mode);
    opts.load(bytes.to_vec()).map_err(|e| e.to_string())
}

/// Load + run under one configuration.  Also returns the optimized-graph dump (hook) when loaded.
pub fn run_config(spec: &Spec, bytes: &[u8], optimize: bool, mode: ShapeInferenceMode, outs: &[String]) -> (Outcome, Option<String>) {
    let spec2 = spec.clone();
    let bytes2 = bytes.to_vec();
    let outs2 = outs.to_vec();
    let r = std::panic::catch_unwind(move || {
        let model = match load(&bytes2, optimize, mode) { Ok(m) => m, Err(e) => return (Outcome::LoadErr(e), None) };
        #[cfg(rten_verif)]
        let dump = Some(rten::verif::opt::dump_model(&model));
        #[cfg(not(rten_verif))]
        let dump: Option<String> = None;
        let inputs = match input_values(&spec2, &model) { Ok(i) => i, Err(e) => return (Outcome::LoadErr(e), dump) };
        let mut ids = vec![];
        for o in &outs2 {
            match model.find_node(o) { Some(id) => ids.push(id), None => return (Outcome::LoadErr(format!("output {} missing", o)), dump) }
        }
        match model.run(inputs, &ids, None) {
            Ok(res) => (Outcome::Ok(res.iter().map(out_of).collect()), dump),
            Err(e) => (Outcome::RunErr(e.to_string()), dump),
        }
    });
    r.unwrap_or((Outcome::Panic, None))
}

/// Learn shape + dtype of every node output by running the unoptimized model with each
/// intermediate requested as an output (one run; values that cannot be computed are skipped).
pub fn learn_infos(spec: &Spec) -> ValueInfos {
    let bytes = spec.to_onnx(None);
    let names: Vec<String> = spec.nodes.iter().flat_map(|n| n.outs.iter().filter(|o| !o.is_empty()).cloned()).collect();
    let (out, _) = run_config(spec, &bytes, false, ShapeInferenceMode::Off, &names);
    let mut infos = vec![];
    if let Outcome::Ok(ts) = out {
        for (n, t) in names.iter().zip(ts) {
            let dt = match t.kind { "KFloat" => Dt::F, "KInt" => Dt::I, "KI8" => Dt::C, "KU8" => Dt::U, _ => continue };
            infos.push((n.clone(), dt, t.shape));
        }
    }
    infos
}

impl PartialEq for OutT { fn eq(&self, o: &OutT) -> bool { self.kind == o.kind && self.shape == o.shape && self.vals == o.vals } }

/// Development aid (the official oracle is `prop_ok` in Coq): same rule in Rust.
pub fn rust_verdict(spec: &Spec, outcomes: &[Outcome]) -> Option<String> {
    let Outcome::Ok(base) = &outcomes[0] else { return None };
    for k in 1..outcomes.len() {
        match &outcomes[k] {
            Outcome::Ok(ts) => {
                if ts.len() != base.len() { return Some(format!("config {}: output count", k)); }
                for (a, b) in base.iter().zip(ts) {
                    if a.kind != b.kind { return Some(format!("config {}: dtype {} vs {}", k, a.kind, b.kind)); }
                    if a.shape != b.shape { return Some(format!("config {}: shape {:?} vs {:?}", k, a.shape, b.shape)); }
                    for (i, (x, y)) in a.nums.iter().zip(&b.nums).enumerate() {
                        let ok = if x.is_nan() || y.is_nan() { x.is_nan() && y.is_nan() } else if x == y { true }
                                 else if spec.exact || a.kind != "KFloat" { false } else { x.is_finite() && y.is_finite() && (x - y).abs() <= 4.8828125e-4 * (1.0 + x.abs().max(y.abs())) };
                        if !ok { return Some(format!("config {}: value[{}] {} vs {}", k, i, x, y)); }
                    }
                }
            }
            Outcome::LoadErr(e) if k == 3 => { let _ = e; }
            o => return Some(format!("config {}: {:?}", k, o)),
        }
    }
    None
}

/// Load ONE model and run it twice for the hidden (random) values: do the two runs differ?
/// `None` when the model does not load or run.
pub fn varies_between_runs(spec: &Spec, bytes: &[u8], optimize: bool, mode: ShapeInferenceMode) -> Option<bool> {
    let spec2 = spec.clone();
    let bytes2 = bytes.to_vec();
    std::panic::catch_unwind(move || {
        let model = load(&bytes2, optimize, mode).ok()?;
        let ids: Option<Vec<_>> = spec2.hidden.iter().map(|o| model.find_node(o)).collect();
        let ids = ids?;
        let mut runs = vec![];
        for _ in 0..2 {
            let inputs = input_values(&spec2, &model).ok()?;
            let res = model.run(inputs, &ids, None).ok()?;
            runs.push(res.iter().map(out_of).collect::<Vec<_>>());
        }
        Some(runs[0] != runs[1])
    }).unwrap_or(None)
}

pub const CONFIGS: [(bool, u8); 4] = [(false, 0), (true, 0), (true, 1), (true, 2)];
pub fn mode_of(k: u8) -> ShapeInferenceMode { match k { 0 => ShapeInferenceMode::Off, 1 => ShapeInferenceMode::On, _ => ShapeInferenceMode::Strict } }

pub struct RunAll { pub outcomes: Vec<Outcome>, pub dumps: Vec<Option<String>>, pub infos: ValueInfos, pub varies: Vec<bool> }

pub fn run_all(spec: &Spec) -> RunAll {
    let infos = if spec.vi > 0 { learn_infos(spec) } else { vec![] };
    let bytes = spec.to_onnx(if spec.vi > 0 { Some(&infos) } else { None });
    let mut outcomes = vec![];
    let mut dumps = vec![];
    for (opt, mode) in CONFIGS {
        let (o, d) = run_config(spec, &bytes, opt, mode_of(mode), &spec.outputs);
        outcomes.push(o);
        dumps.push(d);
    }
    // run-to-run variation of the hidden random values (two runs of one loaded model)
    let mut varies = vec![];
    if !spec.hidden.is_empty() {
        for (opt, mode) in CONFIGS {
            varies.push(varies_between_runs(spec, &bytes, opt, mode_of(mode)).unwrap_or(true));
        }
    }
    RunAll { outcomes, dumps, infos, varies }
}

pub fn coq_list<T: AsRef<str>>(xs: &[T]) -> String { format!("[{}]", xs.iter().map(|x| x.as_ref()).collect::<Vec<_>>().join("; ")) }
pub fn coq_shape(s: &[usize]) -> String { format!("[{}]", s.iter().map(|d| d.to_string()).collect::<Vec<_>>().join("; ")) }

pub fn outcome_term(o: &Outcome, base: Option<&Outcome>) -> String {
    if let (Some(b), Outcome::Ok(_)) = (base, o) { if b == o { return "RSame".into(); } }
    match o {
        Outcome::Ok(ts) => format!("ROk {}", coq_list(&ts.iter().map(|t| format!("({}, {}, {})", t.kind, coq_shape(&t.shape), coq_list(&t.vals))).collect::<Vec<_>>())),
        Outcome::LoadErr(_) => "RLoadErr".into(),
        Outcome::RunErr(_) => "RRunErr".into(),
        Outcome::Panic => "RPanic".into(),
    }
}
