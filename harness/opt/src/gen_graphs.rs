//! Seeded generator of ONNX graph specs for C01: every fusion pattern of src/optimize/fusions.rs
//! (with randomised constant ranks/shapes/values, operand order, axes, reuse of intermediates)
//! embedded in random glue operators.
use crate::{Attr, ConstSpec, Decl, DimDecl, Dt, InSpec, NodeSpec, SplitMix64, Spec, shape_str};

#[derive(Clone, Debug)]
pub struct Val { pub name: String, pub dt: Dt, pub shape: Vec<usize>, pub bound: f64, pub fb: i32, pub konst: bool, pub is_input: bool }

pub struct G {
    pub rng: SplitMix64,
    pub spec: Spec,
    pub vals: Vec<Val>,
    pub n: usize,
    pub exact: bool,
    pub tags: Vec<String>,
    pub force_decl: Option<Decl>,
    /// values that must not become graph outputs (results of random operators)
    pub hidden: Vec<String>,
    /// hidden values observed for run-to-run variation
    pub observe: Vec<String>,
    /// computed values known to be strictly positive (Sqrt(eps + mean of squares))
    pub positive: Vec<String>,
}

pub fn bshape(a: &[usize], b: &[usize]) -> Option<Vec<usize>> {
    let r = a.len().max(b.len());
    let mut out = vec![0; r];
    for k in 0..r {
        let da = if k + a.len() >= r { a[k + a.len() - r] } else { 1 };
        let db = if k + b.len() >= r { b[k + b.len() - r] } else { 1 };
        out[k] = if da == db { da } else if da == 1 { db } else if db == 1 { da } else { return None };
    }
    Some(out)
}
fn prod(s: &[usize]) -> usize { s.iter().product() }

const LIMIT: f64 = 1048576.0;

impl G {
    pub fn new(seed: u64) -> G {
        G { rng: SplitMix64(seed), spec: Spec::default(), vals: vec![], n: 0, exact: true, tags: vec![], force_decl: None, hidden: vec![], observe: vec![], positive: vec![] }
    }
    fn fresh(&mut self, p: &str) -> String { self.n += 1; format!("{}{}", p, self.n) }
    fn track(&mut self, bound: f64, fb: i32) { if !(bound * 2f64.powi(fb) < 4194304.0) { self.exact = false; } }

    pub fn input(&mut self, dt: Dt, shape: &[usize]) -> usize {
        let name = self.fresh("x");
        let decl = match self.force_decl.clone() {
            Some(d) => d,
            None => match self.rng.below(8) { 0..=2 => Decl::Fixed, 3 => Decl::Sym, 4 => Decl::NoShape, _ => self.dyn_decl(shape) },
        };
        let n = prod(shape);
        let (lo, hi) = match dt { Dt::U => (0, 6), Dt::C => (-4, 4), Dt::B => (0, 1), _ => (-3, 3) };
        let data: Vec<f64> = (0..n).map(|_| self.rng.range(lo, hi) as f64).collect();
        self.spec.inputs.push(InSpec { name: name.clone(), dt, shape: shape.to_vec(), decl });
        self.spec.data.push((name.clone(), data));
        self.vals.push(Val { name, dt, shape: shape.to_vec(), bound: hi.abs().max(lo.abs()) as f64, fb: 0, konst: false, is_input: true });
        self.vals.len() - 1
    }
    /// per-dimension declaration: unnamed dynamic (`?`), a symbolic name shared by all dimensions of
    /// that size in the graph (`s<size>`: equal names always have equal sizes, as a conforming caller
    /// must provide), a name of its own, or the fixed size
    pub fn dyn_decl(&mut self, shape: &[usize]) -> Decl {
        let ds = shape.iter().enumerate().map(|(k, d)| match self.rng.below(10) {
            0..=3 => DimDecl::Unnamed,
            4..=5 => DimDecl::Named(format!("s{}", d)),
            6 => DimDecl::Named(format!("own{}_{}", self.n, k)),
            _ => DimDecl::Fixed(*d),
        }).collect();
        Decl::Dims(ds)
    }
    pub fn konst(&mut self, dt: Dt, shape: &[usize], vals: Vec<f64>) -> usize {
        let name = self.fresh("c");
        assert_eq!(vals.len(), prod(shape));
        let bound = vals.iter().fold(0f64, |a, b| a.max(b.abs()));
        let fb = vals.iter().map(|v| { let mut k = 0; let mut x = *v; while x.is_finite() && x.fract() != 0.0 && k < 30 { x *= 2.0; k += 1; } k }).max().unwrap_or(0);
        if fb >= 30 || !bound.is_finite() { self.exact = false; }
        self.spec.consts.push(ConstSpec { name: name.clone(), dt, shape: shape.to_vec(), vals });
        self.vals.push(Val { name, dt, shape: shape.to_vec(), bound, fb, konst: true, is_input: false });
        self.vals.len() - 1
    }
    pub fn scalar(&mut self, v: f64) -> usize { self.konst(Dt::F, &[], vec![v]) }
    pub fn ints(&mut self, v: &[i64]) -> usize { self.konst(Dt::L, &[v.len()], v.iter().map(|x| *x as f64).collect()) }
    /// single-element float constant with a random rank
    pub fn single(&mut self, v: f64) -> usize {
        let r = *self.rng.pick(&[0usize, 0, 0, 1, 1, 2, 3, 4]);
        self.konst(Dt::F, &vec![1; r], vec![v])
    }

    pub fn node_multi(&mut self, op: &str, name: Option<&str>, ins: &[Option<usize>], attrs: Vec<(&str, Attr)>, outs: Vec<(Dt, Vec<usize>, f64, i32)>) -> Vec<usize> {
        let nname = match name { Some(n) => n.to_string(), None => self.fresh("n") };
        let mut out_names = vec![];
        let mut idx = vec![];
        for (dt, shape, bound, fb) in outs {
            let on = self.fresh("t");
            out_names.push(on.clone());
            if dt.is_float() { self.track(bound, fb); }
            self.vals.push(Val { name: on, dt, shape, bound, fb, konst: false, is_input: false });
            idx.push(self.vals.len() - 1);
        }
        self.spec.nodes.push(NodeSpec {
            op: op.to_string(), name: nname,
            ins: ins.iter().map(|i| i.map(|k| self.vals[k].name.clone()).unwrap_or_default()).collect(),
            outs: out_names, attrs: attrs.into_iter().map(|(k, v)| (k.to_string(), v)).collect(),
        });
        idx
    }
    pub fn node(&mut self, op: &str, name: Option<&str>, ins: &[usize], attrs: Vec<(&str, Attr)>, dt: Dt, shape: Vec<usize>, bound: f64, fb: i32) -> usize {
        let ins: Vec<Option<usize>> = ins.iter().map(|i| Some(*i)).collect();
        self.node_multi(op, name, &ins, attrs, vec![(dt, shape, bound, fb)])[0]
    }
    fn inexact(&mut self) { self.exact = false; }

    fn rand_shape(&mut self, min_rank: usize, max_rank: usize) -> Vec<usize> {
        let r = min_rank + self.rng.below(max_rank - min_rank + 1);
        (0..r).map(|_| *self.rng.pick(&[1usize, 2, 2, 3, 3, 4, 5, 6])).collect()
    }
    /// an existing non-constant float value of suitable rank, or a new input
    pub fn pick_float(&mut self, min_rank: usize, max_rank: usize) -> usize {
        let c: Vec<usize> = (0..self.vals.len()).filter(|k| { let v = &self.vals[*k]; v.dt == Dt::F && !v.konst && v.shape.len() >= min_rank && v.shape.len() <= max_rank && prod(&v.shape) <= 400 && prod(&v.shape) > 0 && v.bound <= 64.0 }).collect();
        if !c.is_empty() && self.rng.chance(70) { return *self.rng.pick(&c); }
        let s = self.rand_shape(min_rank, max_rank.min(4));
        self.input(Dt::F, &s)
    }
    fn v(&self, k: usize) -> Val { self.vals[k].clone() }

    // ---------------------------------------------------------------- elementwise helpers
    pub fn binary(&mut self, op: &str, name: Option<&str>, a: usize, b: usize) -> Option<usize> {
        let (va, vb) = (self.v(a), self.v(b));
        let s = bshape(&va.shape, &vb.shape)?;
        let (bound, fb) = match op {
            "Add" | "Sub" => (va.bound + vb.bound, va.fb.max(vb.fb)),
            "Mul" => (va.bound * vb.bound, va.fb + vb.fb),
            "Div" => {
                // Never divide by a COMPUTED tensor that may contain zeros: a fusion may legitimately
                // change the sign of a computed zero (alpha * (a @ b) vs (alpha * a) @ b), and c / +-0
                // = +-inf would turn that into an observable difference.  Denominators are constants,
                // graph inputs (identical in every configuration) or values known to be positive.
                if !(vb.konst || vb.is_input || self.positive.contains(&vb.name)) { return None; }
                // exact only when dividing by a constant power of two
                let p2 = vb.konst && self.spec.consts.iter().find(|c| c.name == vb.name).map(|c| c.vals.iter().all(|v| *v != 0.0 && v.abs().log2().fract() == 0.0)).unwrap_or(false);
                if !p2 { self.inexact(); }
                let minv = self.spec.consts.iter().find(|c| c.name == vb.name).map(|c| c.vals.iter().fold(f64::INFINITY, |a, b| a.min(b.abs()))).unwrap_or(0.25);
                (va.bound / minv.max(1e-3), va.fb + if minv > 0.0 && minv.is_finite() { minv.log2().ceil().max(0.0) as i32 } else { 0 } + vb.fb.max(0))
            }
            _ => { self.inexact(); (va.bound.max(vb.bound).max(1.0), 0) }
        };
        if bound > LIMIT { return None; }
        Some(self.node(op, name, &[a, b], vec![], va.dt, s, bound, fb))
    }
    pub fn unary(&mut self, op: &str, a: usize, attrs: Vec<(&str, Attr)>) -> usize {
        let va = self.v(a);
        let (bound, fb) = match op {
            "Neg" | "Relu" | "Abs" | "Identity" => (va.bound, va.fb),
            "Sigmoid" | "Tanh" | "Erf" | "Softmax" => { self.inexact(); (1.0, 0) }
            "Sqrt" => { self.inexact(); (va.bound.sqrt().max(1.0), 0) }
            "Reciprocal" => { self.inexact(); (1e4, 0) }
            _ => { self.inexact(); (va.bound.max(1.0), 0) }
        };
        self.node(op, None, &[a], attrs, va.dt, va.shape.clone(), bound, fb)
    }

    // ---------------------------------------------------------------- fusion pattern templates
    /// x (+,-,*,/) single-element constant, or Identity(x).  Returns (root value, focus descriptor).
    pub fn t_identity(&mut self, x: usize, root: Option<&str>) -> (usize, String) {
        let vx = self.v(x);
        let op = *self.rng.pick(&["Add", "Add", "Sub", "Mul", "Mul", "Div", "Identity"]);
        if op == "Identity" {
            let y = self.node("Identity", root, &[x], vec![], vx.dt, vx.shape.clone(), vx.bound, vx.fb);
            return (y, format!("identity|Identity|R|0|-|f|{}|{}", vx.shape.len(), 0));
        }
        let neutral = if op == "Add" || op == "Sub" { 0.0 } else { 1.0 };
        let cval: f64 = match self.rng.below(20) {
            0..=11 => neutral,
            12 => 1.0 - neutral,
            13 => -0.0,
            14 => 1e-9,
            15 => 1.0000001f32 as f64,
            16 => -1.0,
            17 => 2.0,
            18 => 0.5,
            _ => 1e-5,
        };
        let mut cshape: Vec<usize> = vec![1; *self.rng.pick(&[0usize, 0, 0, 1, 1, 2, 3, 3, 4])];
        if self.rng.chance(12) && !vx.shape.is_empty() { cshape = vec![*vx.shape.last().unwrap()]; }
        let cdt = if self.rng.chance(6) { Dt::L } else { Dt::F };
        let x = if cdt != vx.dt { let s = vx.shape.clone(); self.input(cdt, &s) } else { x };
        let vx = self.v(x);
        let n = prod(&cshape);
        let c = self.konst(cdt, &cshape, vec![if cdt == Dt::F { cval } else { cval.round() }; n]);
        let left = self.rng.chance(30);
        let (a, b) = if left { (c, x) } else { (x, c) };
        if op == "Div" && left { self.inexact(); }
        let y = match self.binary(op, root, a, b) { Some(y) => y, None => x };
        let cv = self.spec.consts.last().unwrap().vals[0];
        (y, format!("identity|{}|{}|{}|{}|{}|{}|{}", op, if left { "L" } else { "R" }, crate::fval(cv as f32).replace(' ', "_"), shape_str(&cshape), cdt.ch(), vx.shape.len(), n))
    }

    pub fn t_reciprocal(&mut self, x: usize) -> usize {
        // the denominator is a graph input: a computed zero may legitimately differ in sign between
        // the fused and unfused graph (eg. alpha * (a @ b) vs (alpha * a) @ b), and 1 / +-0 = +-inf
        let x = if self.v(x).is_input { x } else { let s = self.v(x).shape.clone(); self.input(Dt::F, &s) };
        let v = *self.rng.pick(&[1.0, 1.0, 1.0, 1.00005, 2.0]);
        let one = self.single(v);
        self.inexact();
        self.binary("Div", None, one, x).unwrap_or(x)
    }
    pub fn t_silu(&mut self, x: usize) -> usize {
        let s = self.unary("Sigmoid", x, vec![]);
        if self.rng.chance(50) { self.binary("Mul", None, x, s).unwrap() } else { self.binary("Mul", None, s, x).unwrap() }
    }
    pub fn t_swish(&mut self, x: usize) -> usize {
        let a = *self.rng.pick(&[1.702, 2.0, 0.5, 1.0]);
        let alpha = self.single(a);
        let ax = if self.rng.chance(50) { self.binary("Mul", None, alpha, x) } else { self.binary("Mul", None, x, alpha) };
        let Some(ax) = ax else { return x };
        let s = self.unary("Sigmoid", ax, vec![]);
        self.binary("Mul", None, x, s).unwrap_or(x)
    }
    pub fn t_gelu(&mut self, x: usize) -> usize {
        let sqrt2 = 2f32.sqrt() as f64;
        let near = self.rng.chance(15);
        let xs = if self.rng.chance(50) { let c = self.single(if near { 1.4143 } else { sqrt2 }); self.binary("Div", None, x, c) }
                 else { let c = self.single(if near { 0.7070 } else { (1.0 / 2f32.sqrt()) as f64 }); self.binary("Mul", None, x, c) };
        let Some(xs) = xs else { return x };
        let e = self.unary("Erf", xs, vec![]);
        let one = self.single(1.0);
        let e1 = self.binary("Add", None, e, one).unwrap();
        let m = if self.rng.chance(50) { self.binary("Mul", None, x, e1) } else { self.binary("Mul", None, e1, x) };
        let Some(m) = m else { return x };
        let half = self.single(0.5);
        self.binary("Mul", None, m, half).unwrap_or(m)
    }
    pub fn t_approx_gelu(&mut self, x: usize) -> usize {
        let three = self.single(3.0);
        let Some(p) = self.binary("Pow", None, x, three) else { return x };
        let k = self.single(0.044715);
        let Some(pk) = self.binary("Mul", None, p, k) else { return x };
        let Some(s) = self.binary("Add", None, x, pk) else { return x };
        let c = self.single((2.0f32 / std::f32::consts::PI).sqrt() as f64);
        let Some(cs) = self.binary("Mul", None, c, s) else { return x };
        let t = self.unary("Tanh", cs, vec![]);
        let one = self.single(1.0);
        let t1 = self.binary("Add", None, one, t).unwrap();
        let half = self.single(0.5);
        let Some(xh) = self.binary("Mul", None, x, half) else { return x };
        self.binary("Mul", None, xh, t1).unwrap_or(x)
    }

    fn reduce_mean(&mut self, x: usize, axis: i64, axes_as_input: bool, keepdims: bool) -> usize {
        let vx = self.v(x);
        let r = vx.shape.len() as i64;
        let ax = ((axis % r) + r) % r;
        let mut s = vx.shape.clone();
        if keepdims { s[ax as usize] = 1; } else { s.remove(ax as usize); }
        let n = vx.shape[ax as usize];
        if !(n as f64).log2().fract().eq(&0.0) { self.inexact(); }
        let fb = vx.fb + (n as f64).log2().ceil() as i32;
        let mut attrs = vec![("keepdims", Attr::Int(keepdims as i64))];
        if axes_as_input {
            let a = self.ints(&[axis]);
            self.node("ReduceMean", None, &[x, a], attrs, Dt::F, s, vx.bound, fb)
        } else {
            attrs.push(("axes", Attr::Ints(vec![axis])));
            self.node("ReduceMean", None, &[x], attrs, Dt::F, s, vx.bound, fb)
        }
    }
    fn norm_axis(&mut self, rank: usize) -> i64 {
        match self.rng.below(10) { 0..=4 => -1, 5..=7 => rank as i64 - 1, _ => self.rng.below(rank) as i64 }
    }
    pub fn t_layernorm(&mut self, x: usize) -> usize {
        let vx = self.v(x);
        if vx.shape.is_empty() { return x; }
        let r = vx.shape.len();
        let as_input = self.rng.chance(35);
        let ax1 = self.norm_axis(r);
        let ax2 = if self.rng.chance(85) { ax1 } else { self.norm_axis(r) };
        let mean = self.reduce_mean(x, ax1, as_input, true);
        let Some(center) = self.binary("Sub", None, x, mean) else { return x };
        let two = self.single(2.0);
        let Some(sq) = self.binary("Pow", None, center, two) else { return x };
        let var = self.reduce_mean(sq, ax2, as_input, true);
        let eps = self.single(*self.rng.clone().pick(&[1e-5, 1e-6, 0.001]));
        let ve = if self.rng.chance(50) { self.binary("Add", None, eps, var) } else { self.binary("Add", None, var, eps) };
        let Some(ve) = ve else { return x };
        let sd = self.unary("Sqrt", ve, vec![]);
        let sdn = self.vals[sd].name.clone();
        self.positive.push(sdn);
        let Some(nrm) = self.binary("Div", None, center, sd) else { return x };
        let d = *vx.shape.last().unwrap();
        let sshape = if self.rng.chance(80) { vec![d] } else { vec![1, d] };
        let sv: Vec<f64> = (0..d).map(|_| self.rng.range(-2, 3) as f64).collect();
        let scale = self.konst(Dt::F, &sshape, sv);
        let Some(y) = self.binary("Mul", None, nrm, scale) else { return nrm };
        if self.rng.chance(60) {
            let bv: Vec<f64> = (0..d).map(|_| self.rng.range(-2, 2) as f64).collect();
            let bias = self.konst(Dt::F, &[d], bv);
            return self.binary("Add", None, y, bias).unwrap_or(y);
        }
        y
    }
    pub fn t_rmsnorm(&mut self, x: usize) -> usize {
        let vx = self.v(x);
        if vx.shape.is_empty() { return x; }
        let two = self.single(2.0);
        let Some(sq) = self.binary("Pow", None, x, two) else { return x };
        let ax = self.norm_axis(vx.shape.len());
        let as_input = self.rng.chance(35);
        let ms = self.reduce_mean(sq, ax, as_input, true);
        let eps = self.single(1e-5);
        let Some(ve) = self.binary("Add", None, eps, ms) else { return x };
        let sd = self.unary("Sqrt", ve, vec![]);
        let rc = self.unary("Reciprocal", sd, vec![]);
        let Some(xn) = self.binary("Mul", None, x, rc) else { return x };
        let d = *vx.shape.last().unwrap();
        let sv: Vec<f64> = (0..d).map(|_| self.rng.range(-2, 3) as f64).collect();
        let scale = self.konst(Dt::F, &[d], sv);
        self.binary("Mul", None, xn, scale).unwrap_or(xn)
    }

    pub fn matmul(&mut self, name: Option<&str>, a: usize, b: usize) -> Option<usize> {
        let (va, vb) = (self.v(a), self.v(b));
        if va.shape.len() < 2 || vb.shape.len() < 2 { return None; }
        let (m, k) = (va.shape[va.shape.len() - 2], va.shape[va.shape.len() - 1]);
        let (k2, n) = (vb.shape[vb.shape.len() - 2], vb.shape[vb.shape.len() - 1]);
        if k != k2 { return None; }
        let mut s = bshape(&va.shape[..va.shape.len() - 2], &vb.shape[..vb.shape.len() - 2])?;
        s.push(m); s.push(n);
        let bound = va.bound * vb.bound * k as f64;
        if bound > LIMIT { return None; }
        Some(self.node("MatMul", name, &[a, b], vec![], Dt::F, s, bound, va.fb + vb.fb))
    }
    /// a float matrix value [.., m, k] and a weight [k, n] (constant or input)
    fn mm_operands(&mut self, x: Option<usize>) -> (usize, usize) {
        let a = match x { Some(x) if self.v(x).shape.len() >= 2 && self.v(x).dt == Dt::F => x, _ => { let s = self.rand_shape(2, 4); self.input(Dt::F, &s) } };
        let k = *self.v(a).shape.last().unwrap();
        let n = *self.rng.pick(&[1usize, 2, 3, 4]);
        let b = if self.rng.chance(60) {
            let vals = (0..k * n).map(|_| self.rng.range(-2, 2) as f64).collect();
            self.konst(Dt::F, &[k, n], vals)
        } else { self.input(Dt::F, &[k, n]) };
        (a, b)
    }
    pub fn t_matmul_add(&mut self, x: Option<usize>, root: Option<&str>) -> (usize, String, usize) {
        let (a, b) = self.mm_operands(x);
        let mm = self.matmul(Some("mm"), a, b).unwrap_or(a);
        let n = *self.v(mm).shape.last().unwrap();
        let kind = self.rng.below(10);
        let bshape_: Vec<usize> = match kind { 0..=5 => vec![n], 6 => vec![1, n], 7 => vec![], 8 => vec![1], _ => vec![n] };
        let is_const = kind != 9;
        let cnt = prod(&bshape_);
        // a single-element zero bias would be removed by IdentityFusion first
        let bias = if is_const { let vals = (0..cnt).map(|_| { let v = self.rng.range(-3, 3); if cnt == 1 && v == 0 { 2.0 } else { v as f64 } }).collect(); self.konst(Dt::F, &bshape_, vals) } else { self.input(Dt::F, &bshape_) };
        let left = self.rng.chance(30);
        let y = if left { self.binary("Add", root, bias, mm) } else { self.binary("Add", root, mm, bias) }.unwrap_or(mm);
        (y, format!("matmul_add|{}|{}|{}", if is_const { "const" } else { "value" }, shape_str(&bshape_), if left { "L" } else { "R" }), mm)
    }
    pub fn t_matmul_scale(&mut self, x: Option<usize>) -> usize {
        let (mut a, mut b) = self.mm_operands(x);
        let scales = [2.0, 0.5, 4.0, 0.25, 1.0, 3.0, -1.0];
        for side in 0..2 {
            if self.rng.chance(40) {
                let c = self.single(*self.rng.clone().pick(&scales));
                let t = if side == 0 { a } else { b };
                if self.v(t).konst { continue; }
                let op = if self.rng.chance(70) { "Mul" } else { "Div" };
                let r = if op == "Mul" && self.rng.chance(40) { self.binary(op, None, c, t) } else { self.binary(op, None, t, c) };
                if let Some(r) = r { if side == 0 { a = r } else { b = r } }
            }
        }
        let Some(mm) = self.matmul(None, a, b) else { return a };
        if self.rng.chance(70) {
            let c = self.single(*self.rng.clone().pick(&scales));
            let op = if self.rng.chance(70) { "Mul" } else { "Div" };
            let r = if self.rng.chance(25) { self.binary(op, None, c, mm) } else { self.binary(op, None, mm, c) };
            return r.unwrap_or(mm);
        }
        mm
    }
    pub fn t_matmul_integer(&mut self) -> usize {
        let (m, k, n) = (1 + self.rng.below(3), 1 + self.rng.below(4), 1 + self.rng.below(3));
        let a = self.input(Dt::U, &[m, k]);
        let bdt = if self.rng.chance(70) { Dt::C } else { Dt::U };
        let bv = (0..k * n).map(|_| if bdt == Dt::C { self.rng.range(-3, 3) } else { self.rng.range(0, 5) } as f64).collect();
        let b = self.konst(bdt, &[k, n], bv);
        let az = self.konst(Dt::U, &[], vec![self.rng.clone().range(0, 3) as f64]);
        let bz = self.konst(bdt, &[], vec![self.rng.clone().range(0, 2) as f64]);
        let with_zero = self.rng.chance(75);
        let ins: Vec<Option<usize>> = if with_zero { vec![Some(a), Some(b), Some(az), Some(bz)] } else { vec![Some(a), Some(b)] };
        let mi = self.node_multi("MatMulInteger", None, &ins, vec![], vec![(Dt::I, vec![m, n], 1000.0, 0)])[0];
        let f = self.node("Cast", None, &[mi], vec![("to", Attr::Int(1))], Dt::F, vec![m, n], 1000.0, 0);
        let sshape: Vec<usize> = match self.rng.below(6) { 0..=1 => vec![], 2 => vec![1], 3 => vec![n], 4 => vec![1, n], _ => vec![1, 1, 1] };
        let cnt = prod(&sshape);
        let sv = (0..cnt).map(|_| *self.rng.pick(&[0.5, 2.0, 0.25, 1.0])).collect();
        let scale = if self.rng.chance(80) { self.konst(Dt::F, &sshape, sv) } else { self.input(Dt::F, &sshape) };
        self.binary("Mul", None, f, scale).unwrap_or(f)
    }
    pub fn t_conv_add(&mut self) -> usize {
        let (n, c, h, w) = (1 + self.rng.below(2), 1 + self.rng.below(3), 2 + self.rng.below(4), 2 + self.rng.below(4));
        let (o, kh, kw) = (1 + self.rng.below(3), 1 + self.rng.below(2.min(h)), 1 + self.rng.below(2.min(w)));
        let x = self.input(Dt::F, &[n, c, h, w]);
        let wv = (0..o * c * kh * kw).map(|_| self.rng.range(-2, 2) as f64).collect();
        let wt = self.konst(Dt::F, &[o, c, kh, kw], wv);
        let (oh, ow) = (h - kh + 1, w - kw + 1);
        let with_bias = self.rng.chance(15);
        let mut ins = vec![Some(x), Some(wt)];
        if with_bias { let bv = (0..o).map(|_| self.rng.range(-2, 2) as f64).collect(); let b = self.konst(Dt::F, &[o], bv); ins.push(Some(b)); }
        let bound = 3.0 * 2.0 * (c * kh * kw) as f64 + 2.0;
        let conv = self.node_multi("Conv", None, &ins, vec![("kernel_shape", Attr::Ints(vec![kh as i64, kw as i64]))], vec![(Dt::F, vec![n, o, oh, ow], bound, 0)])[0];
        let bs: Vec<usize> = match self.rng.below(10) { 0..=4 => vec![1, o, 1, 1], 5 => vec![o, 1, 1], 6 => vec![1, 1, 1, 1], 7 => vec![1, 1, 1, ow], 8 => vec![], _ => vec![1, o, 1, 1] };
        let cnt = prod(&bs);
        let bv = (0..cnt).map(|_| self.rng.range(-3, 3) as f64).collect();
        let bias = if self.rng.chance(85) { self.konst(Dt::F, &bs, bv) } else { self.input(Dt::F, &bs) };
        let y = if self.rng.chance(40) { self.binary("Add", None, bias, conv) } else { self.binary("Add", None, conv, bias) };
        y.unwrap_or(conv)
    }
    pub fn t_conv_integer(&mut self) -> usize {
        let (n, c, h, w) = (1, 1 + self.rng.below(2), 2 + self.rng.below(3), 2 + self.rng.below(3));
        let (o, kh, kw) = (1 + self.rng.below(2), 1 + self.rng.below(2), 1 + self.rng.below(2));
        let x = self.input(Dt::U, &[n, c, h, w]);
        let wv = (0..o * c * kh * kw).map(|_| self.rng.range(0, 4) as f64).collect();
        let wt = self.konst(Dt::U, &[o, c, kh, kw], wv);
        let xz = self.konst(Dt::U, &[], vec![self.rng.clone().range(0, 2) as f64]);
        let wz = self.konst(Dt::U, &[], vec![self.rng.clone().range(0, 2) as f64]);
        let (oh, ow) = (h - kh + 1, w - kw + 1);
        let ci = self.node("ConvInteger", None, &[x, wt, xz, wz], vec![("kernel_shape", Attr::Ints(vec![kh as i64, kw as i64]))], Dt::I, vec![n, o, oh, ow], 1000.0, 0);
        let f = self.node("Cast", None, &[ci], vec![("to", Attr::Int(1))], Dt::F, vec![n, o, oh, ow], 1000.0, 0);
        let sshape: Vec<usize> = match self.rng.below(5) { 0..=1 => vec![], 2 => vec![1], 3 => vec![1, 1, 1, 1, 1], _ => vec![1, o, 1, 1] };
        let cnt = prod(&sshape);
        let sv = (0..cnt).map(|_| *self.rng.pick(&[0.5, 2.0, 0.25])).collect();
        let scale = self.konst(Dt::F, &sshape, sv);
        self.binary("Mul", None, f, scale).unwrap_or(f)
    }
    fn softmax(&mut self, x: usize, axis: i64) -> usize { self.unary("Softmax", x, vec![("axis", Attr::Int(axis))]) }
    pub fn t_safe_softmax(&mut self, x: usize) -> usize {
        let vx = self.v(x);
        if vx.shape.is_empty() { return x; }
        // mask with -inf rows so that Softmax produces NaN
        let d = *vx.shape.last().unwrap();
        let rows = if vx.shape.len() >= 2 { vx.shape[vx.shape.len() - 2] } else { 1 };
        let mut mv = vec![0.0; rows * d];
        for r in 0..rows { if self.rng.chance(35) { for k in 0..d { mv[r * d + k] = f64::NEG_INFINITY; } } else if self.rng.chance(30) { mv[r * d + self.rng.below(d)] = f64::NEG_INFINITY; } }
        let ms: Vec<usize> = if vx.shape.len() >= 2 { vec![rows, d] } else { vec![d] };
        let mask = self.konst(Dt::F, &ms, mv);
        self.inexact();
        let Some(xm) = self.binary("Add", None, x, mask) else { return x };
        let axis = if self.rng.chance(75) { -1 } else { self.rng.below(vx.shape.len()) as i64 };
        let s = self.softmax(xm, axis);
        let nan = self.node("IsNaN", None, &[s], vec![], Dt::B, vx.shape.clone(), 1.0, 0);
        let z = *self.rng.pick(&[0.0, 0.0, 0.0, 0.00005, 1.0]);
        let zero = self.single(z);
        let ws = bshape(&vx.shape, &self.v(zero).shape).unwrap();
        self.node("Where", None, &[nan, zero, s], vec![], Dt::F, ws, 1.0, 0)
    }
    pub fn t_add_softmax(&mut self, x: usize) -> usize {
        let vx = self.v(x);
        if vx.shape.is_empty() { return x; }
        let ms = if self.rng.chance(50) { vx.shape.clone() } else { vx.shape[vx.shape.len() - 1..].to_vec() };
        let mask = if self.rng.chance(50) { let v = (0..prod(&ms)).map(|_| *self.rng.pick(&[0.0, 0.0, -1e4, -2.0])).collect(); self.konst(Dt::F, &ms, v) } else { self.input(Dt::F, &ms) };
        let Some(s) = self.binary("Add", None, x, mask) else { return x };
        let axis = match self.rng.below(4) { 0 | 1 => -1, 2 => vx.shape.len() as i64 - 1, _ => self.rng.below(vx.shape.len()) as i64 };
        self.softmax(s, axis)
    }

    /// Unsqueeze -> Expand -> Reshape.  `tile`: the unsqueezed axis is placed BEFORE the repeated
    /// axis, so the reshape tiles instead of interleaving.
    pub fn t_repeat_interleave(&mut self, x: usize, root: Option<&str>, variant: usize) -> (usize, String, Vec<usize>) {
        let vx = self.v(x);
        let r = vx.shape.len();
        if r == 0 { return (x, String::new(), vec![]); }
        let ax = self.rng.below(r);
        let k = 2 + self.rng.below(2);
        // variant 0: interleave (axis+1), 1: tile (axis), 2: random unsqueeze axis, 3: expand more than one axis
        let uax = match variant { 0 => ax + 1, 1 => ax, _ => self.rng.below(r + 1) };
        let neg_axis = self.rng.chance(25);
        let axes = self.ints(&[if neg_axis { uax as i64 - (r as i64 + 1) } else { uax as i64 }]);
        let mut us = vx.shape.clone(); us.insert(uax, 1);
        let t1 = self.node("Unsqueeze", None, &[x, axes], vec![], vx.dt, us.clone(), vx.bound, vx.fb);
        let mut es = us.clone(); es[uax] = k;
        if variant == 3 { for d in es.iter_mut() { if *d == 1 && self.rng.chance(50) { *d = 2; } } }
        let es_given: Vec<i64> = if self.rng.chance(30) { es.iter().enumerate().map(|(i, d)| if i == uax || us[i] != *d { *d as i64 } else { 1 }).collect() } else { es.iter().map(|d| *d as i64).collect() };
        let esc = self.ints(&es_given);
        let t2 = self.node("Expand", None, &[t1, esc], vec![], vx.dt, es.clone(), vx.bound, vx.fb);
        let mut os = vx.shape.clone();
        os[ax] *= k;
        if prod(&os) != prod(&es) { // variant 3 / random: fall back to a full flatten that keeps the element count
            os = vec![prod(&es)];
        }
        let os_given: Vec<i64> = if self.rng.chance(25) && !os.is_empty() { let mut g: Vec<i64> = os.iter().map(|d| *d as i64).collect(); let i = self.rng.below(g.len()); g[i] = -1; g } else { os.iter().map(|d| *d as i64).collect() };
        let osc = self.ints(&os_given);
        let y = self.node("Reshape", root, &[t2, osc], vec![], vx.dt, os.clone(), vx.bound, vx.fb);
        (y, format!("repeat_interleave|{}|{}|{}|{}", shape_str(&vx.shape), uax, shape_str(&es), shape_str(&os)), vec![t1, t2])
    }
    pub fn t_gqa(&mut self) -> usize {
        let (b, kv, s, d, k, s2) = (1 + self.rng.below(2), 1 + self.rng.below(2), 1 + self.rng.below(3), 1 + self.rng.below(3), 2 + self.rng.below(2), 1 + self.rng.below(3));
        let x = self.input(Dt::F, &[b, kv, s, d]);
        let variant = if self.rng.chance(75) { 0 } else { 1 };
        let (rep, _, _) = self.t_repeat_interleave_axis(x, 1, k, variant);
        if self.rng.chance(50) {
            let a = self.input(Dt::F, &[b, kv * k, s2, s]);
            self.matmul(None, a, rep).unwrap_or(rep)
        } else {
            let a = self.input(Dt::F, &[b, kv * k, s2, d]);
            let perm = if self.rng.chance(85) { vec![0, 1, 3, 2] } else { vec![1, 0, 3, 2] };
            let t = self.transpose(rep, &perm);
            let Some(mm) = self.matmul(None, a, t) else { return rep };
            let c = self.single(*self.rng.clone().pick(&[0.5, 0.25, 2.0]));
            self.binary("Mul", None, mm, c).unwrap_or(mm)
        }
    }
    fn t_repeat_interleave_axis(&mut self, x: usize, ax: usize, k: usize, variant: usize) -> (usize, String, Vec<usize>) {
        let vx = self.v(x);
        let uax = if variant == 0 { ax + 1 } else { ax };
        let axes = self.ints(&[uax as i64]);
        let mut us = vx.shape.clone(); us.insert(uax, 1);
        let t1 = self.node("Unsqueeze", None, &[x, axes], vec![], vx.dt, us.clone(), vx.bound, vx.fb);
        let mut es = us.clone(); es[uax] = k;
        let esc = self.ints(&es.iter().map(|d| *d as i64).collect::<Vec<_>>());
        let t2 = self.node("Expand", None, &[t1, esc], vec![], vx.dt, es, vx.bound, vx.fb);
        let mut os = vx.shape.clone(); os[ax] *= k;
        let osc = self.ints(&os.iter().map(|d| *d as i64).collect::<Vec<_>>());
        let y = self.node("Reshape", None, &[t2, osc], vec![], vx.dt, os, vx.bound, vx.fb);
        (y, String::new(), vec![t1, t2])
    }

    pub fn transpose(&mut self, x: usize, perm: &[usize]) -> usize {
        let vx = self.v(x);
        let s: Vec<usize> = perm.iter().map(|p| vx.shape[*p]).collect();
        self.node("Transpose", None, &[x], vec![("perm", Attr::Ints(perm.iter().map(|p| *p as i64).collect()))], vx.dt, s, vx.bound, vx.fb)
    }
    fn rand_perm(&mut self, r: usize) -> Vec<usize> {
        let mut p: Vec<usize> = (0..r).collect();
        for i in (1..r).rev() { let j = self.rng.below(i + 1); p.swap(i, j); }
        p
    }
    pub fn transpose_any(&mut self, x: usize) -> usize {
        let vx = self.v(x);
        let r = vx.shape.len();
        if self.rng.chance(20) {
            let s: Vec<usize> = vx.shape.iter().rev().cloned().collect();
            return self.node("Transpose", None, &[x], vec![], vx.dt, s, vx.bound, vx.fb);
        }
        let p = self.rand_perm(r);
        self.transpose(x, &p)
    }
    /// Transpose feeding MatMul / Concat / Slice / Split / Expand.  Returns (root, descriptor, transposes)
    pub fn t_transpose(&mut self, x: usize, root: Option<&str>, consumer: usize) -> (usize, String, Vec<usize>) {
        let vx = self.v(x);
        if vx.shape.len() < 2 { return (x, String::new(), vec![]); }
        match consumer {
            0 => { // MatMul with transposed lhs and/or rhs
                let which = self.rng.below(3);
                let r = vx.shape.len();
                let mut perm: Vec<usize> = (0..r).collect(); perm.swap(r - 1, r - 2);
                let mut ts = vec![];
                let a = if which != 1 { let t = self.transpose(x, &perm); ts.push(t); t } else { x };
                let k = *self.v(a).shape.last().unwrap();
                let n = 1 + self.rng.below(3);
                let b = if which != 0 { let w = self.input(Dt::F, &[n, k]); let t = self.transpose(w, &[1, 0]); ts.push(t); t } else { self.input(Dt::F, &[k, n]) };
                let y = self.matmul(root, a, b).unwrap_or(a);
                (y, format!("transpose_matmul|{}", ["L", "R", "B"][which]), ts)
            }
            1 => { // Concat
                let t = self.transpose_any(x);
                let vt = self.v(t);
                let ax = self.rng.below(vt.shape.len());
                let other = if self.rng.chance(50) { t } else { let s = vt.shape.clone(); self.input(Dt::F, &s) };
                let mut s = vt.shape.clone(); s[ax] += self.v(other).shape[ax];
                let y = self.node("Concat", root, &[t, other], vec![("axis", Attr::Int(ax as i64))], vt.dt, s, vt.bound.max(self.v(other).bound), vt.fb);
                (y, "transpose_concat".into(), vec![t])
            }
            2 => { // Slice
                let t = self.transpose_any(x);
                let y = self.slice(t, root);
                (y, "transpose_slice".into(), vec![t])
            }
            3 => { // Split
                let t = self.transpose_any(x);
                let vt = self.v(t);
                let ax = self.rng.below(vt.shape.len());
                let d = vt.shape[ax];
                if d < 2 { return (t, String::new(), vec![]); }
                let a = 1 + self.rng.below(d - 1);
                let sp = self.ints(&[a as i64, (d - a) as i64]);
                let (mut s1, mut s2) = (vt.shape.clone(), vt.shape.clone()); s1[ax] = a; s2[ax] = d - a;
                let o = self.node_multi("Split", root, &[Some(t), Some(sp)], vec![("axis", Attr::Int(ax as i64))], vec![(vt.dt, s1, vt.bound, vt.fb), (vt.dt, s2, vt.bound, vt.fb)]);
                (o[self.rng.below(2)], "transpose_split".into(), vec![t])
            }
            _ => { // Expand
                let t = self.transpose_any(x);
                let vt = self.v(t);
                let mut es: Vec<usize> = vt.shape.clone();
                es.insert(0, 2);
                let esc = self.ints(&es.iter().map(|d| *d as i64).collect::<Vec<_>>());
                let y = self.node("Expand", root, &[t, esc], vec![], vt.dt, es, vt.bound, vt.fb);
                (y, "transpose_expand".into(), vec![t])
            }
        }
    }
    pub fn slice(&mut self, x: usize, name: Option<&str>) -> usize {
        let vx = self.v(x);
        if vx.shape.is_empty() { return x; }
        let ax = self.rng.below(vx.shape.len());
        let d = vx.shape[ax];
        let st = self.rng.below(d);
        let en = st + 1 + self.rng.below(d - st);
        let (s, e, a) = (self.ints(&[st as i64]), self.ints(&[en as i64]), self.ints(&[ax as i64]));
        let mut sh = vx.shape.clone(); sh[ax] = en - st;
        self.node("Slice", name, &[x, s, e, a], vec![], vx.dt, sh, vx.bound, vx.fb)
    }

    /// Shape(x) -> Slice -> ... / Shape arithmetic -> Equal -> Where.  Returns a float or int value.
    pub fn t_shape(&mut self, x: usize) -> usize {
        let vx = self.v(x);
        let r = vx.shape.len();
        let sh = self.node("Shape", None, &[x], vec![], Dt::I, vec![r], 6.0, 0);
        if r == 0 { return sh; }
        match self.rng.below(5) {
            0 => { // Slice(Shape(x), starts, ends)
                let st = self.rng.range(-(r as i64), r as i64);
                let en = *self.rng.pick(&[r as i64, i32::MAX as i64, st + 1, -1, 0]);
                let (lo, hi) = (if st < 0 { (st + r as i64).max(0) } else { st.min(r as i64) }, if en < 0 { (en + r as i64).max(0) } else { en.min(r as i64) });
                let n = (hi - lo).max(0) as usize;
                let (s, e) = (self.ints(&[st]), self.ints(&[en]));
                self.node("Slice", None, &[sh, s, e], vec![], Dt::I, vec![n], 6.0, 0)
            }
            1 | 2 => { // dim arithmetic -> Equal -> Where / Cast
                let i = self.rng.range(-(r as i64), r as i64 - 1);
                let idx = self.konst(Dt::L, &[], vec![i as f64]);
                let mut d = self.node("Gather", None, &[sh, idx], vec![("axis", Attr::Int(0))], Dt::I, vec![], 6.0, 0);
                for _ in 0..self.rng.below(3) {
                    let c = self.konst(Dt::L, &[], vec![self.rng.clone().range(-3, 3) as f64]);
                    d = match self.rng.below(5) {
                        0 => self.node("Mul", None, &[d, c], vec![], Dt::I, vec![], 400.0, 0),
                        1 => self.node("Add", None, &[d, c], vec![], Dt::I, vec![], 400.0, 0),
                        2 => self.node("Sub", None, &[c, d], vec![], Dt::I, vec![], 400.0, 0),
                        3 => self.node("Neg", None, &[d], vec![], Dt::I, vec![], 400.0, 0),
                        _ => self.node("Sub", None, &[d, c], vec![], Dt::I, vec![], 400.0, 0),
                    };
                }
                if self.rng.chance(25) { return d; }
                let c = self.konst(Dt::L, &[], vec![self.rng.clone().range(-6, 8) as f64]);
                let op = *self.rng.pick(&["Equal", "Equal", "Less", "Greater"]);
                let cond = self.node(op, None, &[d, c], vec![], Dt::B, vec![], 1.0, 0);
                let y = self.unary("Neg", x, vec![]);
                let ws = vx.shape.clone();
                if vx.dt == Dt::F { self.node("Where", None, &[cond, x, y], vec![], Dt::F, ws, vx.bound, vx.fb) } else { cond }
            }
            3 => { // Reshape(y, Concat(Slice(Shape(x)), [-1]))
                let st = self.rng.below(r);
                let (s, e) = (self.ints(&[0]), self.ints(&[st as i64 + 1]));
                let lead = self.node("Slice", None, &[sh, s, e], vec![], Dt::I, vec![st + 1], 6.0, 0);
                let m1 = self.ints(&[-1]);
                let tgt = self.node("Concat", None, &[lead, m1], vec![("axis", Attr::Int(0))], Dt::I, vec![st + 2], 6.0, 0);
                let mut os: Vec<usize> = vx.shape[..=st].to_vec(); os.push(prod(&vx.shape[st + 1..]));
                self.node("Reshape", None, &[x, tgt], vec![], vx.dt, os, vx.bound, vx.fb)
            }
            _ => { // Expand(c, Shape(x)) + x
                let c = self.single(*self.rng.clone().pick(&[0.0, 1.0, 2.0]));
                let e = self.node("Expand", None, &[c, sh], vec![], Dt::F, vx.shape.clone(), 2.0, 0);
                if vx.dt == Dt::F { self.binary("Add", None, x, e).unwrap_or(e) } else { e }
            }
        }
    }
    pub fn t_cast(&mut self, x: usize) -> usize {
        let vx = self.v(x);
        let to = if self.rng.chance(70) { vx.dt } else if vx.dt == Dt::F { Dt::I } else { Dt::F };
        let code = match to { Dt::F => 1, Dt::I => *self.rng.pick(&[6i64, 7]), Dt::L => 7, Dt::U => 2, Dt::C => 3, Dt::B => 9 };
        let odt = match to { Dt::L | Dt::B => Dt::I, d => d };
        self.node("Cast", None, &[x], vec![("to", Attr::Int(code))], odt, vx.shape.clone(), vx.bound, if odt == Dt::F { vx.fb } else { 0 })
    }
    pub fn t_reduce_mean_axes(&mut self, x: usize) -> usize {
        let vx = self.v(x);
        if vx.shape.is_empty() { return x; }
        let ax = self.rng.range(-(vx.shape.len() as i64), vx.shape.len() as i64 - 1);
        let kd = self.rng.chance(50);
        self.reduce_mean(x, ax, true, kd)
    }
    pub fn t_const_subgraph(&mut self, x: usize) -> usize {
        let vx = self.v(x);
        let s = if vx.shape.is_empty() || self.rng.chance(50) { vec![] } else { vec![*vx.shape.last().unwrap()] };
        let n = prod(&s);
        let (a, b) = ((0..n).map(|_| self.rng.range(-2, 2) as f64).collect(), (0..n).map(|_| self.rng.range(-2, 2) as f64).collect());
        let (ca, cb) = (self.konst(vx.dt, &s, a), self.konst(vx.dt, &s, b));
        let op = *self.rng.pick(&["Add", "Sub", "Mul"]);
        let Some(c) = self.binary(op, None, ca, cb) else { return x };
        let op2 = *self.rng.pick(&["Add", "Sub", "Mul"]);
        self.binary(op2, None, x, c).unwrap_or(x)
    }
    /// y = x + (r + x) * 0 with r a random operator: the graph outputs stay deterministic; the hidden
    /// value h = r + x is observed for run-to-run variation (it stops varying if the optimizer
    /// folds the random operator into a constant)
    pub fn t_random(&mut self, x: usize) -> usize {
        let vx = self.v(x);
        let s: Vec<i64> = vx.shape.iter().map(|d| *d as i64).collect();
        let op = *self.rng.pick(&["RandomUniform", "RandomNormal"]);
        let mut attrs = vec![("shape", Attr::Ints(s))];
        if self.rng.chance(25) { attrs.push(("seed", Attr::Float(1.0))); }
        let r = self.node_multi(op, None, &[], attrs, vec![(Dt::F, vx.shape.clone(), 100.0, 0)])[0];
        self.inexact();
        let h = self.node("Add", None, &[r, x], vec![], Dt::F, vx.shape.clone(), 100.0, 0);
        let (rn, hn) = (self.vals[r].name.clone(), self.vals[h].name.clone());
        self.hidden.push(rn);
        self.hidden.push(hn.clone());
        self.observe.push(hn);
        let zero = self.scalar(0.0);
        let z = self.node("Mul", None, &[h, zero], vec![], Dt::F, vx.shape.clone(), 100.0, 0);
        self.hidden.push(self.vals[z].name.clone());
        self.node("Add", None, &[x, z], vec![], Dt::F, vx.shape.clone(), vx.bound, vx.fb)
    }

    /// Two fresh inputs of equal rank whose dimensions are declared unnamed (`?`), with shared or own
    /// symbolic names, or fixed, and whose run-time sizes differ wherever the declaration allows;
    /// consumed by Shape / Size / Gather / Slice / Expand / Reshape (ComputeShapeFusion,
    /// ShapeSliceToConstant and shape-inference constants with >= 2 dynamic inputs).
    pub fn t_dyn_shapes(&mut self) -> usize {
        let r = 1 + self.rng.below(3);
        let sa = self.rand_shape(r, r);
        let mut sb = self.rand_shape(r, r);
        for k in 0..r { if self.rng.chance(35) { sb[k] = sa[k]; } }
        let saved = self.force_decl.take();
        let da = self.dyn_decl(&sa); self.force_decl = Some(da); let x = self.input(Dt::F, &sa);
        let db = self.dyn_decl(&sb); self.force_decl = Some(db); let y = self.input(Dt::F, &sb);
        self.force_decl = saved;
        let (first, second) = if self.rng.chance(75) { (x, y) } else { (y, x) };
        let vs = self.v(second);
        let shx = self.node("Shape", None, &[first], vec![], Dt::I, vec![r], 6.0, 0);
        let shy = self.node("Shape", None, &[second], vec![], Dt::I, vec![r], 6.0, 0);
        let mut last = shy;
        for _ in 0..(1 + self.rng.below(3)) {
            last = match self.rng.below(7) {
                0 => self.node("Size", None, &[second], vec![], Dt::I, vec![], 1300.0, 0),
                1 => { let i = self.rng.range(-(r as i64), r as i64 - 1); let idx = self.konst(Dt::L, &[], vec![i as f64]);
                       self.node("Gather", None, &[shy, idx], vec![("axis", Attr::Int(0))], Dt::I, vec![], 6.0, 0) }
                2 => self.node("Add", None, &[shx, shy], vec![], Dt::I, vec![r], 12.0, 0),
                3 => { let c = self.scalar(1.0); let e = self.node("Expand", None, &[c, shy], vec![], Dt::F, vs.shape.clone(), 1.0, 0);
                       self.binary("Add", None, second, e).unwrap_or(e) }
                4 => { let (s0, e0) = (self.ints(&[0]), self.ints(&[1]));
                       let lead = self.node("Slice", None, &[shy, s0, e0], vec![], Dt::I, vec![1], 6.0, 0);
                       let m1 = self.ints(&[-1]);
                       let tgt = self.node("Concat", None, &[lead, m1], vec![("axis", Attr::Int(0))], Dt::I, vec![2], 6.0, 0);
                       let os = vec![vs.shape[0], vs.shape[1..].iter().product()];
                       self.node("Reshape", None, &[second, tgt], vec![], Dt::F, os, vs.bound, vs.fb) }
                5 => { let st = self.rng.below(r) as i64; let (s0, e0) = (self.ints(&[st]), self.ints(&[i32::MAX as i64]));
                       self.node("Slice", None, &[shy, s0, e0], vec![], Dt::I, vec![r - st as usize], 6.0, 0) }
                _ => { let eq = self.node("Equal", None, &[shx, shy], vec![], Dt::B, vec![r], 1.0, 0);
                       self.node("Cast", None, &[eq], vec![("to", Attr::Int(6))], Dt::I, vec![r], 1.0, 0) }
            };
        }
        last
    }

    // ---------------------------------------------------------------- glue
    pub fn glue(&mut self) {
        let x = self.pick_float(0, 4);
        let vx = self.v(x);
        match self.rng.below(14) {
            0 | 1 => { let y = self.pick_float(0, 4); let op = *self.rng.pick(&["Add", "Sub", "Mul"]); let _ = self.binary(op, None, x, y); }
            2 => { let op = *self.rng.pick(&["Neg", "Relu", "Abs", "Identity"]); self.unary(op, x, vec![]); }
            3 => { if vx.shape.len() >= 1 { self.transpose_any(x); } }
            4 => { let n = prod(&vx.shape); let tgt = self.ints(&[n as i64]); self.node("Reshape", None, &[x, tgt], vec![], vx.dt, vec![n], vx.bound, vx.fb); }
            5 => { if vx.shape.len() < 4 { let ax = self.rng.below(vx.shape.len() + 1); let a = self.ints(&[ax as i64]); let mut s = vx.shape.clone(); s.insert(ax, 1); self.node("Unsqueeze", None, &[x, a], vec![], vx.dt, s, vx.bound, vx.fb); } }
            6 => { if !vx.shape.is_empty() { let ax = self.rng.below(vx.shape.len()); let mut s = vx.shape.clone(); s[ax] *= 2; if prod(&s) <= 600 { self.node("Concat", None, &[x, x], vec![("axis", Attr::Int(ax as i64))], vx.dt, s, vx.bound, vx.fb); } } }
            7 => { self.slice(x, None); }
            8 => { if !vx.shape.is_empty() { let ax = self.rng.below(vx.shape.len()); let a = self.ints(&[ax as i64]); let kd = self.rng.chance(50); let mut s = vx.shape.clone(); let n = s[ax]; if kd { s[ax] = 1 } else { s.remove(ax); } if vx.bound * n as f64 <= LIMIT { self.node("ReduceSum", None, &[x, a], vec![("keepdims", Attr::Int(kd as i64))], vx.dt, s, vx.bound * n as f64, vx.fb); } } }
            9 => { let op = *self.rng.pick(&["Sigmoid", "Tanh"]); self.unary(op, x, vec![]); }
            10 => { if !vx.shape.is_empty() { let ax = self.rng.below(vx.shape.len()) as i64; self.softmax(x, ax); } }
            11 => { if vx.shape.len() >= 2 { let (a, b) = self.mm_operands(Some(x)); let _ = self.matmul(None, a, b); } }
            12 => { if let Some(p) = vx.shape.iter().position(|d| *d == 1) { let a = self.ints(&[p as i64]); let mut s = vx.shape.clone(); s.remove(p); self.node("Squeeze", None, &[x, a], vec![], vx.dt, s, vx.bound, vx.fb); } }
            _ => { let c = self.single(*self.rng.clone().pick(&[2.0, 0.5, -1.0, 3.0])); let op = *self.rng.pick(&["Add", "Mul", "Sub", "Div"]); let _ = self.binary(op, None, x, c); }
        }
    }

    pub fn template(&mut self, which: usize) {
        let names = ["identity", "reciprocal", "silu", "swish", "gelu", "approx_gelu", "layernorm", "rmsnorm", "matmul_add", "matmul_scale",
                     "matmul_integer", "conv_add", "conv_integer", "safe_softmax", "add_softmax", "repeat_interleave", "gqa", "transpose",
                     "shape", "cast", "reduce_mean_axes", "const_subgraph", "random", "dyn_shapes"];
        self.tags.push(names[which].to_string());
        match which {
            0 => { let x = self.pick_float(0, 4); self.t_identity(x, None); }
            1 => { let x = self.pick_float(0, 4); self.t_reciprocal(x); }
            2 => { let x = self.pick_float(0, 4); self.t_silu(x); }
            3 => { let x = self.pick_float(0, 4); self.t_swish(x); }
            4 => { let x = self.pick_float(0, 4); self.t_gelu(x); }
            5 => { let x = self.pick_float(0, 4); self.t_approx_gelu(x); }
            6 => { let x = self.pick_float(1, 4); self.t_layernorm(x); }
            7 => { let x = self.pick_float(1, 4); self.t_rmsnorm(x); }
            8 => { let x = if self.rng.chance(50) { Some(self.pick_float(2, 4)) } else { None }; self.t_matmul_add(x, None); }
            9 => { let x = if self.rng.chance(50) { Some(self.pick_float(2, 4)) } else { None }; self.t_matmul_scale(x); }
            10 => { self.t_matmul_integer(); }
            11 => { self.t_conv_add(); }
            12 => { self.t_conv_integer(); }
            13 => { let x = self.pick_float(1, 4); self.t_safe_softmax(x); }
            14 => { let x = self.pick_float(1, 4); self.t_add_softmax(x); }
            15 => { let x = self.pick_float(1, 4); let v = *self.rng.pick(&[0usize, 0, 0, 1, 1, 2, 3]); self.t_repeat_interleave(x, None, v); }
            16 => { self.t_gqa(); }
            17 => { let x = self.pick_float(2, 4); let c = self.rng.below(5); self.t_transpose(x, None, c); }
            18 => { let x = self.pick_float(0, 4); self.t_shape(x); }
            19 => { let x = self.pick_float(0, 4); self.t_cast(x); }
            20 => { let x = self.pick_float(1, 4); self.t_reduce_mean_axes(x); }
            21 => { let x = self.pick_float(0, 4); self.t_const_subgraph(x); }
            22 => { let x = self.pick_float(0, 3); self.t_random(x); }
            _ => { self.t_dyn_shapes(); }
        }
    }
    pub const N_TEMPLATES: usize = 24;

    /// choose graph outputs: every sink (value without consumer) plus a few intermediates
    pub fn finish(mut self, extra_out_pct: usize) -> (Spec, String) {
        let consumed: std::collections::HashSet<String> = self.spec.nodes.iter().flat_map(|n| n.ins.iter().cloned()).collect();
        let mut outs = vec![];
        for n in &self.spec.nodes {
            for o in &n.outs {
                if self.hidden.contains(o) { continue; }
                if !consumed.contains(o) || self.rng.chance(extra_out_pct) { if !outs.contains(o) { outs.push(o.clone()); } }
            }
        }
        if outs.is_empty() { // no operator at all: Identity of the first input
            let x = if self.vals.iter().any(|v| v.is_input) { self.vals.iter().position(|v| v.is_input).unwrap() } else { self.input(Dt::F, &[2]) };
            let y = self.unary("Identity", x, vec![]);
            outs.push(self.vals[y].name.clone());
        }
        // drop graph inputs that nothing consumes (they would make `run` fail for an unrelated reason)
        let consumed: std::collections::HashSet<String> = self.spec.nodes.iter().flat_map(|n| n.ins.iter().cloned()).collect();
        self.spec.inputs.retain(|i| consumed.contains(&i.name));
        let names: Vec<String> = self.spec.inputs.iter().map(|i| i.name.clone()).collect();
        self.spec.data.retain(|(n, _)| names.contains(n));
        self.spec.consts.retain(|c| consumed.contains(&c.name));
        self.spec.outputs = outs;
        self.spec.hidden = self.observe.clone();
        self.spec.exact = self.exact;
        let tag = if self.tags.is_empty() { "glue".to_string() } else { self.tags.join("+") };
        (self.spec, tag)
    }
}

/// A random graph: 1-3 fusion-pattern templates embedded in glue operators.
pub fn random_graph(seed: u64) -> (Spec, String) {
    let mut g = G::new(seed);
    let nt = 1 + g.rng.below(3);
    let budget = 14;
    for _ in 0..g.rng.below(3) { if g.spec.nodes.len() < budget { g.glue(); } }
    for _ in 0..nt {
        if g.spec.nodes.len() >= budget - 2 { break; }
        let w = g.rng.below(G::N_TEMPLATES);
        g.template(w);
        for _ in 0..g.rng.below(3) { if g.spec.nodes.len() < budget { g.glue(); } }
    }
    g.spec.vi = *g.rng.pick(&[0u8, 0, 0, 1, 1, 2]);
    let pct = *g.rng.pick(&[0usize, 0, 10, 30]);
    g.finish(pct)
}

/// Guard-correspondence cases: exactly one pattern on fresh graph inputs, optionally with an extra
/// consumer of an intermediate value or an intermediate declared as graph output.
pub fn focus_graph(seed: u64) -> (Spec, String) {
    let mut g = G::new(seed);
    let kind = g.rng.below(4);
    g.force_decl = Some(if kind == 0 { g.rng.pick(&[Decl::Fixed, Decl::Fixed, Decl::Sym, Decl::NoShape]).clone() } else { Decl::Fixed });
    let (root, mut desc, inter): (usize, String, Vec<usize>) = match kind {
        0 => { let s = g.rand_shape(0, 4); let x = g.input(Dt::F, &s); let (y, d) = g.t_identity(x, Some("root")); let known = g.spec.inputs.iter().all(|i| i.decl != Decl::NoShape); (y, format!("{}|{}", d, known as u8), vec![]) }
        1 => { let (y, d, mm) = g.t_matmul_add(None, Some("root")); (y, d, vec![mm]) }
        2 => { let s = g.rand_shape(2, 4); let x = g.input(Dt::F, &s); g.t_transpose(x, Some("root"), 0) }
        _ => { let s = g.rand_shape(1, 4); let x = g.input(Dt::F, &s); let v = *g.rng.pick(&[0usize, 0, 1, 1, 2, 3]); g.t_repeat_interleave(x, Some("root"), v) }
    };
    if desc.is_empty() { desc = "none".into(); }
    // decorations: reuse / intermediate outputs
    let mut reuse = 0;
    let mut inter_out = 0;
    let mut extra_outs = vec![];
    if !inter.is_empty() {
        match g.rng.below(10) {
            0 | 1 => { let t = *g.rng.pick(&inter); g.unary("Neg", t, vec![]); reuse = 1; }
            2 | 3 => { let t = *g.rng.pick(&inter); extra_outs.push(g.vals[t].name.clone()); inter_out = 1; }
            _ => {}
        }
    }
    // a consumer of the root value (never blocks a fusion)
    if g.rng.chance(30) && g.vals[root].dt == Dt::F { g.unary("Relu", root, vec![]); }
    g.spec.vi = 0;
    let tagname = desc.split('|').next().unwrap_or("none").to_string();
    let (mut spec, _) = g.finish(0);
    for o in extra_outs { if !spec.outputs.contains(&o) { spec.outputs.push(o); } }
    if !spec.outputs.contains(&"t_root".to_string()) { /* root output name is not fixed; nothing to do */ }
    spec.focus = format!("{}|{}|{}", desc, reuse, inter_out);
    (spec, format!("focus-{}", tagname))
}
