//! C01: `c01 gen <seed> <n> <tier>` prints graph specs; `c01 exec` runs each spec under
//! optimisation off / on x shape inference off / on / strict and prints
//! `tag \t spec \t coq case`; `c01 show` prints outcomes and optimized-graph dumps (debugging).
use std::io::{BufRead, Write};
use vh_opt::gen_graphs::{focus_graph, random_graph};
use vh_opt::*;

fn b(x: bool) -> &'static str { if x { "true" } else { "false" } }

fn focus_term(desc: &str) -> String {
    let p: Vec<&str> = desc.split('|').collect();
    let sh = |s: &str| coq_shape(&parse_shape(s));
    match p[0] {
        "identity" if p.len() >= 11 => {
            let op = match p[1] { "Add" => "OAdd", "Sub" => "OSub", "Mul" => "OMul", "Div" => "ODiv", _ => "OIdent" };
            format!("FIdentity {} {} {} {} {} {} {}", op, if p[2] == "L" { "SL" } else { "SR" }, if p[1] == "Identity" { "(Fin 0 0)".to_string() } else { p[3].replace('_', " ") },
                    sh(p[4]), b(p[5] == "f"), p[6], b(p[8] == "1"))
        }
        "matmul_add" if p.len() >= 6 => format!("FMatMulAdd {} {} {} {}", b(p[1] == "const"), sh(p[2]), b(p[4] == "1"), b(p[5] == "1")),
        "transpose_matmul" if p.len() >= 4 => format!("FTranspose {} {}", b(p[2] == "1"), b(p[3] == "1")),
        "repeat_interleave" if p.len() >= 7 => format!("FRepeat {} {} {} {} {} {}", sh(p[1]), p[2], sh(p[3]), sh(p[4]), b(p[5] == "1"), b(p[6] == "1")),
        _ => "FNone".to_string(),
    }
}

/// did the focused fusion fire, according to the hook's dump of the optimized graph?
fn fired(desc: &str, dump: &str) -> bool {
    let ops: Vec<Vec<&str>> = dump.lines().filter(|l| l.starts_with("op\t")).map(|l| l.split('\t').collect()).collect();
    match desc.split('|').next().unwrap_or("") {
        "identity" => !ops.iter().any(|o| o[2] == "root"),
        "matmul_add" => ops.iter().any(|o| o[1] == "FusedMatMul"),
        "transpose_matmul" => ops.iter().any(|o| o[1].starts_with("TransformInputs(")),
        "repeat_interleave" => ops.iter().any(|o| o[1] == "RepeatInterleave"),
        _ => false,
    }
}

fn exec_line(line: &str) -> String {
    let spec = Spec::parse(line);
    let r = run_all(&spec);
    let base_ok = matches!(r.outcomes[0], Outcome::Ok(_));
    // the baseline outputs are only needed when some configuration returned different outputs;
    // otherwise they are elided (printed as `ROk []`) to keep the Coq terms small
    let need_base = (1..r.outcomes.len()).any(|k| matches!(r.outcomes[k], Outcome::Ok(_)) && r.outcomes[k] != r.outcomes[0]);
    let mut runs = vec![if base_ok && !need_base { "ROk []".to_string() } else { outcome_term(&r.outcomes[0], None) }];
    for k in 1..r.outcomes.len() { runs.push(outcome_term(&r.outcomes[k], Some(&r.outcomes[0]))); }
    let fired_ = match &r.dumps[2] { Some(d) if !spec.focus.is_empty() => fired(&spec.focus, d), _ => false };
    let focus = if spec.focus.is_empty() || r.dumps[2].is_none() { "FNone".to_string() } else { focus_term(&spec.focus) };
    let tag = if !base_ok { format!("trivial-baseline-{}", match r.outcomes[0] { Outcome::LoadErr(_) => "loaderr", Outcome::RunErr(_) => "runerr", _ => "panic" }) }
              else { format!("{}{}", spec.tag, if spec.exact { "" } else { "~" }) };
    let rand: Vec<&str> = r.varies.iter().map(|v| b(*v)).collect();
    format!("{}\t{}\t{{| c_exact := {}; c_focus := {}; c_fired := {}; c_runs := {}; c_rand := {} |}}", tag, line, b(spec.exact), focus, b(fired_), coq_list(&runs), coq_list(&rand))
}

fn main() {
    if std::env::var_os("C01_PANICMSG").is_none() { std::panic::set_hook(Box::new(|_| {})); }
    let args: Vec<String> = std::env::args().collect();
    let stdout = std::io::stdout();
    let mut out = std::io::BufWriter::new(stdout.lock());
    match args.get(1).map(|s| s.as_str()) {
        Some("gen") => {
            let seed: u64 = args[2].parse().unwrap();
            let n: usize = args[3].parse().unwrap();
            let mut rng = SplitMix64(seed);
            for k in 0..n {
                let s = rng.next();
                let (mut spec, tag) = if k % 4 == 3 { focus_graph(s) } else { random_graph(s) };
                spec.tag = tag;
                writeln!(out, "{}", spec.to_line()).unwrap();
            }
        }
        Some("exec") => {
            for line in std::io::stdin().lock().lines() {
                let line = line.unwrap();
                if line.trim().is_empty() { continue; }
                writeln!(out, "{}", exec_line(line.trim())).unwrap();
            }
        }
        Some("diff") => {
            for line in std::io::stdin().lock().lines() {
                let line = line.unwrap();
                if line.trim().is_empty() { continue; }
                let spec = Spec::parse(line.trim());
                let r = run_all(&spec);
                if let Some(why) = rust_verdict(&spec, &r.outcomes) { writeln!(out, "MISMATCH {} :: {}", why, line.trim()).unwrap(); }
            }
        }
        Some("show") => {
            for line in std::io::stdin().lock().lines() {
                let line = line.unwrap();
                if line.trim().is_empty() { continue; }
                let spec = Spec::parse(line.trim());
                let r = run_all(&spec);
                writeln!(out, "SPEC {}", line.trim()).unwrap();
                for (k, (o, d)) in r.outcomes.iter().zip(&r.dumps).enumerate() {
                    writeln!(out, "--- config {} (optimize={}, infer={})\n{:?}", k, CONFIGS[k].0, CONFIGS[k].1, o).unwrap();
                    if let Some(d) = d { writeln!(out, "{}", d).unwrap(); }
                }
            }
        }
        _ => { eprintln!("usage: c01 gen <seed> <n> <tier> | exec | show"); std::process::exit(2); }
    }
}
