//! Shared helpers for the C21 correspondence harness: SplitMix64, a minimal protobuf
//! writer producing a one-initializer ONNX model whose tensor data is external, and the
//! three public load paths (in-memory / file / mmap).
use std::collections::HashMap;
use std::path::Path;

pub struct SplitMix64(pub u64);
impl SplitMix64 {
    pub fn next(&mut self) -> u64 {
        self.0 = self.0.wrapping_add(0x9E3779B97F4A7C15);
        let mut z = self.0;
        z = (z ^ (z >> 30)).wrapping_mul(0xBF58476D1CE4E5B9);
        z = (z ^ (z >> 27)).wrapping_mul(0x94D049BB133111EB);
        z ^ (z >> 31)
    }
    pub fn below(&mut self, n: u64) -> u64 {
        if n == 0 { 0 } else { self.next() % n }
    }
    pub fn pick<T: Clone>(&mut self, xs: &[T]) -> T {
        xs[self.below(xs.len() as u64) as usize].clone()
    }
    pub fn chance(&mut self, num: u64, den: u64) -> bool {
        self.below(den) < num
    }
}

pub fn quiet_panics() {
    std::panic::set_hook(Box::new(|_| {}));
}

// ---------------------------------------------------------------- protobuf writer
fn varint(out: &mut Vec<u8>, mut v: u64) {
    loop {
        let b = (v & 0x7f) as u8;
        v >>= 7;
        if v == 0 {
            out.push(b);
            break;
        }
        out.push(b | 0x80);
    }
}
fn f_varint(out: &mut Vec<u8>, field: u64, v: u64) {
    varint(out, field << 3);
    varint(out, v);
}
fn f_bytes(out: &mut Vec<u8>, field: u64, b: &[u8]) {
    varint(out, (field << 3) | 2);
    varint(out, b.len() as u64);
    out.extend_from_slice(b);
}

/// One external-data metadata entry (key, value) as written into the TensorProto.
pub type Meta = Vec<(String, String)>;

/// ONNX model: initializer `w` (UINT8, `dims`) with external data described by `meta`,
/// node `y = Identity(w)`, graph output `y`.
pub fn onnx_model(dims: &[u64], meta: &Meta) -> Vec<u8> {
    let mut t = Vec::new();
    for &d in dims {
        f_varint(&mut t, 1, d);
    }
    f_varint(&mut t, 2, 2); // data_type = UINT8
    f_bytes(&mut t, 8, b"w");
    for (k, v) in meta {
        let mut e = Vec::new();
        f_bytes(&mut e, 1, k.as_bytes());
        f_bytes(&mut e, 2, v.as_bytes());
        f_bytes(&mut t, 13, &e);
    }
    f_varint(&mut t, 14, 1); // data_location = EXTERNAL

    let mut node = Vec::new();
    f_bytes(&mut node, 1, b"w");
    f_bytes(&mut node, 2, b"y");
    f_bytes(&mut node, 3, b"id");
    f_bytes(&mut node, 4, b"Identity");

    let mut out_vi = Vec::new();
    f_bytes(&mut out_vi, 1, b"y");

    let mut g = Vec::new();
    f_bytes(&mut g, 1, &node);
    f_bytes(&mut g, 2, b"g");
    f_bytes(&mut g, 5, &t);
    f_bytes(&mut g, 12, &out_vi);

    let mut opset = Vec::new();
    f_bytes(&mut opset, 1, b"");
    f_varint(&mut opset, 2, 17);

    let mut m = Vec::new();
    f_varint(&mut m, 1, 8); // ir_version
    f_bytes(&mut m, 7, &g);
    f_bytes(&mut m, 8, &opset);
    m
}

pub fn std_meta(location: &str, offset: u64, length: u64) -> Meta {
    vec![
        ("location".to_string(), location.to_string()),
        ("offset".to_string(), offset.to_string()),
        ("length".to_string(), length.to_string()),
    ]
}

/// Canonical outcome of a load attempt.
#[derive(Debug, Clone, PartialEq)]
pub enum Outcome {
    /// Loader returned data and the tensor was built; bytes of the tensor.
    Ok(Vec<u8>),
    /// Loader returned a slice but its length did not match the declared dims
    /// (only used when the harness deliberately declares other dims).
    ShapeMismatch(u64),
    Disallowed,
    NotFound,
    TooShort(u64, u64),
    InvalidLength,
    Io(String),
    Other(String),
    Panic,
}

fn classify(msg: &str) -> Outcome {
    // "external data error: in node "w": for path "x": file too short. required N actual M"
    if let Some(i) = msg.find("file too short. required ") {
        let rest = &msg[i + "file too short. required ".len()..];
        let mut it = rest.split(" actual ");
        let req = it.next().and_then(|s| s.trim().parse::<u64>().ok());
        let act = it.next().and_then(|s| {
            let d: String = s.chars().take_while(|c| c.is_ascii_digit()).collect();
            d.parse::<u64>().ok()
        });
        if let (Some(r), Some(a)) = (req, act) {
            return Outcome::TooShort(r, a);
        }
    }
    if msg.contains("disallowed path") {
        return Outcome::Disallowed;
    }
    if msg.contains("invalid data length") {
        return Outcome::InvalidLength;
    }
    if msg.contains("No such file or directory") {
        return Outcome::NotFound;
    }
    if let Some(i) = msg.find("does not match shape") {
        // "length N does not match shape [..]"
        let pre = &msg[..i];
        if let Some(j) = pre.rfind("length ") {
            if let Ok(n) = pre[j + 7..].trim().parse::<u64>() {
                return Outcome::ShapeMismatch(n);
            }
        }
    }
    if let Some(i) = msg.find("io error: ") {
        return Outcome::Io(msg[i + 10..].to_string());
    }
    Outcome::Other(msg.to_string())
}

fn finish(r: Result<rten::Model, rten::LoadError>) -> Outcome {
    match r {
        Err(e) => classify(&e.to_string()),
        Ok(model) => {
            let Some(&out) = model.output_ids().first() else {
                return Outcome::Other("no output".into());
            };
            match model.run(vec![], &[out], None) {
                Err(e) => Outcome::Other(format!("run: {e}")),
                Ok(vals) => {
                    let v = vals.into_iter().next().unwrap();
                    match rten_tensor::Tensor::<u8>::try_from(v) {
                        Ok(t) => {
                            use rten_tensor::AsView;
                            Outcome::Ok(t.to_vec())
                        }
                        Err(_) => Outcome::Other("output is not u8".into()),
                    }
                }
            }
        }
    }
}

fn guarded(f: impl FnOnce() -> Outcome + std::panic::UnwindSafe) -> Outcome {
    std::panic::catch_unwind(f).unwrap_or(Outcome::Panic)
}

pub fn load_mem(model: Vec<u8>, files: &HashMap<String, Vec<u8>>) -> Outcome {
    let files = files.clone();
    guarded(move || {
        let mut opts = rten::ModelOptions::with_all_ops();
        for (k, v) in files {
            opts.external_data(&k, v);
        }
        finish(opts.load(model))
    })
}

pub fn load_file(model_path: &Path) -> Outcome {
    let p = model_path.to_path_buf();
    guarded(move || finish(rten::ModelOptions::with_all_ops().load_file(&p)))
}

pub fn load_mmap(model_path: &Path) -> Outcome {
    let p = model_path.to_path_buf();
    guarded(move || finish(unsafe { rten::ModelOptions::with_all_ops().load_mmap(&p) }))
}
