//! C21 correspondence harness: external tensor data locations and ranges, observed end to end
//! through the public API (`ModelOptions::{external_data+load, load_file, load_mmap}`) on a
//! harness-written ONNX model with one external-data initializer.
//!
//!   c21 gen <seed> <n> <tier>    print input lines  `loader|hex(location)|key|offset|length`
//!   c21 exec                     read input lines, print `tag \t input \t coq-case`
//!   c21 worker                   child mode: run lines one at a time (isolates cases that may abort)
//!   c21 one <line>               run one line, print the raw outcome
//!
//! Sandbox: $C21_DIR (default /verif/.cache/c21-work) holds `m/` (the model directory with a
//! fixed population of data files) and files outside `m/` that must never be reachable.
use std::collections::HashMap;
use std::io::{BufRead, Write};
use std::os::unix::ffi::OsStrExt;
use std::path::{Component, Path, PathBuf};
use vh_extdata::*;

fn content(len: usize) -> Vec<u8> {
    (0..len as u64).map(|i| ((37 * i + 11) % 251) as u8).collect()
}

fn base_dir() -> PathBuf {
    PathBuf::from(std::env::var("C21_DIR").unwrap_or_else(|_| "/verif/.cache/c21-work".to_string()))
}

/// (name inside m/, length)
const FILES: &[(&str, usize)] = &[
    ("w.data", 64),
    ("w.onnx_data", 33),
    ("x.onnx_data_2", 17),
    ("a.data_1", 9),
    ("empty.data", 0),
    ("one.data", 1),
    ("p.data", 255),
    ("big.data", 20000),
    ("w.bin", 16),
    (".data", 12),
    ("..data", 13),
    ("noext", 14),
    ("data", 15),
    ("w.DATA", 16),
    ("w.data.txt", 18),
    ("w.", 19),
    ("\u{fc}n\u{ef}.data", 21),
    ("C:\\w.data", 22),
    ("..\\w.data", 23),
    ("w.dat", 24),
    ("w.adata", 25),
    ("w.data ", 26),
    ("model.onnx", 27), // overwritten per case for file loaders (the model itself)
    ("...", 28),
    ("w.odata", 29),
    ("w.onnx_dat", 30),
];

fn setup_sandbox() -> PathBuf {
    let base = base_dir();
    let m = base.join("m");
    std::fs::create_dir_all(m.join("sub.data")).unwrap();
    std::fs::create_dir_all(m.join("plain")).unwrap();
    for (n, l) in FILES {
        let p = m.join(n);
        let want = content(*l);
        if std::fs::read(&p).ok().as_deref() != Some(&want[..]) {
            std::fs::write(&p, &want).unwrap();
        }
    }
    for (p, l) in [(base.join("secret.data"), 40usize), (m.join("sub.data").join("inner.data"), 41), (m.join("plain").join("q.data"), 42)] {
        let want = content(l);
        if std::fs::read(&p).ok().as_deref() != Some(&want[..]) {
            std::fs::write(&p, &want).unwrap();
        }
    }
    m
}

fn hex(b: &[u8]) -> String {
    b.iter().map(|x| format!("{:02x}", x)).collect()
}
fn unhex(s: &str) -> Vec<u8> {
    (0..s.len() / 2).map(|i| u8::from_str_radix(&s[2 * i..2 * i + 2], 16).unwrap()).collect()
}
fn coq_bytes(b: &[u8]) -> String {
    let v: Vec<String> = b.iter().map(|x| x.to_string()).collect();
    format!("[{}]", v.join(";"))
}

fn coq_outcome(o: &Outcome) -> (String, &'static str) {
    match o {
        Outcome::Ok(d) => (format!("OOk {}", coq_bytes(d)), "ok"),
        Outcome::ShapeMismatch(n) => (format!("OShapeMismatch {}", n), "shapemismatch"),
        Outcome::Disallowed => ("ODisallowed".into(), "disallowed"),
        Outcome::NotFound => ("ONotFound".into(), "notfound"),
        Outcome::TooShort(r, a) => (format!("OTooShort {} {}", r, a), "tooshort"),
        Outcome::InvalidLength => ("OInvalidLength".into(), "invalidlength"),
        Outcome::Io(_) => ("OIo".into(), "io"),
        Outcome::Other(_) => ("OOther".into(), "other"),
        Outcome::Panic => ("OPanic".into(), "panic"),
    }
}

struct Line {
    loader: String,
    location: String,
    key: String,
    offset: u64,
    length: u64,
}

fn parse_line(line: &str, mdir: &Path) -> Line {
    let f: Vec<&str> = line.split('|').collect();
    let raw = String::from_utf8(unhex(f[1])).expect("location must be UTF-8");
    let location = raw.replace("{DIR}", mdir.to_str().unwrap());
    Line { loader: f[0].to_string(), location, key: f[2].to_string(), offset: f[3].parse().unwrap(), length: f[4].parse().unwrap() }
}

fn dims_for(length: u64) -> u64 {
    if length <= 65536 { length } else { 1 }
}

/// Run the implementation for one line (in this process).
fn run_impl(l: &Line, mdir: &Path) -> Outcome {
    let model = onnx_model(&[dims_for(l.length)], &std_meta(&l.location, l.offset, l.length));
    match l.loader.as_str() {
        "mem" => {
            let mut files = HashMap::new();
            files.insert("w.data".to_string(), content(64));
            files.insert("other.data".to_string(), content(10));
            if let Some(n) = l.key.strip_prefix('k') {
                files.insert(l.location.clone(), content(n.parse().unwrap()));
            }
            load_mem(model, &files)
        }
        "file" | "mmap" => {
            let mp = mdir.join("model.onnx");
            std::fs::write(&mp, &model).unwrap();
            if l.loader == "file" { load_file(&mp) } else { load_mmap(&mp) }
        }
        other => panic!("unknown loader {other}"),
    }
}

fn outcome_to_wire(o: &Outcome) -> String {
    match o {
        Outcome::Ok(d) => format!("ok {}", hex(d)),
        Outcome::ShapeMismatch(n) => format!("shape {}", n),
        Outcome::Disallowed => "disallowed".into(),
        Outcome::NotFound => "notfound".into(),
        Outcome::TooShort(r, a) => format!("tooshort {} {}", r, a),
        Outcome::InvalidLength => "invalidlength".into(),
        Outcome::Io(m) => format!("io {}", m.replace('\n', " ")),
        Outcome::Other(m) => format!("other {}", m.replace('\n', " ")),
        Outcome::Panic => "panic".into(),
    }
}
fn outcome_from_wire(s: &str) -> Option<Outcome> {
    let s = s.trim();
    let (h, rest) = s.split_once(' ').unwrap_or((s, ""));
    Some(match h {
        "ok" => Outcome::Ok(unhex(rest)),
        "shape" => Outcome::ShapeMismatch(rest.parse().ok()?),
        "disallowed" => Outcome::Disallowed,
        "notfound" => Outcome::NotFound,
        "tooshort" => {
            let (a, b) = rest.split_once(' ')?;
            Outcome::TooShort(a.parse().ok()?, b.parse().ok()?)
        }
        "invalidlength" => Outcome::InvalidLength,
        "io" => Outcome::Io(rest.to_string()),
        "other" => Outcome::Other(rest.to_string()),
        "panic" => Outcome::Panic,
        _ => return None,
    })
}

/// What the file system holds at `<dir>/<location>` (plain string concatenation, not
/// std::path::push): the oracle for the OS part, which the Coq model takes as an input.
fn probe_fs(l: &Line, mdir: &Path) -> String {
    if l.loader == "mem" {
        return match l.key.strip_prefix('k') {
            Some(n) => format!("KFile {}", n),
            None => {
                if l.location == "w.data" { "KFile 64".into() } else if l.location == "other.data" { "KFile 10".into() } else { "KNotFound".into() }
            }
        };
    }
    let mut full: Vec<u8> = mdir.as_os_str().as_bytes().to_vec();
    full.push(b'/');
    full.extend_from_slice(l.location.as_bytes());
    if full.contains(&0) {
        return "KErr".into();
    }
    let p = Path::new(std::ffi::OsStr::from_bytes(&full));
    match std::fs::File::open(p) {
        Err(e) if e.kind() == std::io::ErrorKind::NotFound => "KNotFound".into(),
        Err(_) => "KErr".into(),
        Ok(f) => match f.metadata() {
            Ok(md) if md.is_file() => {
                // the per-case model file is not canonical content; never a valid data file name
                format!("KFile {}", md.len())
            }
            Ok(md) if md.is_dir() => format!("KDir {}", md.len()),
            _ => "KErr".into(),
        },
    }
}

/// A child process (`c21 worker`) that runs cases which may abort the process
/// (allocation failure in the unfixed FileLoader); respawned when it dies.
struct Worker {
    child: std::process::Child,
    stdin: std::process::ChildStdin,
    stdout: std::io::BufReader<std::process::ChildStdout>,
}
impl Worker {
    fn spawn() -> Worker {
        let exe = std::env::current_exe().unwrap();
        let mut child = std::process::Command::new(exe)
            .arg("worker")
            .stdin(std::process::Stdio::piped())
            .stdout(std::process::Stdio::piped())
            .stderr(std::process::Stdio::null())
            .spawn()
            .unwrap();
        let stdin = child.stdin.take().unwrap();
        let stdout = std::io::BufReader::new(child.stdout.take().unwrap());
        Worker { child, stdin, stdout }
    }
    /// None = the worker died while running the line (abort / kill).
    fn run(&mut self, line: &str) -> Option<Outcome> {
        if writeln!(self.stdin, "{}", line).is_err() || self.stdin.flush().is_err() {
            return None;
        }
        let mut resp = String::new();
        match self.stdout.read_line(&mut resp) {
            Ok(n) if n > 0 => outcome_from_wire(&resp),
            _ => None,
        }
    }
}

fn exec_line(line: &str, mdir: &Path, worker: &mut Option<Worker>) -> String {
    let l = parse_line(line, mdir);
    // a FileLoader read of a huge length may abort the whole process (allocation failure):
    // isolate in a child process so that the outcome is observable
    let risky = l.loader == "file" && l.length > (1u64 << 31) && l.length <= i64::MAX as u64;
    let (o, aborted) = if risky {
        let w = worker.get_or_insert_with(Worker::spawn);
        match w.run(line) {
            Some(o) => (o, false),
            None => {
                let _ = w.child.kill();
                let _ = w.child.wait();
                *worker = None;
                (Outcome::Panic, true)
            }
        }
    } else {
        (run_impl(&l, mdir), false)
    };
    let (oterm, otag) = if aborted { ("OAbort".to_string(), "abort") } else { coq_outcome(&o) };
    // std::path observations
    let p = Path::new(&l.location);
    let comps: Vec<String> = p
        .components()
        .map(|c| match c {
            Component::RootDir => "Root".to_string(),
            Component::CurDir => "CurDir".to_string(),
            Component::ParentDir => "ParentDir".to_string(),
            Component::Normal(n) => format!("Normal {}", coq_bytes(n.as_bytes())),
            Component::Prefix(_) => "Root".to_string(),
        })
        .collect();
    let ext = match p.extension() {
        Some(e) => format!("Some {}", coq_bytes(e.as_bytes())),
        None => "None".to_string(),
    };
    let fs = probe_fs(&l, mdir);
    let dbg = cfg!(debug_assertions);
    let term = format!(
        "{{| c_dbg := {}; c_loader := {}; c_path := {}; c_fs := {}; c_offset := {}; c_length := {}; c_dims := {}; c_comps := [{}]; c_ext := {}; c_impl := {} |}}",
        dbg,
        match l.loader.as_str() { "mem" => "Mem", "file" => "File", _ => "Mmap" },
        coq_bytes(l.location.as_bytes()), fs, l.offset, l.length, dims_for(l.length), comps.join(";"), ext, oterm
    );
    let trivial = l.location.is_empty();
    format!("{}{}-{}\t{}\t{}", if trivial { "trivial-" } else { "" }, l.loader, otag, line, term)
}

// ------------------------------------------------------------------------- generator
fn emit(out: &mut impl Write, loader: &str, loc: &str, key: &str, off: u64, len: u64) {
    writeln!(out, "{}|{}|{}|{}|{}", loader, hex(loc.as_bytes()), key, off, len).unwrap();
}

fn interesting_numbers(flen: u64, level: u8) -> Vec<u64> {
    if level == 0 {
        let mut v = vec![0, 1, flen, flen + 1, 8193, 1 << 32, (1u64 << 63) - 1, u64::MAX - flen, u64::MAX];
        v.dedup();
        return v;
    }
    if level == 1 {
        let mut v = vec![0, 1, 8, 8192, 8193, flen.saturating_sub(1), flen, flen + 1, 1 << 32, 1 << 40,
            (1u64 << 63) - 1, 1 << 63, u64::MAX, u64::MAX - flen, (u64::MAX - flen).wrapping_add(1)];
        v.dedup();
        return v;
    }
    let mut v = vec![0, 1, 2, 7, 8, 8191, 8192, 8193, 16384, 19999, 20000, 20001,
        flen.saturating_sub(1), flen, flen + 1, flen / 2,
        1 << 31, (1 << 31) + 1, 1 << 32, (1 << 32) + 5, 1 << 40, 1 << 62,
        (1u64 << 63) - 1, 1 << 63, (1 << 63) + 1, u64::MAX - 1, u64::MAX,
        u64::MAX - flen, (u64::MAX - flen).wrapping_add(1), (u64::MAX - flen).wrapping_add(2)];
    v.dedup();
    v
}

fn location_pool() -> Vec<String> {
    let names: Vec<&str> = FILES.iter().map(|f| f.0).collect();
    let mut v: Vec<String> = names.iter().map(|s| s.to_string()).collect();
    let extra = [
        "", ".", "..", "/", "//", "./", "../", "./w.data", "../secret.data", "../m/w.data", "/w.data", "//w.data",
        "w.data/", "w.data//", "w.data/.", "w.data/./", "w.data/./.", "w.data/..", "w.data/../w.data", "w.data/../../secret.data",
        "sub.data", "sub.data/", "sub.data/inner.data", "sub.data/.", "sub.data/..", "sub.data/../w.data", "plain/q.data", "plain/../w.data",
        "{DIR}/w.data", "{DIR}/../secret.data", "/etc/passwd", "/etc/hostname.data", "~/w.data", "$HOME/w.data",
        "C:\\w.data", "C:/w.data", "..\\w.data", "..\\..\\secret.data", "\\\\server\\share\\w.data", "\\w.data",
        "w.data\0", "w\0.data", "\0", "w.data\0/../../secret.data",
        "missing.data", "missing.onnx_data", "missing.txt", "w.data.", "w..data", ".w.data", "w.data.data", "w.onnx_data_", "w.data0",
        "w.datax/../w.data", ".../w.data", "...", "....data", ". .data", " ", "w.data\n", "\nw.data", "w.data\t",
        "\u{202e}atad.w", "w.d\u{430}ta", "\u{ff0e}\u{ff0e}/w.data", "w\u{2215}x.data", "..\u{2f}w.data", "%2e%2e/w.data", "%2e%2e%2fsecret.data",
        "other.data", "OTHER.DATA", "w.Data", "w.dAta", "data.", ".data.", "a/b.data", "a//b.data", "a/./b.data", "./././w.data", ".//w.data", "./.", "./..",
        "w.onnx_data/", "x.onnx_data_2/.", "a.data_1//.//",
    ];
    v.extend(extra.iter().map(|s| s.to_string()));
    v
}

fn mutate(rng: &mut SplitMix64, s: &str) -> String {
    let pieces = ["/", ".", "..", "./", "../", "/.", "/..", "//", "\\", "\0", "data", ".data", ".onnx_data", "onnx_data", "_1", "w", "sub.data/", "{DIR}/", " ", "\u{e9}", "\u{1f600}", "C:"];
    let mut chars: Vec<char> = s.chars().collect();
    for _ in 0..1 + rng.below(3) {
        match rng.below(4) {
            0 => {
                let p = rng.pick(&pieces);
                let at = rng.below(chars.len() as u64 + 1) as usize;
                for (i, c) in p.chars().enumerate() {
                    chars.insert(at + i, c);
                }
            }
            1 if !chars.is_empty() => {
                let at = rng.below(chars.len() as u64) as usize;
                chars.remove(at);
            }
            2 => {
                let p = rng.pick(&pieces);
                chars.extend(p.chars());
            }
            _ => {
                let p = rng.pick(&pieces);
                for (i, c) in p.chars().enumerate() {
                    chars.insert(i, c);
                }
            }
        }
    }
    chars.into_iter().collect()
}

fn generate(seed: u64, n: usize, tier: &str, out: &mut impl Write) {
    let mut rng = SplitMix64(seed);
    let loaders = ["mem", "file", "mmap"];
    let pool = location_pool();
    // 1. every pooled location through every loader (mem: with and without the key present)
    for loc in &pool {
        for ld in loaders {
            emit(out, ld, loc, "n", 0, 4);
            if ld == "mem" {
                emit(out, ld, loc, "k64", 3, 5);
            }
        }
    }
    // 2. exhaustive small scope over path tokens: all sequences of up to K tokens
    let toks = ["/", ".", "a", "data", "onnx_data"];
    let k = if tier == "thorough" { 6 } else { 4 };
    for len in 0..=k {
        let total = toks.len().pow(len as u32);
        for mut code in 0..total {
            let mut s = String::new();
            for _ in 0..len {
                s.push_str(toks[code % toks.len()]);
                code /= toks.len();
            }
            emit(out, "mem", &s, "k8", 1, 6);
        }
    }
    // 3. ranges: offset/length grids on the good files, all loaders
    let targets: [(&str, u64); 5] = [("w.data", 64), ("empty.data", 0), ("one.data", 1), ("p.data", 255), ("big.data", 20000)];
    for (name, flen) in targets {
        let nums = interesting_numbers(flen, if tier == "thorough" { 2 } else if name == "w.data" { 1 } else { 0 });
        for ld in loaders {
            let big = name == "big.data";
            for &o in &nums {
                for &l in &nums {
                    // keep the number of large successful reads small (their data is printed)
                    let in_range = o.checked_add(l).map(|e| e <= flen).unwrap_or(false);
                    if big && in_range && l > 300 && !(o % 8192 <= 1 && (l == 8192 || l == 8193 || l == 16384 || l == 20000 || l == 19999)) {
                        continue;
                    }
                    if ld == "mem" {
                        if name == "w.data" { emit(out, ld, name, "n", o, l); } else { emit(out, ld, name, &format!("k{}", flen), o, l); }
                    } else {
                        emit(out, ld, name, "n", o, l);
                    }
                }
            }
        }
    }
    // 4. random: mutated locations x random ranges
    let small: [u64; 8] = [0, 1, 3, 8, 31, 32, 63, 64];
    for _ in 0..n {
        let ld = rng.pick(&loaders);
        let base = rng.pick(&pool);
        let loc = if rng.chance(2, 3) { mutate(&mut rng, &base) } else { base };
        let flen = 64u64;
        let (o, l) = match rng.below(6) {
            0 => (rng.pick(&small), rng.pick(&small)),
            1 => (rng.below(70), rng.below(70)),
            2 => { let nums = interesting_numbers(flen, 2); (rng.pick(&nums), rng.pick(&nums)) }
            3 => { let k = rng.below(80); (u64::MAX - k, k + rng.below(70)) }
            4 => { let k = rng.below(80); (k + rng.below(70), u64::MAX - k) }
            _ => (rng.next() >> rng.below(64), rng.next() >> rng.below(64)),
        };
        let key = if ld == "mem" && rng.chance(2, 3) { "k64" } else { "n" };
        emit(out, ld, &loc, key, o, l);
    }
}

fn main() {
    if std::env::var("VERIF_LOUD").is_err() { quiet_panics(); }
    let args: Vec<String> = std::env::args().collect();
    let stdout = std::io::stdout();
    let mut out = std::io::BufWriter::new(stdout.lock());
    match args.get(1).map(|s| s.as_str()) {
        Some("gen") => {
            let seed: u64 = args[2].parse().unwrap();
            let n: usize = args[3].parse().unwrap();
            generate(seed, n, &args[4], &mut out);
        }
        Some("exec") => {
            let mdir = setup_sandbox();
            let mut worker = None;
            for line in std::io::stdin().lock().lines() {
                let line = line.unwrap();
                if line.trim().is_empty() { continue; }
                writeln!(out, "{}", exec_line(&line, &mdir, &mut worker)).unwrap();
            }
        }
        Some("worker") => {
            let mdir = base_dir().join("m");
            for line in std::io::stdin().lock().lines() {
                let line = line.unwrap();
                let l = parse_line(&line, &mdir);
                let o = run_impl(&l, &mdir);
                writeln!(out, "{}", outcome_to_wire(&o)).unwrap();
                out.flush().unwrap();
            }
        }
        Some("one") => {
            let mdir = setup_sandbox();
            let l = parse_line(&args[2], &mdir);
            let o = run_impl(&l, &mdir);
            writeln!(out, "{}", outcome_to_wire(&o)).unwrap();
        }
        _ => {
            eprintln!("usage: c21 gen <seed> <n> <tier> | c21 exec | c21 one <line>");
            std::process::exit(2);
        }
    }
}
