//! C19 harness helpers: vecmath ops on a named ISA, reference functions, distance metrics.
use rten_simd::functional::simd_map;
use rten_simd::verif::dispatch_on;
use rten_simd::{Isa, SimdOp, SimdUnaryOp};
use rten_vecmath as vm;

pub struct SplitMix64(pub u64);
impl SplitMix64 {
    pub fn next(&mut self) -> u64 {
        self.0 = self.0.wrapping_add(0x9E3779B97F4A7C15);
        let mut z = self.0;
        z = (z ^ (z >> 30)).wrapping_mul(0xBF58476D1CE4E5B9);
        z = (z ^ (z >> 27)).wrapping_mul(0x94D049BB133111EB);
        z ^ (z >> 31)
    }
    pub fn below(&mut self, n: u64) -> u64 {
        if n == 0 { 0 } else { self.next() % n }
    }
}

/// Function codes (shared with coq/vecmath/VecMathModel.v and checks/C19.py).
pub const FN_NAMES: [&str; 6] = ["exp", "sigmoid", "tanh", "erf", "sin", "cos"];
pub const ISA_NAMES: [&str; 3] = ["generic", "avx2", "avx512"];
pub fn isa_code(name: &str) -> u32 {
    ISA_NAMES.iter().position(|n| *n == name).unwrap_or(9) as u32
}

struct VmOp<'a> {
    f: u32,
    buf: &'a mut [f32],
}
impl SimdOp for VmOp<'_> {
    type Output = ();
    #[inline(always)]
    fn eval<I: Isa>(self, isa: I) {
        let ops = isa.f32();
        let o = self.buf;
        match self.f {
            0 => { simd_map(ops, o, #[inline(always)] |x| vm::Exp {}.eval(isa, x)); }
            1 => { simd_map(ops, o, #[inline(always)] |x| vm::Sigmoid {}.eval(isa, x)); }
            2 => { simd_map(ops, o, #[inline(always)] |x| vm::Tanh {}.eval(isa, x)); }
            3 => { simd_map(ops, o, #[inline(always)] |x| vm::Erf {}.eval(isa, x)); }
            4 => { simd_map(ops, o, #[inline(always)] |x| vm::Sin::new().eval(isa, x)); }
            _ => { simd_map(ops, o, #[inline(always)] |x| vm::Cos::new().eval(isa, x)); }
        }
    }
}
/// Apply vecmath function `f` in place on `isa`.
pub fn run_fn(isa: &str, f: u32, buf: &mut [f32]) -> bool {
    // a panic inside a kernel must not take the harness down: the whole chunk is then reported as
    // a recognisable NaN, which mismatches every non-NaN reference
    let r = std::panic::catch_unwind(std::panic::AssertUnwindSafe(|| dispatch_on(isa, VmOp { f, buf: &mut *buf }).is_some()));
    match r {
        Ok(v) => v,
        Err(_) => {
            for v in buf.iter_mut() {
                *v = f32::from_bits(0x7fc0_dead);
            }
            false
        }
    }
}

/// PRIMARY reference: the mathematical function evaluated in f64 and rounded once to f32 (the
/// platform's f64 libm is accurate to well below an f32 ulp, so this does not depend on the quality
/// of the platform's f32 routines).  Sigmoid is documented against the f32 formula
/// `1 / (1 + exp(-x))`; that formula is kept (including its flush to 0 when exp overflows) with a
/// correctly rounded exp.
#[inline(always)]
pub fn reference(f: u32, x: f32) -> f32 {
    let xd = x as f64;
    match f {
        0 => xd.exp() as f32,
        1 => 1f32 / (1f32 + ((-xd).exp() as f32)),
        2 => xd.tanh() as f32,
        3 => libm::erf(xd) as f32,
        4 => xd.sin() as f32,
        _ => xd.cos() as f32,
    }
}
/// SECONDARY reference: the f32 routines the crate's documentation names literally (Rust std
/// `f32::exp/tanh/sin/cos` = the platform's libm, `libm::erff`).
#[inline(always)]
pub fn reference_std32(f: u32, x: f32) -> f32 {
    match f {
        0 => x.exp(),
        1 => 1. / (1. + (-x).exp()),
        2 => x.tanh(),
        3 => libm::erff(x),
        4 => x.sin(),
        _ => x.cos(),
    }
}

/// ulp of the binade of `e` (as f64); the spacing of subnormals at zero.
#[inline(always)]
pub fn ulp_of(e: f32) -> f64 {
    let ex = ((e.to_bits() >> 23) & 0xff) as i32;
    if ex == 0 { 2f64.powi(-149) } else { 2f64.powi(ex - 150) }
}
/// `|a - e| / ulp(e)` for finite e (the crate's `diff_ulps`), `+inf` for a class mismatch
/// (NaN vs non-NaN, infinite reference vs anything else).
#[inline(always)]
pub fn ulp_metric(a: f32, e: f32) -> f64 {
    if e.is_nan() {
        return if a.is_nan() { 0.0 } else { f64::INFINITY };
    }
    if e.is_infinite() {
        return if a == e { 0.0 } else { f64::INFINITY };
    }
    if !a.is_finite() {
        return f64::INFINITY;
    }
    ((a as f64) - (e as f64)).abs() / ulp_of(e)
}
#[inline(always)]
pub fn abs_metric(a: f32, e: f32) -> f64 {
    if e.is_nan() || a.is_nan() {
        return if a.is_nan() && e.is_nan() { 0.0 } else { f64::INFINITY };
    }
    if e.is_infinite() || a.is_infinite() {
        return if a == e { 0.0 } else { f64::INFINITY };
    }
    ((a as f64) - (e as f64)).abs()
}

pub struct SoftmaxOp<'a> {
    pub buf: &'a mut [f32],
    pub inplace: bool,
}
impl SimdOp for SoftmaxOp<'_> {
    type Output = Vec<f32>;
    #[inline(always)]
    fn eval<I: Isa>(self, isa: I) -> Vec<f32> {
        if self.inplace {
            vm::Softmax::new_mut(self.buf).eval(isa);
            self.buf.to_vec()
        } else {
            let mut out: Vec<f32> = Vec::with_capacity(self.buf.len());
            let n = vm::Softmax::new(self.buf, &mut out.spare_capacity_mut()[..self.buf.len()]).eval(isa).len();
            unsafe { out.set_len(n) };
            out
        }
    }
}
pub fn run_softmax(isa: &str, buf: &mut [f32], inplace: bool) -> Option<Vec<f32>> {
    let n = buf.len();
    match std::panic::catch_unwind(std::panic::AssertUnwindSafe(|| dispatch_on(isa, SoftmaxOp { buf, inplace }))) {
        Ok(v) => v,
        Err(_) => Some(vec![f32::NAN; n.max(1)]), // a panic is reported as NaN outputs
    }
}
