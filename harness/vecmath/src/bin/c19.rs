//! C19 harness: accuracy of the rten-vecmath kernels on every available ISA against the
//! references their documentation names.  This is the counterexample search / tie, not the proof.
//!
//!   c19 exec      read input lines, print `tag \t input \t coq-case`
//!
//! Input lines (built by checks/C19.py, bounds are pinned from the Rust source):
//!   ulp <fn> <num> <den> all | strat <log2n> <seed>     fn: 0 exp 1 sigmoid 2 tanh
//!   abs <fn> <num> <den> all | strat <log2n> <seed>     fn: 3 erf 4 sin 5 cos
//!   special <fn> <isa> <kind> <num> <den> <xbits>       kind 0 = ulp bound, 1 = absolute bound
//!   softmax <isa> <seed> <len> <style> <inplace> <num> <den>
use rten_simd::verif::available_isas;
use std::io::{BufRead, Write};
use std::sync::atomic::{AtomicU64, Ordering};
use vh_vecmath::*;

#[derive(Clone, Copy)]
struct Worst {
    metric: f64,
    x: u32,
    a: u32,
    e: u32,
}

fn sweep(f: u32, is_abs: bool, mode: &[&str]) -> (u64, Vec<(String, Worst)>, Vec<(String, Worst)>) {
    let isas = available_isas();
    let (total, log2n, seed): (u64, u32, u64) = if mode[0] == "all" {
        (1u64 << 32, 32, 0)
    } else {
        let l: u32 = mode[1].parse().unwrap();
        (1u64 << l, l, mode[2].parse().unwrap())
    };
    const CH: u64 = 1 << 16;
    let nchunks = (total + CH - 1) / CH;
    let next = AtomicU64::new(0);
    let nthreads = std::thread::available_parallelism().map_or(4, |n| n.get());
    let results: Vec<(Vec<Worst>, Vec<Worst>)> = std::thread::scope(|s| {
        let hs: Vec<_> = (0..nthreads)
            .map(|_| {
                s.spawn(|| {
                    let mut worst = vec![Worst { metric: -1.0, x: 0, a: 0, e: 0 }; isas.len()];
                    let mut worst2 = vec![Worst { metric: -1.0, x: 0, a: 0, e: 0 }; isas.len()];
                    let mut xs = vec![0f32; CH as usize];
                    let mut es = vec![0f32; CH as usize];
                    let mut e2 = vec![0f32; CH as usize];
                    let mut buf = vec![0f32; CH as usize];
                    loop {
                        let c = next.fetch_add(1, Ordering::SeqCst);
                        if c >= nchunks {
                            break;
                        }
                        let n = (total - c * CH).min(CH) as usize;
                        for i in 0..n {
                            let idx = c * CH + i as u64;
                            let bits = if log2n == 32 {
                                idx as u32
                            } else {
                                // stratified: the top log2n bits enumerate every sign/exponent/leading
                                // mantissa prefix, the low bits are pseudo-random
                                let low = 32 - log2n;
                                let mut r = SplitMix64(idx ^ seed.wrapping_mul(0x9E37_79B9));
                                ((idx as u32) << low) | ((r.next() as u32) & ((1u32 << low) - 1))
                            };
                            xs[i] = f32::from_bits(bits);
                            es[i] = reference(f, xs[i]);
                            e2[i] = reference_std32(f, xs[i]);
                        }
                        for (k, isa) in isas.iter().enumerate() {
                            buf[..n].copy_from_slice(&xs[..n]);
                            run_fn(isa, f, &mut buf[..n]);
                            let w = &mut worst[k];
                            for i in 0..n {
                                let m = if is_abs { abs_metric(buf[i], es[i]) } else { ulp_metric(buf[i], es[i]) };
                                if m > w.metric {
                                    *w = Worst { metric: m, x: xs[i].to_bits(), a: buf[i].to_bits(), e: es[i].to_bits() };
                                }
                                let m2 = if is_abs { abs_metric(buf[i], e2[i]) } else { ulp_metric(buf[i], e2[i]) };
                                let w2 = &mut worst2[k];
                                if m2 > w2.metric {
                                    *w2 = Worst { metric: m2, x: xs[i].to_bits(), a: buf[i].to_bits(), e: e2[i].to_bits() };
                                }
                            }
                        }
                    }
                    (worst, worst2)
                })
            })
            .collect();
        hs.into_iter().map(|h| h.join().unwrap()).collect()
    });
    let pick = |sel: &dyn Fn(&(Vec<Worst>, Vec<Worst>)) -> &Vec<Worst>| -> Vec<(String, Worst)> {
        let mut out = vec![];
        for (k, isa) in isas.iter().enumerate() {
            let mut w = Worst { metric: -1.0, x: 0, a: 0, e: 0 };
            for r in &results {
                let r = sel(r);
                // deterministic choice among equal metrics: smallest input pattern
                if r[k].metric > w.metric || (r[k].metric == w.metric && r[k].x < w.x) {
                    w = r[k];
                }
            }
            out.push((isa.to_string(), w));
        }
        out
    };
    (total, pick(&|r| &r.0), pick(&|r| &r.1))
}

fn sweep_line(p: &[&str]) -> (String, String) {
    let is_abs = p[0] == "abs";
    let f: u32 = p[1].parse().unwrap();
    let (num, den) = (p[2], p[3]);
    let (count, ws, ws2) = sweep(f, is_abs, &p[4..]);
    let term = |ws: &Vec<(String, Worst)>| -> String {
        let terms: Vec<String> = ws
            .iter()
            .map(|(isa, w)| format!("{{| w_isa := {}; w_count := {}; w_x := {}; w_actual := {}; w_expected := {} |}}", isa_code(isa), count, w.x, w.a, w.e))
            .collect();
        format!("({} {} {} {} [{}])", if is_abs { "CAbs" } else { "CUlp" }, f, num, den, terms.join("; "))
    };
    let info = |ws: &Vec<(String, Worst)>| -> String {
        ws.iter().map(|(isa, w)| format!("{}:{:.6e}@{:08x}", isa, w.metric, w.x)).collect::<Vec<_>>().join(",")
    };
    // primary case (vs the f64 reference rounded once) @@ secondary case (vs the platform's f32 routines)
    (
        format!("{}-{}-{}|{}|std32:{}", p[0], FN_NAMES[f as usize], p[4], info(&ws), info(&ws2)),
        format!("{}@@{}", term(&ws), term(&ws2)),
    )
}

fn special_line(p: &[&str]) -> (String, String) {
    let f: u32 = p[1].parse().unwrap();
    let isa = p[2];
    let kind: u32 = p[3].parse().unwrap();
    let xb: u32 = p[6].parse().unwrap();
    let x = f32::from_bits(xb);
    // the value is placed in every position of a short vector and alone, results must coincide
    let mut buf = vec![x; 67];
    run_fn(isa, f, &mut buf);
    let a = buf[0];
    let consistent = buf.iter().all(|v| v.to_bits() == a.to_bits() || (v.is_nan() && a.is_nan()));
    let e = reference(f, x);
    let abits = if consistent { a.to_bits() } else { 0x7fc0_dead };
    let class = if x.is_nan() { "nan" } else if x.is_infinite() { "inf" } else if x == 0.0 { "zero" } else if x.is_subnormal() { "subnormal" } else { "finite" };
    (
        format!("special-{}-{}-{}", FN_NAMES[f as usize], isa, class),
        format!("CSpecial {} {} {} {} {} {} {} {}", f, isa_code(isa), kind, p[4], p[5], xb, abits, e.to_bits()),
    )
}

fn softmax_line(p: &[&str]) -> (String, String) {
    let isa = p[1];
    let seed: u64 = p[2].parse().unwrap();
    let len: usize = p[3].parse().unwrap();
    let style: u32 = p[4].parse().unwrap();
    let inplace = p[5] == "1";
    let mut rng = SplitMix64(seed ^ ((len as u64) << 20) ^ ((style as u64) << 50));
    let mut xs: Vec<f32> = (0..len)
        .map(|i| {
            let u = (rng.below(2_000_001) as f32 - 1_000_000.0) / 1_000_000.0; // [-1, 1]
            match style {
                0 => u * 5.0,
                1 => u * 80.0,                 // large spread: most terms underflow
                2 => 1000.0 + u,               // large offset
                3 => if i % 7 == 6 { f32::NEG_INFINITY } else { u * 3.0 }, // masked positions (never all of them: an all -inf input has no softmax)
                4 => 0.25,                     // all equal
                5 => u * 1e-3,
                6 => -3.0e38 + (i as f32) * 1e32, // near f32::MIN
                _ => if i == len / 2 { 88.0 } else { u },
            }
        })
        .collect();
    let out = run_softmax(isa, &mut xs, inplace).expect("isa");
    let bad = out.iter().filter(|v| !(**v >= 0.0)).count() + if out.len() != len { 1 } else { 0 };
    let sum: f64 = out.iter().map(|v| *v as f64).sum();
    let sum40 = (sum * (1u64 << 40) as f64).round() as i128;
    (
        format!("softmax-{}-style{}-{}", isa, style, if len == 0 { "empty" } else if len < 64 { "short" } else { "long" }),
        format!("CSoftmax {} {} {} {} {} {}", isa_code(isa), len, bad, if sum.is_finite() { sum40.to_string() } else { "(-1)".to_string() }, p[6], p[7]),
    )
}

fn exec_line(line: &str) -> String {
    let p: Vec<&str> = line.split_whitespace().collect();
    let (tag, term) = match p[0] {
        "ulp" | "abs" => sweep_line(&p),
        "special" => special_line(&p),
        "softmax" => softmax_line(&p),
        _ => panic!("unknown input line {:?}", line),
    };
    if term.starts_with('(') { format!("{}\t{}\t{}", tag, line, term) } else { format!("{}\t{}\t({})", tag, line, term) }
}

fn main() {
    let args: Vec<String> = std::env::args().collect();
    std::panic::set_hook(Box::new(|_| {}));
    match args.get(1).map(|s| s.as_str()) {
        Some("exec") => {
            let so = std::io::stdout();
            let mut o = std::io::BufWriter::new(so.lock());
            for l in std::io::stdin().lock().lines() {
                let l = l.unwrap();
                if l.trim().is_empty() {
                    continue;
                }
                writeln!(o, "{}", exec_line(&l)).unwrap();
                o.flush().unwrap();
            }
        }
        Some("isas") => println!("{}", available_isas().join(" ")),
        // diagnostic (not used by the check): `diag <fn> <isa> <threshold> <abs|ulp>` counts the inputs above a threshold
        Some("diag") => {
            let f: u32 = args[2].parse().unwrap();
            let isa = args[3].clone();
            let th: f64 = args[4].parse().unwrap();
            let is_abs = args[5] == "abs";
            let (mut cnt, mut minabs, mut cnt64) = (0u64, f32::INFINITY, 0u64);
            let mut xs = vec![0f32; 1 << 16];
            let mut buf = vec![0f32; 1 << 16];
            for c in 0..(1u64 << 16) {
                for i in 0..(1usize << 16) {
                    xs[i] = f32::from_bits(((c << 16) as u32) | i as u32);
                }
                if !xs[0].is_finite() || xs[0].abs() > 1e6 || xs[0].abs() < 1e-3 {
                    continue;
                }
                buf.copy_from_slice(&xs);
                run_fn(&isa, f, &mut buf);
                for i in 0..(1usize << 16) {
                    let (e, e64) = (reference_std32(f, xs[i]), reference(f, xs[i]));
                    let m = if is_abs { abs_metric(buf[i], e) } else { ulp_metric(buf[i], e) };
                    let m64 = if is_abs { abs_metric(buf[i], e64) } else { ulp_metric(buf[i], e64) };
                    if m > th {
                        cnt += 1;
                        if xs[i].abs() < minabs {
                            minabs = xs[i].abs();
                        }
                    }
                    if m64 > th {
                        cnt64 += 1;
                    }
                }
            }
            println!("fn {} isa {} > {}: {} inputs vs std-f32 (min |x| = {}), {} vs f64 reference", f, isa, th, cnt, minabs, cnt64);
        }
        _ => eprintln!("usage: c19 exec | isas"),
    }
}
