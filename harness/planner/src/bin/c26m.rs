//! C26 through the PUBLIC API: `Model::load` on a hand-encoded ONNX model, then
//! `Model::run` / `Model::partial_run` with valid and invalid requests (no hook involved).
//!
//!   c26m gen <seed> <n> <tier>    print input lines `req/req/...` (same request syntax as c26)
//!   c26m exec                     read input lines, print `tag \t input \t coq-case`
//!
//! The model (optimisation off so that nodes are not fused):
//!   inputs  x : f32 [2, "n"],  y : f32 [2, "n"],  k : i32 ["m"]
//!   add1: a = Add(x, y);  relu1: b = Relu(a);  id1: c = Identity(k);  add2: d = Add(b, x)
//!   outputs d, c
//! The Coq-side graph is a mirror read back from the loaded model through `Model::node_info`
//! (node kinds, dtype / shape metadata incl. what shape inference added) and `Model::node_id`.
use rten::{DataType, Dimension, Model, ModelOptions, NodeId, Sequence, Value, ValueOrView, ValueType};
use rten::verif::planner::{InputSpec, NodeSpec};
use rten_tensor::Tensor;
use std::io::Write;
use vh_planner::*;

// ---------------------------------------------------------------- minimal protobuf writer
fn varint(mut v: u64, out: &mut Vec<u8>) {
    while v >= 0x80 {
        out.push((v as u8 & 0x7f) | 0x80);
        v >>= 7;
    }
    out.push(v as u8);
}
fn f_varint(field: u32, v: u64, out: &mut Vec<u8>) {
    varint(((field << 3) | 0) as u64, out);
    varint(v, out);
}
fn f_bytes(field: u32, b: &[u8], out: &mut Vec<u8>) {
    varint(((field << 3) | 2) as u64, out);
    varint(b.len() as u64, out);
    out.extend_from_slice(b);
}
enum Dim {
    Fixed(u64),
    Sym(&'static str),
}
fn value_info(name: &str, elem_type: u64, dims: &[Dim]) -> Vec<u8> {
    let mut shape = vec![];
    for d in dims {
        let mut dim = vec![];
        match d {
            Dim::Fixed(v) => f_varint(1, *v, &mut dim),
            Dim::Sym(s) => f_bytes(2, s.as_bytes(), &mut dim),
        }
        f_bytes(1, &dim, &mut shape);
    }
    let mut tensor = vec![];
    f_varint(1, elem_type, &mut tensor);
    f_bytes(2, &shape, &mut tensor);
    let mut ty = vec![];
    f_bytes(1, &tensor, &mut ty);
    let mut vi = vec![];
    f_bytes(1, name.as_bytes(), &mut vi);
    f_bytes(2, &ty, &mut vi);
    vi
}
fn node(name: &str, op_type: &str, inputs: &[&str], outputs: &[&str]) -> Vec<u8> {
    let mut n = vec![];
    for i in inputs {
        f_bytes(1, i.as_bytes(), &mut n);
    }
    for o in outputs {
        f_bytes(2, o.as_bytes(), &mut n);
    }
    f_bytes(3, name.as_bytes(), &mut n);
    f_bytes(4, op_type.as_bytes(), &mut n);
    n
}

const OPS: [(&str, &str, &[&str], &[&str]); 4] = [
    ("add1", "Add", &["x", "y"], &["a"]),
    ("relu1", "Relu", &["a"], &["b"]),
    ("id1", "Identity", &["k"], &["c"]),
    ("add2", "Add", &["b", "x"], &["d"]),
];

fn onnx_bytes() -> Vec<u8> {
    let mut g = vec![];
    for (name, ty, ins, outs) in OPS.iter() {
        f_bytes(1, &node(name, ty, ins, outs), &mut g);
    }
    f_bytes(2, b"verif", &mut g);
    f_bytes(11, &value_info("x", 1, &[Dim::Fixed(2), Dim::Sym("n")]), &mut g);
    f_bytes(11, &value_info("y", 1, &[Dim::Fixed(2), Dim::Sym("n")]), &mut g);
    f_bytes(11, &value_info("k", 6, &[Dim::Sym("m")]), &mut g);
    f_bytes(12, &value_info("d", 1, &[Dim::Fixed(2), Dim::Sym("n")]), &mut g);
    f_bytes(12, &value_info("c", 6, &[Dim::Sym("m")]), &mut g);
    let mut opset = vec![];
    f_varint(2, 17, &mut opset);
    let mut m = vec![];
    f_varint(1, 8, &mut m);
    f_bytes(8, &opset, &mut m);
    f_bytes(7, &g, &mut m);
    m
}

fn load_model() -> Model {
    let mut opts = ModelOptions::with_all_ops();
    opts.enable_optimization(false);
    opts.load(onnx_bytes()).expect("model loads")
}

fn dtype_code(d: DataType) -> u8 {
    match d {
        DataType::Float => 0,
        DataType::Int32 => 1,
        DataType::Int8 => 2,
        _ => 3,
    }
}

/// Mirror of the loaded model's graph.
fn mirror(model: &Model) -> GraphSpec {
    let id_of = |name: &str| model.node_id(name).expect("node exists").as_u32();
    let mut nodes = vec![];
    let mut k = 0u32;
    while let Some(info) = model.node_info(NodeId::from_u32(k)) {
        let name = info.name().unwrap_or("");
        if let Some((_, _, ins, outs)) = OPS.iter().find(|(n, ..)| *n == name) {
            nodes.push(NodeSpec::Op {
                inputs: ins.iter().map(|i| Some(id_of(i))).collect(),
                outputs: outs.iter().map(|o| Some(id_of(o))).collect(),
                captures: vec![],
                in_place: false,
            });
        } else {
            let dtype = info.dtype().map(|t| match t {
                ValueType::Tensor(d) => (false, dtype_code(d)),
                ValueType::Sequence(d) => (true, dtype_code(d)),
                _ => panic!("unknown value type"),
            });
            let shape = info.shape().map(|dims| {
                dims.iter()
                    .map(|d| match d {
                        Dimension::Fixed(v) => Some(*v),
                        Dimension::Symbolic(_) => None,
                    })
                    .collect()
            });
            nodes.push(NodeSpec::Value { dtype, shape });
        }
        k += 1;
    }
    GraphSpec { nodes, captures: vec![] }
}

// ---------------------------------------------------------------- requests (syntax of c26)
#[derive(Clone, Debug)]
struct Req {
    partial: bool,
    ins: Vec<InputSpec>,
    outs: Vec<u32>,
}

fn parse_in(s: &str) -> InputSpec {
    let p: Vec<&str> = s.split(':').collect();
    let c = p[1].chars().next().unwrap();
    let seq = c.is_ascii_uppercase();
    let dtype = match c.to_ascii_lowercase() { 'f' => 0, 'i' => 1, 'b' => 2, _ => 3 };
    let shape: Vec<usize> = if p[2].is_empty() { vec![] } else { p[2].split('x').map(|d| d.parse().unwrap()).collect() };
    InputSpec { id: p[0].parse().unwrap(), dtype, shape, seq, owned: p[3] == "o", fill: 1 }
}
fn fmt_in(i: &InputSpec) -> String {
    let dims: Vec<String> = i.shape.iter().map(|d| d.to_string()).collect();
    format!("{}:{}:{}:{}", i.id, dtype_char((i.seq, i.dtype)), dims.join("x"), if i.owned { "o" } else { "v" })
}
fn parse_req(s: &str) -> Req {
    let p: Vec<&str> = s.split('|').collect();
    Req { partial: p[0] == "P", ins: p[1].split(';').filter(|x| !x.is_empty()).map(parse_in).collect(), outs: parse_ids(p[2]) }
}
fn fmt_req(r: &Req) -> String {
    let ins: Vec<String> = r.ins.iter().map(fmt_in).collect();
    format!("{}|{}|{}", if r.partial { "P" } else { "R" }, ins.join(";"), fmt_ids(&r.outs))
}
fn coq_in(i: &InputSpec) -> String {
    let dims: Vec<String> = i.shape.iter().map(|d| d.to_string()).collect();
    format!("mkin {} {} {} [{}] {}", i.id, i.seq, i.dtype, dims.join(";"), i.owned)
}

fn make_value(spec: &InputSpec) -> Value {
    macro_rules! t {
        ($ty:ty) => {{
            let t = Tensor::<$ty>::full(&spec.shape, 1 as $ty);
            if spec.seq { Value::from(Sequence::from(vec![t])) } else { Value::from(t) }
        }};
    }
    match spec.dtype {
        0 => t!(f32),
        1 => t!(i32),
        2 => t!(i8),
        _ => t!(u8),
    }
}

/// Planning error message with ONNX node names -> Coq term
fn plan_error(model: &Model, msg: &str) -> String {
    // rewrite quoted node names to the `n<id>` form understood by coq_plan_error
    let mut out = String::new();
    for (i, part) in msg.split('"').enumerate() {
        if i % 2 == 1 {
            match model.find_node(part) {
                Some(id) => out.push_str(&format!("\"n{}\"", id.as_u32())),
                None => out.push_str(&format!("\"{}\"", part)),
            }
        } else {
            out.push_str(part);
        }
    }
    coq_plan_error("PlanningError", &out)
}

fn exec_line(line: &str) -> String {
    if line.contains('#') {
        // a line of the hook-based harness (c26 corpus / replay): not for this binary
        return fail_line(line, Fail::Skip).replacen("notrun", "trivial-skip", 1);
    }
    let reqs: Vec<Req> = line.split('/').filter(|s| !s.is_empty()).map(parse_req).collect();
    let model = load_model();
    let gs = mirror(&model);
    let mut terms = vec![];
    let mut tags: Vec<String> = vec![];
    for r in &reqs {
        let values: Vec<Value> = r.ins.iter().map(make_value).collect();
        let outs: Vec<NodeId> = r.outs.iter().map(|x| NodeId::from_u32(*x)).collect();
        let res = std::panic::catch_unwind(std::panic::AssertUnwindSafe(|| {
            let inputs: Vec<(NodeId, ValueOrView)> = r
                .ins
                .iter()
                .zip(&values)
                .map(|(s, v)| (NodeId::from_u32(s.id), if s.owned { ValueOrView::from(v.clone()) } else { ValueOrView::from(v) }))
                .collect();
            if r.partial {
                model.partial_run(inputs, &outs, None).map(|_| ())
            } else {
                model.run(inputs, &outs, None).map(|_| ())
            }
        }));
        let (o, t) = match res {
            Ok(Ok(())) => ("ROkAny".to_string(), "ok".to_string()),
            Ok(Err(e)) => {
                let kind = format!("{:?}", e.kind());
                match kind.as_str() {
                    "PlanningError" => {
                        let t = plan_error(&model, &e.to_string());
                        (format!("(RErrPlan {})", t), format!("err-{}", err_tag(&t)))
                    }
                    "InvalidInput" => ("RErrInvalidInput".to_string(), "err-InvalidInput".to_string()),
                    "OperatorError" => ("RErrOperator".to_string(), "err-Operator".to_string()),
                    _ => ("RErrOther".to_string(), "err-other".to_string()),
                }
            }
            Err(_) => ("RPanic".to_string(), "anomaly-panic".to_string()),
        };
        let ins: Vec<String> = r.ins.iter().map(coq_in).collect();
        terms.push(format!("mkrr {} [{}] {} {}", r.partial, ins.join(";"), coq_ids(&r.outs), o));
        tags.push(t);
    }
    let metas: Vec<String> = gs
        .nodes
        .iter()
        .enumerate()
        .filter_map(|(i, n)| match n {
            NodeSpec::Value { dtype, shape } if dtype.is_some() || shape.is_some() => {
                let d = match dtype { Some((s, c)) => format!("(Some ({},{}))", s, c), None => "None".to_string() };
                let sh = match shape {
                    Some(dims) => {
                        let v: Vec<String> = dims.iter().map(|x| match x { Some(k) => format!("Some {}", k), None => "None".to_string() }).collect();
                        format!("(Some [{}])", v.join(";"))
                    }
                    None => "None".to_string(),
                };
                Some(format!("({},mkmeta {} {})", i, d, sh))
            }
            _ => None,
        })
        .collect();
    let mut kinds = tags.clone();
    kinds.sort();
    kinds.dedup();
    let tag = if kinds.iter().any(|k| k.starts_with("anomaly")) { "anomaly-panic".to_string() } else { format!("model-{}", kinds.join("+")) };
    format!("{}\t{}\t{{| v_graph := {}; v_meta := [{}]; v_reqs := [{}] |}}", tag, line, gs.coq(), metas.join(";"), terms.join(";"))
}

fn fail_line(line: &str, kind: Fail) -> String {
    let (o, t) = match kind {
        Fail::Hang => ("RTimeout", "anomaly-timeout"),
        Fail::Crash => ("RPanic", "anomaly-crash"),
        Fail::Skip => ("RNotRun", "notrun"),
    };
    format!("{}\t{}\t{{| v_graph := mk_graph [] []; v_meta := []; v_reqs := [mkrr false [] [] {}] |}}", t, line, o)
}

// ---------------------------------------------------------------- generator
fn generate(seed: u64, n: usize, _tier: &str, out: &mut dyn Write) {
    let mut rng = SplitMix64(seed ^ 0x26aa);
    let model = load_model();
    let id = |name: &str| model.node_id(name).unwrap().as_u32();
    let (x, y, k, a, b, c, d) = (id("x"), id("y"), id("k"), id("a"), id("b"), id("c"), id("d"));
    let ops = [id("add1"), id("relu1"), id("id1"), id("add2")];
    let n_nodes = {
        let mut i = 0u32;
        while model.node_info(NodeId::from_u32(i)).is_some() {
            i += 1;
        }
        i
    };
    let base = |rng: &mut SplitMix64, cols: usize| -> Req {
        let m = 1 + rng.below(3) as usize;
        Req {
            partial: false,
            ins: vec![
                InputSpec { id: x, dtype: 0, shape: vec![2, cols], seq: false, owned: rng.chance(1, 2), fill: 1 },
                InputSpec { id: y, dtype: 0, shape: vec![2, cols], seq: false, owned: rng.chance(1, 2), fill: 1 },
                InputSpec { id: k, dtype: 1, shape: vec![m], seq: false, owned: rng.chance(1, 2), fill: 1 },
            ],
            outs: match rng.below(4) { 0 => vec![d], 1 => vec![c, d], 2 => vec![d, c], _ => vec![b, c] },
        }
    };
    // `cols`: the value of the symbolic dimension n used by this line's requests, so that values
    // reaching the real kernels stay shape-compatible (kernel errors are outside C26's scope)
    let mutate = |rng: &mut SplitMix64, r: &mut Req, class: u64, cols: usize| {
        let unknown = n_nodes + 3 + rng.below(4) as u32;
        let an_op = ops[rng.below(4) as usize];
        if r.ins.is_empty() && class != 0 && class < 15 {
            return;
        }
        let j = rng.below(r.ins.len().max(1) as u64) as usize;
        // the intermediate value `a` has no metadata: its dtype/shape reach the kernels unchecked
        if (10..=14).contains(&class) && r.ins.get(j).map(|i| i.id == a).unwrap_or(false) {
            return;
        }
        match class {
            1 => { let mut i = r.ins[0].clone(); i.id = unknown; r.ins.push(i); }
            2 => { let mut i = r.ins[0].clone(); i.id = an_op; r.ins.push(i); }
            3 => { let i = r.ins[j].clone(); r.ins.push(i); }
            4 => r.outs.push(unknown),
            5 => r.outs.push(an_op),
            6 if !r.outs.is_empty() => { let v = r.outs[0]; r.outs.push(v); }
            7 => { r.ins.remove(j); }
            8 => r.ins.clear(),
            9 => { r.ins.push(InputSpec { id: a, dtype: 0, shape: vec![2, cols], seq: false, owned: rng.chance(1, 2), fill: 1 }); }
            10 => r.ins[j].dtype = (r.ins[j].dtype + 1 + rng.below(3) as u8) % 4,
            11 => r.ins[j].seq = !r.ins[j].seq,
            12 => r.ins[j].shape.push(1),
            13 => { r.ins[j].shape.pop(); }
            14 if r.ins[j].id != k && !r.ins[j].shape.is_empty() => r.ins[j].shape[0] = if rng.chance(1, 2) { 3 } else { 1 }, // fixed dim 2 -> 3 or 1
            15 => r.ins.reverse(),
            16 => r.outs.reverse(),
            17 => r.outs.push(x),
            18 => r.partial = true,
            19 => { r.partial = true; if !r.ins.is_empty() { r.ins.remove(0); } }
            20 if r.ins.len() >= 2 => { let f = r.ins[0].clone(); let l = r.ins.len() - 1; r.ins[l] = f; }
            21 if r.outs.len() >= 2 => { let f = r.outs[0]; let l = r.outs.len() - 1; r.outs[l] = f; }
            // ---- requested outputs drawn from declared graph inputs, supplied or not ----
            22 => { let v = [x, y, k][rng.below(3) as usize]; r.ins.retain(|i| i.id != v); if !r.outs.contains(&v) { r.outs.push(v); } }
            23 => { r.ins.clear(); r.outs = if rng.chance(1, 2) { vec![x] } else { vec![k, y] }; }                  // run([], [a])
            24 => { r.ins.retain(|i| i.id == x); r.outs = if rng.chance(1, 2) { vec![y] } else { vec![x, y] }; }    // run([a],[b]) / run([a],[a,b])
            25 => { r.outs = vec![x, k, y]; }                                                                      // only supplied graph inputs
            26 => { r.ins.retain(|i| i.id != k); r.outs = vec![d, k]; }                                             // intermediate/final + unsupplied input
            _ => {}
        }
    };
    // systematic: every class cold and warm
    for class in 0..27u64 {
        for _ in 0..2 {
            let cols = 1 + rng.below(4) as usize;
            let b0 = base(&mut rng, cols);
            let mut cold = b0.clone();
            mutate(&mut rng, &mut cold, class, cols);
            let mut warm = b0.clone();
            mutate(&mut rng, &mut warm, class, cols);
            let reqs = [cold, b0.clone(), warm, b0];
            let r: Vec<String> = reqs.iter().map(fmt_req).collect();
            writeln!(out, "{}", r.join("/")).unwrap();
        }
    }
    for _ in 0..n {
        let cols = 1 + rng.below(4) as usize;
        let mut reqs = vec![];
        for _ in 0..2 + rng.below(4) {
            let mut r = base(&mut rng, cols);
            for _ in 0..rng.below(3) {
                let cl = rng.below(27);
                mutate(&mut rng, &mut r, cl, cols);
            }
            reqs.push(r);
        }
        let r: Vec<String> = reqs.iter().map(fmt_req).collect();
        writeln!(out, "{}", r.join("/")).unwrap();
    }
}

fn main() {
    harness_main(generate, exec_line, fail_line, 20000);
}
