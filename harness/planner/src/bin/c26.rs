//! C26 correspondence: `Graph::run` / `Graph::partial_run` (the bodies of `Model::run` /
//! `Model::partial_run`) with valid and invalid requests, on one graph per line so that the
//! plan cache is cold for the first request and warm afterwards.
//!
//!   c26 gen <seed> <n> <tier>     print input lines `graph#req/req/...`
//!   c26 exec                      read input lines, print `tag \t input \t coq-case`
//!
//! A request is `K|in;in;..|outs` with K = R (run) or P (partial_run) and
//! in = `id:T:dims:F` (T in fibu = tensor of f32/i32/i8/u8, FIBU = sequence of ..; dims = `2x3`
//! or empty for a scalar; F = o (owned value) or v (view)).
use rten::verif::planner::{InputSpec, NodeSpec};
use std::io::Write;
use vh_planner::*;

#[derive(Clone, Debug)]
struct Req {
    partial: bool,
    ins: Vec<InputSpec>,
    outs: Vec<u32>,
}

fn tchar(seq: bool, d: u8) -> char {
    dtype_char((seq, d))
}

fn parse_in(s: &str) -> InputSpec {
    let p: Vec<&str> = s.split(':').collect();
    assert!(p.len() == 4, "bad input {:?}", s);
    let c = p[1].chars().next().unwrap();
    let seq = c.is_ascii_uppercase();
    let dtype = match c.to_ascii_lowercase() { 'f' => 0, 'i' => 1, 'b' => 2, _ => 3 };
    let shape: Vec<usize> = if p[2].is_empty() { vec![] } else { p[2].split('x').map(|d| d.parse().unwrap()).collect() };
    InputSpec { id: p[0].parse().unwrap(), dtype, shape, seq, owned: p[3] == "o", fill: 1 }
}

fn fmt_in(i: &InputSpec) -> String {
    let dims: Vec<String> = i.shape.iter().map(|d| d.to_string()).collect();
    format!("{}:{}:{}:{}", i.id, tchar(i.seq, i.dtype), dims.join("x"), if i.owned { "o" } else { "v" })
}

fn parse_req(s: &str) -> Req {
    let p: Vec<&str> = s.split('|').collect();
    assert!(p.len() == 3, "bad request {:?}", s);
    Req {
        partial: p[0] == "P",
        ins: p[1].split(';').filter(|x| !x.is_empty()).map(parse_in).collect(),
        outs: parse_ids(p[2]),
    }
}

fn fmt_req(r: &Req) -> String {
    let ins: Vec<String> = r.ins.iter().map(fmt_in).collect();
    format!("{}|{}|{}", if r.partial { "P" } else { "R" }, ins.join(";"), fmt_ids(&r.outs))
}

fn coq_in(i: &InputSpec) -> String {
    let dims: Vec<String> = i.shape.iter().map(|d| d.to_string()).collect();
    format!("mkin {} {} {} [{}] {}", i.id, i.seq, i.dtype, dims.join(";"), i.owned)
}

fn coq_err(kind: &str, msg: &str) -> String {
    match kind {
        "PlanningError" => format!("(RErrPlan {})", coq_plan_error(kind, msg)),
        "InvalidInput" => "RErrInvalidInput".to_string(),
        "OperatorError" => "RErrOperator".to_string(),
        _ => "RErrOther".to_string(),
    }
}

fn exec_line(line: &str) -> String {
    if !line.contains('#') {
        // a line of the public-API harness (c26m replay): not for this binary
        return format!("trivial-skip\t{}\t{{| v_graph := mk_graph [] []; v_meta := []; v_reqs := [mkrr false [] [] RNotRun] |}}", line);
    }
    let (gtxt, rtxt) = line.split_once('#').unwrap();
    let gs = GraphSpec::parse(gtxt);
    let reqs: Vec<Req> = rtxt.split('/').filter(|s| !s.is_empty()).map(parse_req).collect();
    let g = gs.build();
    let mut terms = vec![];
    let mut tags: Vec<String> = vec![];
    for r in &reqs {
        g.take_log();
        let res = std::panic::catch_unwind(std::panic::AssertUnwindSafe(|| {
            if r.partial {
                g.partial_run(&r.ins, &r.outs).map(|outs| outs.iter().map(|(id, _)| *id).collect::<Vec<u32>>())
            } else {
                g.run(&r.ins, &r.outs, None).map(|outs| (0..outs.len() as u32).collect::<Vec<u32>>())
            }
        }));
        let log = g.take_log();
        let (o, t) = match res {
            Ok(Ok(ids)) => {
                if r.partial {
                    (format!("(ROk {} {})", coq_ids(&log), coq_ids(&ids)), "ok".to_string())
                } else {
                    (format!("(ROk {} [])", coq_ids(&log)), "ok".to_string())
                }
            }
            Ok(Err((kind, msg))) => {
                let t = coq_err(&kind, &msg);
                let tag = if kind == "PlanningError" { format!("err-{}", err_tag(&coq_plan_error(&kind, &msg))) } else { format!("err-{}", kind) };
                (t, tag)
            }
            Err(_) => ("RPanic".to_string(), "anomaly-panic".to_string()),
        };
        let ins: Vec<String> = r.ins.iter().map(coq_in).collect();
        terms.push(format!("mkrr {} [{}] {} {}", r.partial, ins.join(";"), coq_ids(&r.outs), o));
        tags.push(t);
    }
    // value metadata
    let metas: Vec<String> = gs
        .nodes
        .iter()
        .enumerate()
        .filter_map(|(i, n)| match n {
            NodeSpec::Value { dtype, shape } if dtype.is_some() || shape.is_some() => {
                let d = match dtype { Some((s, c)) => format!("(Some ({},{}))", s, c), None => "None".to_string() };
                let sh = match shape {
                    Some(dims) => {
                        let v: Vec<String> = dims.iter().map(|x| match x { Some(k) => format!("Some {}", k), None => "None".to_string() }).collect();
                        format!("(Some [{}])", v.join(";"))
                    }
                    None => "None".to_string(),
                };
                Some(format!("({},mkmeta {} {})", i, d, sh))
            }
            _ => None,
        })
        .collect();
    let mut kinds: Vec<String> = tags.clone();
    kinds.sort();
    kinds.dedup();
    let tag = if kinds.iter().any(|k| k.starts_with("anomaly")) { "anomaly-panic".to_string() } else { kinds.join("+") };
    format!(
        "{}\t{}\t{{| v_graph := {}; v_meta := [{}]; v_reqs := [{}] |}}",
        tag, line, gs.coq(), metas.join(";"), terms.join(";")
    )
}

fn fail_line(line: &str, kind: Fail) -> String {
    let (gtxt, _) = line.split_once('#').unwrap_or(("", ""));
    let gs = GraphSpec::parse(gtxt);
    let (o, t) = match kind {
        Fail::Hang => ("RTimeout", "anomaly-timeout"),
        Fail::Crash => ("RPanic", "anomaly-crash"),
        Fail::Skip => ("RNotRun", "notrun"),
    };
    format!("{}\t{}\t{{| v_graph := {}; v_meta := []; v_reqs := [mkrr false [] [] {}] |}}", t, line, gs.coq(), o)
}

// ---------------------------------------------------------------- generator

struct Gen {
    gs: GraphSpec,
    inputs: Vec<u32>,      // source-less value nodes
    consts: Vec<u32>,
    op_outs: Vec<Vec<u32>>,
    first_op: u32,
    n_ops: u32,
    n_values: u32,
}

/// A closed, acyclic graph: every operator input is a graph input, a constant or an output of an
/// earlier operator; graph inputs carry dtype/shape metadata.
fn closed_graph(rng: &mut SplitMix64) -> Gen {
    let n_in = 1 + rng.below(3) as u32;
    let n_const = rng.below(2) as u32;
    let n_ops = 1 + rng.below(5) as u32;
    let mut nodes = vec![];
    for _ in 0..n_in {
        let dtype = match rng.below(6) { 0 => None, 1 => Some((false, 1)), 2 => Some((true, 0)), 3 => Some((false, 3)), _ => Some((false, 0)) };
        let shape = match rng.below(6) {
            0 => None,
            1 => Some(vec![]),
            2 => Some(vec![Some(2), Some(3)]),
            3 => Some(vec![None, Some(3)]),
            4 => Some(vec![Some(1)]),
            _ => Some(vec![Some(2), None, Some(2)]),
        };
        nodes.push(NodeSpec::Value { dtype, shape });
    }
    for _ in 0..n_const {
        nodes.push(NodeSpec::Constant);
    }
    let mut op_outs = vec![];
    for _ in 0..n_ops {
        let k = if rng.chance(1, 4) { 2 } else { 1 };
        let mut o = vec![];
        for _ in 0..k {
            o.push(nodes.len() as u32);
            nodes.push(NodeSpec::Value { dtype: None, shape: None });
        }
        op_outs.push(o);
    }
    let n_values = nodes.len() as u32;
    let mut avail: Vec<u32> = (0..n_in + n_const).collect();
    for j in 0..n_ops as usize {
        let arity = 1 + rng.below(3) as usize;
        let mut inputs: Vec<Option<u32>> = vec![];
        for _ in 0..arity {
            inputs.push(if rng.chance(1, 12) { None } else { Some(avail[rng.below(avail.len() as u64) as usize]) });
        }
        let mut outputs: Vec<Option<u32>> = op_outs[j].iter().map(|x| Some(*x)).collect();
        // rarely: an operator output that is also a graph input (finding F11's shape)
        if rng.chance(1, 12) && outputs.len() > 1 {
            outputs[1] = Some(rng.below(n_in as u64) as u32);
        }
        let captures = if rng.chance(1, 10) { vec![avail[rng.below(avail.len() as u64) as usize]] } else { vec![] };
        nodes.push(NodeSpec::Op { inputs, outputs, captures, in_place: rng.chance(1, 3) });
        avail.extend(op_outs[j].iter().copied());
    }
    Gen {
        gs: GraphSpec { nodes, captures: vec![] },
        inputs: (0..n_in).collect(),
        consts: (n_in..n_in + n_const).collect(),
        op_outs,
        first_op: n_values,
        n_ops,
        n_values,
    }
}

fn conforming_input(rng: &mut SplitMix64, g: &Gen, id: u32) -> InputSpec {
    let (mut seq, mut dtype, mut shape) = (false, 0u8, vec![2usize, 3]);
    if let Some(NodeSpec::Value { dtype: d, shape: s }) = g.gs.nodes.get(id as usize) {
        if let Some((sq, c)) = d {
            seq = *sq;
            dtype = *c;
        }
        if let Some(dims) = s {
            shape = dims.iter().map(|x| x.unwrap_or(1 + rng.below(3) as usize)).collect();
        }
    }
    InputSpec { id, dtype, shape, seq, owned: rng.chance(1, 2), fill: 1 }
}

fn base_request(rng: &mut SplitMix64, g: &Gen) -> Req {
    let ins: Vec<InputSpec> = g.inputs.iter().map(|id| conforming_input(rng, g, *id)).collect();
    let mut outs = vec![];
    for _ in 0..1 + rng.below(2) {
        let o = &g.op_outs[rng.below(g.n_ops as u64) as usize];
        let v = o[rng.below(o.len() as u64) as usize];
        if !outs.contains(&v) {
            outs.push(v);
        }
    }
    Req { partial: false, ins, outs }
}

fn mutate(rng: &mut SplitMix64, g: &Gen, r: &mut Req, class: u64) {
    let unknown = g.n_values + g.n_ops + 5 + rng.below(3) as u32;
    let an_op = g.first_op + rng.below(g.n_ops as u64) as u32;
    let pick_in = |rng: &mut SplitMix64, r: &Req| rng.below(r.ins.len().max(1) as u64) as usize;
    if r.ins.is_empty() && [1, 2, 3, 7, 11, 12, 13, 14, 15, 21, 23].contains(&class) {
        return;
    }
    if r.outs.is_empty() && [6, 24].contains(&class) {
        return;
    }
    match class {
        0 => {}
        1 => { let mut i = r.ins[0].clone(); i.id = unknown; r.ins.push(i); }           // unknown input id
        2 => { let mut i = r.ins[0].clone(); i.id = an_op; r.ins.push(i); }             // operator id as input
        3 => { let k = pick_in(rng, r); let i = r.ins[k].clone(); r.ins.push(i); }      // duplicated input
        4 => r.outs.push(unknown),
        5 => r.outs.push(an_op),
        6 => { let v = r.outs[0]; r.outs.push(v); }                                     // duplicated output
        7 => { let k = pick_in(rng, r); r.ins.remove(k); }                              // missing input
        8 => { r.ins.clear(); }
        9 => {                                                                          // extra input: an intermediate value
            let o = &g.op_outs[rng.below(g.n_ops as u64) as usize];
            r.ins.push(InputSpec { id: o[0], dtype: 0, shape: vec![1], seq: false, owned: rng.chance(1, 2), fill: 1 });
        }
        10 if !g.consts.is_empty() => {                                                 // a constant supplied as input
            r.ins.push(InputSpec { id: g.consts[0], dtype: 0, shape: vec![], seq: false, owned: rng.chance(1, 2), fill: 1 });
        }
        11 => { let k = pick_in(rng, r); r.ins[k].dtype = (r.ins[k].dtype + 1) % 4; }   // dtype mismatch
        12 => { let k = pick_in(rng, r); r.ins[k].seq = !r.ins[k].seq; }                // sequence <-> tensor
        13 => { let k = pick_in(rng, r); r.ins[k].shape.push(1); }                      // rank mismatch
        14 => { let k = pick_in(rng, r); if r.ins[k].shape.is_empty() { r.ins[k].shape.push(2) } else { r.ins[k].shape.pop(); } }
        15 => { let k = pick_in(rng, r); let down = rng.chance(1, 2); for d in r.ins[k].shape.iter_mut() { if down && *d > 1 { *d -= 1 } else { *d += 1 } } } // dim mismatch (fixed dims), both directions
        16 => r.ins.reverse(),
        17 => r.outs.reverse(),
        18 => r.outs.push(g.inputs[0]),                                                 // a graph input requested as output
        19 if !g.consts.is_empty() => r.outs.push(g.consts[0]),
        20 => r.partial = true,
        21 => { r.partial = true; let k = pick_in(rng, r); r.ins.remove(k); }
        22 => { r.outs.clear(); }
        23 if r.ins.len() >= 2 => {                                                     // F12 shape: [a,a,b] after {a,b,c}
            let a = r.ins[0].clone();
            let last = r.ins.len() - 1;
            r.ins[last] = a;
        }
        24 if r.outs.len() >= 2 => { let a = r.outs[0]; let last = r.outs.len() - 1; r.outs[last] = a; }
        // ---- requested outputs drawn from declared graph inputs / constants / intermediates ----
        25 => {                                                                         // graph input requested but NOT supplied
            let a = g.inputs[rng.below(g.inputs.len() as u64) as usize];
            r.ins.retain(|i| i.id != a);
            if !r.outs.contains(&a) { r.outs.push(a); }
        }
        26 => {                                                                         // run([], [a]) / run([], [a, b])
            r.ins.clear();
            r.outs = g.inputs.iter().copied().take(1 + rng.below(2) as usize).collect();
        }
        27 if g.inputs.len() >= 2 => {                                                  // run([a], [b]) and run([a], [a, b])
            let (a, b) = (g.inputs[0], g.inputs[1]);
            r.ins.retain(|i| i.id == a);
            r.outs = if rng.chance(1, 2) { vec![b] } else { vec![a, b] };
        }
        28 => {                                                                         // only graph inputs / constants as outputs, all supplied
            r.outs = g.inputs.clone();
            if let Some(c) = g.consts.first() { r.outs.push(*c); }
        }
        29 => {                                                                         // unsupplied graph input + an intermediate + a constant
            let a = g.inputs[0];
            r.ins.retain(|i| i.id != a);
            r.outs.insert(0, a);
            if let Some(c) = g.consts.first() { if !r.outs.contains(c) { r.outs.push(*c); } }
        }
        _ => {}
    }
}

const N_CLASSES: u64 = 30;

fn generate(seed: u64, n: usize, _tier: &str, out: &mut dyn Write) {
    let mut rng = SplitMix64(seed ^ 0x26);
    // systematic part: for a handful of graphs, every mutation class cold (first request) and
    // warm (after a successful run of the base request), alone and in pairs
    let n_sys = (n / 20).max(2);
    for _ in 0..n_sys {
        let g = closed_graph(&mut rng);
        let base = base_request(&mut rng, &g);
        for class in 0..N_CLASSES {
            let mut cold = base.clone();
            mutate(&mut rng, &g, &mut cold, class);
            let mut warm = base.clone();
            mutate(&mut rng, &g, &mut warm, class);
            // cold, then base (cache may now hold the base plan), then warm, then base again
            let reqs = [cold, base.clone(), warm, base.clone()];
            let r: Vec<String> = reqs.iter().map(fmt_req).collect();
            writeln!(out, "{}#{}", g.gs.fmt(), r.join("/")).unwrap();
        }
    }
    // random part: sequences of 2..6 requests with 0..2 mutations each
    for _ in 0..n {
        let g = closed_graph(&mut rng);
        let base = base_request(&mut rng, &g);
        let mut reqs = vec![];
        for _ in 0..2 + rng.below(5) {
            let mut r = if rng.chance(2, 3) { base.clone() } else { base_request(&mut rng, &g) };
            for _ in 0..rng.below(3) {
                let c = rng.below(N_CLASSES);
                mutate(&mut rng, &g, &mut r, c);
            }
            reqs.push(r);
        }
        let r: Vec<String> = reqs.iter().map(fmt_req).collect();
        writeln!(out, "{}#{}", g.gs.fmt(), r.join("/")).unwrap();
    }
}

fn main() {
    harness_main(generate, exec_line, fail_line, 10000);
}
