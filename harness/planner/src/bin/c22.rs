//! C22 correspondence / observation: one graph shared by several threads calling `Graph::run`
//! (the body of `Model::run`) with alternating input / output sets.
//!
//!   c22 gen <seed> <n> <tier>     print input lines `graph#call/call/...#threads`
//!   c22 exec                      read input lines, print `tag \t input \t coq-case`
//!
//! A call is `ins>outs` (ids; every input is an f32 scalar view whose value depends on the
//! call index). For every line the harness
//!  1. runs the calls one after the other on one graph from one thread and records the operator
//!     sequence each call executed (this exposes plan-cache hits: a hit replays the cached order);
//!  2. runs every call alone on a fresh graph (reference result);
//!  3. runs the calls from `threads` threads on ONE shared graph (each thread loops over its
//!     share of the calls several times, with the global or a per-call thread pool) and compares
//!     every result with the reference.
//!
//! Stress lines `S#graph#shape/shape/..#threads#iters` (shape = `R|ins>outs` or `P|ins>outs`, the
//! P = partial_run shapes last): all threads start together behind a barrier and issue `iters`
//! calls each on ONE shared graph, every thread mostly repeating "its own" request shape (so
//! that nearly every call has to replace the plan another thread just cached) and sometimes
//! another one; every call runs under catch_unwind and its values / error are compared with the
//! result of the same call made alone on a fresh graph. The first failing calls are reported
//! as (thread, iteration, shape index) in `q_fail`.
use rten::verif::planner::{InputSpec, NodeSpec, OutValue};
use std::io::Write;
use vh_planner::*;

#[derive(Clone, Debug)]
struct Call {
    ins: Vec<u32>,
    outs: Vec<u32>,
}

fn parse_call(s: &str) -> Call {
    let (a, b) = s.split_once('>').unwrap();
    Call { ins: parse_ids(a), outs: parse_ids(b) }
}

fn inputs_for(c: &Call, idx: usize) -> Vec<InputSpec> {
    c.ins
        .iter()
        .enumerate()
        .map(|(k, id)| InputSpec { id: *id, dtype: 0, shape: vec![], seq: false, owned: (idx + k) % 3 == 0, fill: (idx * 7 + k * 3 + 1) as i32 })
        .collect()
}

type Res = Result<Vec<OutValue>, (String, String)>;

fn res_eq(a: &Res, b: &Res) -> bool {
    match (a, b) {
        (Ok(x), Ok(y)) => x == y,
        (Err((k1, m1)), Err((k2, m2))) => k1 == k2 && m1 == m2,
        _ => false,
    }
}

#[derive(Clone, Debug)]
struct Shape {
    partial: bool,
    call: Call,
}

fn shape_inputs(sh: &Shape, idx: usize, variant: usize) -> Vec<InputSpec> {
    sh.call
        .ins
        .iter()
        .enumerate()
        .map(|(k, id)| InputSpec { id: *id, dtype: 0, shape: vec![], seq: false, owned: (idx + k) % 3 == 0, fill: (idx * 7 + k * 3 + 1 + variant * 11) as i32 })
        .collect()
}

#[derive(PartialEq, Debug)]
enum SRes {
    Run(Res),
    Partial(Result<Vec<(u32, OutValue)>, (String, String)>),
    Panic,
}

fn issue(g: &rten::verif::planner::TestGraph, sh: &Shape, idx: usize, variant: usize, pool: Option<usize>) -> SRes {
    let ins = shape_inputs(sh, idx, variant);
    let r = std::panic::catch_unwind(std::panic::AssertUnwindSafe(|| {
        if sh.partial { SRes::Partial(g.partial_run(&ins, &sh.call.outs)) } else { SRes::Run(g.run(&ins, &sh.call.outs, pool)) }
    }));
    r.unwrap_or(SRes::Panic)
}

const VARIANTS: usize = 4;

fn stress_line(line: &str) -> String {
    let parts: Vec<&str> = line.split('#').collect();
    assert!(parts.len() == 5 && parts[0] == "S", "bad stress line");
    let gs = GraphSpec::parse(parts[1]);
    let shapes: Vec<Shape> = parts[2]
        .split('/')
        .filter(|s| !s.is_empty())
        .map(|s| {
            let (k, c) = s.split_once('|').unwrap();
            Shape { partial: k == "P", call: parse_call(c) }
        })
        .collect();
    let threads: usize = parts[3].parse().unwrap();
    let iters: usize = parts[4].parse().unwrap();
    // 1. the run shapes in sequence on one graph (model correspondence); partial_run shapes are
    //    listed (so that q_fail can refer to them) but not run here
    let g1 = gs.build();
    let mut terms = vec![];
    for (i, sh) in shapes.iter().enumerate() {
        let c = &sh.call;
        if sh.partial {
            terms.push(format!("mkcall {} {} NotRun", coq_ids(&c.ins), coq_ids(&c.outs)));
            continue;
        }
        g1.take_log();
        let r = std::panic::catch_unwind(std::panic::AssertUnwindSafe(|| g1.run(&shape_inputs(sh, i, 0), &c.outs, None)));
        let log = g1.take_log();
        let term = match r {
            Ok(Ok(_)) => format!("(Ok {})", coq_ids(&log)),
            Ok(Err((k, m))) => format!("(Err {})", coq_plan_error(&k, &m)),
            Err(_) => "Panic".to_string(),
        };
        terms.push(format!("mkcall {} {} {}", coq_ids(&c.ins), coq_ids(&c.outs), term));
    }
    // 2. reference: every (shape, variant) alone on a fresh graph
    let reference: Vec<Vec<SRes>> = shapes
        .iter()
        .enumerate()
        .map(|(i, sh)| (0..VARIANTS).map(|v| issue(&gs.build(), sh, i, v, None)).collect())
        .collect();
    let mut conc_ok = !reference.iter().flatten().any(|r| *r == SRes::Panic);
    // 3. all threads at once on one shared graph
    let g2 = gs.build();
    let barrier = std::sync::Barrier::new(threads);
    let fails: std::sync::Mutex<Vec<(usize, usize, usize)>> = std::sync::Mutex::new(vec![]);
    let stop = std::sync::atomic::AtomicBool::new(false);
    std::thread::scope(|s| {
        for t in 0..threads {
            let (g2, shapes, reference, barrier, fails, stop) = (&g2, &shapes, &reference, &barrier, &fails, &stop);
            s.spawn(move || {
                let mut rng = SplitMix64(0xC22 + t as u64 * 7919);
                barrier.wait();
                for it in 0..iters {
                    if stop.load(std::sync::atomic::Ordering::Relaxed) {
                        break;
                    }
                    let i = if rng.chance(3, 4) { t % shapes.len() } else { rng.below(shapes.len() as u64) as usize };
                    let v = it % VARIANTS;
                    // mostly the global thread pool; now and then a fresh single-thread pool for the call
                    let pool = if it % 97 == t { Some(1) } else { None };
                    let r = issue(g2, &shapes[i], i, v, pool);
                    if r != reference[i][v] {
                        let mut f = fails.lock().unwrap();
                        f.push((t, it, i));
                        if f.len() >= 4 {
                            stop.store(true, std::sync::atomic::Ordering::Relaxed);
                        }
                    }
                }
            });
        }
    });
    let fails = fails.into_inner().unwrap();
    conc_ok = conc_ok && fails.is_empty();
    let ftxt: Vec<String> = fails.iter().take(4).map(|(t, it, i)| format!("({},{},{})", t, it, i)).collect();
    let tag = format!("stress-t{}-{}", threads, if conc_ok { "ok" } else { "anomaly" });
    format!(
        "{}\t{}\t{{| q_graph := {}; q_calls := [{}]; q_conc_ok := {}; q_fail := [{}] |}}",
        tag, line, gs.coq(), terms.join(";"), conc_ok, ftxt.join(";")
    )
}

fn exec_line(line: &str) -> String {
    if line.starts_with("S#") {
        return stress_line(line);
    }
    let parts: Vec<&str> = line.split('#').collect();
    assert!(parts.len() == 3, "bad line");
    let gs = GraphSpec::parse(parts[0]);
    let calls: Vec<Call> = parts[1].split('/').filter(|s| !s.is_empty()).map(parse_call).collect();
    let threads: usize = parts[2].parse().unwrap();

    // 1. sequential, one graph, one thread
    let g1 = gs.build();
    let mut seq_terms = vec![];
    let mut seq_res: Vec<Res> = vec![];
    let mut n_err = 0;
    for (i, c) in calls.iter().enumerate() {
        g1.take_log();
        let r = std::panic::catch_unwind(std::panic::AssertUnwindSafe(|| g1.run(&inputs_for(c, i), &c.outs, None)));
        let log = g1.take_log();
        let (term, res): (String, Res) = match r {
            Ok(Ok(v)) => (format!("(Ok {})", coq_ids(&log)), Ok(v)),
            Ok(Err((k, m))) => {
                n_err += 1;
                (format!("(Err {})", coq_plan_error(&k, &m)), Err((k, m)))
            }
            Err(_) => ("Panic".to_string(), Err(("panic".to_string(), String::new()))),
        };
        seq_terms.push(format!("mkcall {} {} {}", coq_ids(&c.ins), coq_ids(&c.outs), term));
        seq_res.push(res);
    }
    // 2. every call alone on a fresh graph
    let mut conc_ok = true;
    let mut alone: Vec<Res> = vec![];
    for (i, c) in calls.iter().enumerate() {
        let g = gs.build();
        let r = std::panic::catch_unwind(std::panic::AssertUnwindSafe(|| g.run(&inputs_for(c, i), &c.outs, None)));
        let r: Res = match r {
            Ok(r) => r,
            Err(_) => Err(("panic".to_string(), String::new())),
        };
        if !res_eq(&r, &seq_res[i]) {
            conc_ok = false; // a warm cache changed the result of a call
        }
        alone.push(r);
    }
    // 3. concurrent on one shared graph
    let g2 = gs.build();
    let rounds = 6;
    let ok = std::sync::atomic::AtomicBool::new(true);
    std::thread::scope(|s| {
        for t in 0..threads {
            let g2 = &g2;
            let calls = &calls;
            let alone = &alone;
            let ok = &ok;
            s.spawn(move || {
                for round in 0..rounds {
                    for (i, c) in calls.iter().enumerate() {
                        if (i + round) % threads != t {
                            continue;
                        }
                        let pool = if (i + t + round) % 3 == 0 { Some(1 + (i % 2)) } else { None };
                        let r = std::panic::catch_unwind(std::panic::AssertUnwindSafe(|| g2.run(&inputs_for(c, i), &c.outs, pool)));
                        let r: Res = match r {
                            Ok(r) => r,
                            Err(_) => Err(("panic".to_string(), String::new())),
                        };
                        if !res_eq(&r, &alone[i]) {
                            ok.store(false, std::sync::atomic::Ordering::SeqCst);
                        }
                    }
                }
            });
        }
    });
    conc_ok = conc_ok && ok.load(std::sync::atomic::Ordering::SeqCst);
    let tag = format!("t{}-calls{}-{}{}", threads, calls.len().min(9), if n_err > 0 { "witherr" } else { "allok" }, if conc_ok { "" } else { "-anomaly" });
    format!(
        "{}\t{}\t{{| q_graph := {}; q_calls := [{}]; q_conc_ok := {}; q_fail := [] |}}",
        tag, line, gs.coq(), seq_terms.join(";"), conc_ok
    )
}

fn fail_line(line: &str, kind: Fail) -> String {
    let gs = GraphSpec::parse(line.trim_start_matches("S#").split('#').next().unwrap());
    let (o, t, ok) = match kind {
        Fail::Hang => ("Timeout", "anomaly-timeout", false),
        Fail::Crash => ("Panic", "anomaly-crash", false),
        Fail::Skip => ("NotRun", "notrun", true),
    };
    format!("{}\t{}\t{{| q_graph := {}; q_calls := [mkcall [] [] {}]; q_conc_ok := {}; q_fail := [] |}}", t, line, gs.coq(), o, ok)
}

/// stress lines: a graph with several independent and shared sub-chains and 6-8 request shapes
fn stress_gen(rng: &mut SplitMix64, threads: usize, iters: usize, out: &mut dyn Write) {
    let n_in = 3u32;
    let mut nodes: Vec<NodeSpec> = (0..n_in).map(|_| NodeSpec::Value { dtype: None, shape: None }).collect();
    nodes.push(NodeSpec::Constant);
    let n_src = n_in + 1;
    let n_ops = 8 + rng.below(5) as u32;
    let mut op_outs: Vec<Vec<u32>> = vec![];
    for _ in 0..n_ops {
        let k = if rng.chance(1, 4) { 2 } else { 1 };
        let mut o = vec![];
        for _ in 0..k {
            o.push(nodes.len() as u32);
            nodes.push(NodeSpec::Value { dtype: None, shape: None });
        }
        op_outs.push(o);
    }
    let mut avail: Vec<u32> = (0..n_src).collect();
    let mut op_inputs: Vec<Vec<u32>> = vec![];
    for j in 0..n_ops as usize {
        let arity = 1 + rng.below(2) as usize;
        let ins: Vec<u32> = (0..arity).map(|_| avail[rng.below(avail.len() as u64) as usize]).collect();
        nodes.push(NodeSpec::Op { inputs: ins.iter().map(|x| Some(*x)).collect(), outputs: op_outs[j].iter().map(|x| Some(*x)).collect(), captures: vec![], in_place: rng.chance(1, 3) });
        op_inputs.push(ins);
        avail.extend(op_outs[j].iter().copied());
    }
    let gs = GraphSpec { nodes, captures: vec![] };
    let all_ins: Vec<u32> = (0..n_in).collect();
    let all_outs: Vec<u32> = op_outs.iter().flatten().copied().collect();
    let pick_outs = |rng: &mut SplitMix64, k: usize| -> Vec<u32> {
        let mut o = vec![];
        while o.len() < k.min(all_outs.len()) {
            let v = all_outs[rng.below(all_outs.len() as u64) as usize];
            if !o.contains(&v) {
                o.push(v);
            }
        }
        o
    };
    let mut shapes: Vec<String> = vec![];
    // run shapes with all graph inputs and different output sets
    for k in [1usize, 1, 2, 3] {
        shapes.push(format!("R|{}>{}", fmt_ids(&all_ins), fmt_ids(&pick_outs(rng, k))));
    }
    // run shapes that feed an intermediate value: the inputs of an operator late in the graph
    for _ in 0..2 {
        let j = (n_ops as usize / 2) + rng.below((n_ops as u64 + 1) / 2) as usize;
        let mut ins: Vec<u32> = op_inputs[j].iter().copied().filter(|v| *v != n_in).collect(); // not the constant
        ins.sort();
        ins.dedup();
        shapes.push(format!("R|{}>{}", fmt_ids(&ins), op_outs[j][0]));
    }
    // a permutation of the first shape (same cache key, other order)
    {
        let mut ins = all_ins.clone();
        ins.reverse();
        shapes.push(format!("R|{}>{}", fmt_ids(&ins), fmt_ids(&pick_outs(rng, 2))));
    }
    // partial runs (do not use the plan cache, but run at the same time)
    shapes.push(format!("P|{}>{}", fmt_ids(&all_ins[..1]), fmt_ids(&pick_outs(rng, 2))));
    writeln!(out, "S#{}#{}#{}#{}", gs.fmt(), shapes.join("/"), threads, iters).unwrap();
}

fn generate(seed: u64, n: usize, tier: &str, out: &mut dyn Write) {
    let mut rng = SplitMix64(seed ^ 0x22);
    // stress lines first: 8 threads hammering one shared graph
    let (lines, iters) = if tier == "thorough" { (12, 12000) } else { (4, 4000) };
    for _ in 0..lines {
        stress_gen(&mut rng, 8, iters, out);
    }
    for _ in 0..n {
        // closed acyclic graph with several alternative outputs
        let n_in = 2 + rng.below(3) as u32;
        let n_ops = 2 + rng.below(6) as u32;
        let mut nodes: Vec<NodeSpec> = (0..n_in).map(|_| NodeSpec::Value { dtype: None, shape: None }).collect();
        nodes.push(NodeSpec::Constant);
        let n_src = n_in + 1;
        let mut op_outs: Vec<Vec<u32>> = vec![];
        for _ in 0..n_ops {
            let k = if rng.chance(1, 4) { 2 } else { 1 };
            let mut o = vec![];
            for _ in 0..k {
                o.push(nodes.len() as u32);
                nodes.push(NodeSpec::Value { dtype: None, shape: None });
            }
            op_outs.push(o);
        }
        let mut avail: Vec<u32> = (0..n_src).collect();
        for j in 0..n_ops as usize {
            let arity = 1 + rng.below(3) as usize;
            let inputs: Vec<Option<u32>> = (0..arity).map(|_| Some(avail[rng.below(avail.len() as u64) as usize])).collect();
            let outputs: Vec<Option<u32>> = op_outs[j].iter().map(|x| Some(*x)).collect();
            nodes.push(NodeSpec::Op { inputs, outputs, captures: vec![], in_place: rng.chance(1, 3) });
            avail.extend(op_outs[j].iter().copied());
        }
        let gs = GraphSpec { nodes, captures: vec![] };
        let all_ins: Vec<u32> = (0..n_in).collect();
        let all_outs: Vec<u32> = op_outs.iter().flatten().copied().collect();
        // 2-3 base requests, then a sequence alternating between them and their permutations
        let mut bases: Vec<Call> = vec![];
        for b in 0..2 + rng.below(2) {
            let mut outs = vec![];
            for _ in 0..1 + rng.below(3) {
                let v = all_outs[rng.below(all_outs.len() as u64) as usize];
                if !outs.contains(&v) {
                    outs.push(v);
                }
            }
            let mut ins = all_ins.clone();
            if b == 1 && rng.chance(1, 2) {
                // a different input set: also feed an intermediate value
                ins.push(all_outs[rng.below(all_outs.len() as u64) as usize]);
            }
            bases.push(Call { ins, outs });
        }
        let mut calls = vec![];
        for _ in 0..3 + rng.below(6) {
            let mut c = bases[rng.below(bases.len() as u64) as usize].clone();
            match rng.below(12) {
                0 | 1 => c.ins.reverse(),
                2 | 3 => c.outs.reverse(),
                4 => { c.ins.reverse(); c.outs.reverse(); }
                5 => { let a = c.ins[0]; let l = c.ins.len() - 1; c.ins[l] = a; }         // [a,..,a]: duplicate, same length
                6 if c.outs.len() > 1 => { let a = c.outs[0]; let l = c.outs.len() - 1; c.outs[l] = a; }
                7 => { c.ins.pop(); }                                                      // missing input
                _ => {}
            }
            calls.push(c);
        }
        let threads = 2 + rng.below(7);
        let cs: Vec<String> = calls.iter().map(|c| format!("{}>{}", fmt_ids(&c.ins), fmt_ids(&c.outs))).collect();
        writeln!(out, "{}#{}#{}", gs.fmt(), cs.join("/"), threads).unwrap();
    }
}

fn main() {
    harness_main(generate, exec_line, fail_line, 180000);
}
