//! C22 correspondence / observation: one graph shared by several threads calling `Graph::run`
//! (the body of `Model::run`) with alternating input / output sets.
//!
//!   c22 gen <seed> <n> <tier>     print input lines `graph#call/call/...#threads`
//!   c22 exec                      read input lines, print `tag \t input \t coq-case`
//!
//! A call is `ins>outs` (ids; every input is an f32 scalar view whose value depends on the
//! call index). For every line the harness
//!  1. runs the calls one after the other on one graph from one thread and records the operator
//!     sequence each call executed (this exposes plan-cache hits: a hit replays the cached order);
//!  2. runs every call alone on a fresh graph (reference result);
//!  3. runs the calls from `threads` threads on ONE shared graph (each thread loops over its
//!     share of the calls several times, with the global or a per-call thread pool) and compares
//!     every result with the reference.
use rten::verif::planner::{InputSpec, NodeSpec, OutValue};
use std::io::Write;
use vh_planner::*;

#[derive(Clone, Debug)]
struct Call {
    ins: Vec<u32>,
    outs: Vec<u32>,
}

fn parse_call(s: &str) -> Call {
    let (a, b) = s.split_once('>').unwrap();
    Call { ins: parse_ids(a), outs: parse_ids(b) }
}

fn inputs_for(c: &Call, idx: usize) -> Vec<InputSpec> {
    c.ins
        .iter()
        .enumerate()
        .map(|(k, id)| InputSpec { id: *id, dtype: 0, shape: vec![], seq: false, owned: (idx + k) % 3 == 0, fill: (idx * 7 + k * 3 + 1) as i32 })
        .collect()
}

type Res = Result<Vec<OutValue>, (String, String)>;

fn res_eq(a: &Res, b: &Res) -> bool {
    match (a, b) {
        (Ok(x), Ok(y)) => x == y,
        (Err((k1, m1)), Err((k2, m2))) => k1 == k2 && m1 == m2,
        _ => false,
    }
}

fn exec_line(line: &str) -> String {
    let parts: Vec<&str> = line.split('#').collect();
    assert!(parts.len() == 3, "bad line");
    let gs = GraphSpec::parse(parts[0]);
    let calls: Vec<Call> = parts[1].split('/').filter(|s| !s.is_empty()).map(parse_call).collect();
    let threads: usize = parts[2].parse().unwrap();

    // 1. sequential, one graph, one thread
    let g1 = gs.build();
    let mut seq_terms = vec![];
    let mut seq_res: Vec<Res> = vec![];
    let mut n_err = 0;
    for (i, c) in calls.iter().enumerate() {
        g1.take_log();
        let r = std::panic::catch_unwind(std::panic::AssertUnwindSafe(|| g1.run(&inputs_for(c, i), &c.outs, None)));
        let log = g1.take_log();
        let (term, res): (String, Res) = match r {
            Ok(Ok(v)) => (format!("(Ok {})", coq_ids(&log)), Ok(v)),
            Ok(Err((k, m))) => {
                n_err += 1;
                (format!("(Err {})", coq_plan_error(&k, &m)), Err((k, m)))
            }
            Err(_) => ("Panic".to_string(), Err(("panic".to_string(), String::new()))),
        };
        seq_terms.push(format!("mkcall {} {} {}", coq_ids(&c.ins), coq_ids(&c.outs), term));
        seq_res.push(res);
    }
    // 2. every call alone on a fresh graph
    let mut conc_ok = true;
    let mut alone: Vec<Res> = vec![];
    for (i, c) in calls.iter().enumerate() {
        let g = gs.build();
        let r = std::panic::catch_unwind(std::panic::AssertUnwindSafe(|| g.run(&inputs_for(c, i), &c.outs, None)));
        let r: Res = match r {
            Ok(r) => r,
            Err(_) => Err(("panic".to_string(), String::new())),
        };
        if !res_eq(&r, &seq_res[i]) {
            conc_ok = false; // a warm cache changed the result of a call
        }
        alone.push(r);
    }
    // 3. concurrent on one shared graph
    let g2 = gs.build();
    let rounds = 6;
    let ok = std::sync::atomic::AtomicBool::new(true);
    std::thread::scope(|s| {
        for t in 0..threads {
            let g2 = &g2;
            let calls = &calls;
            let alone = &alone;
            let ok = &ok;
            s.spawn(move || {
                for round in 0..rounds {
                    for (i, c) in calls.iter().enumerate() {
                        if (i + round) % threads != t {
                            continue;
                        }
                        let pool = if (i + t + round) % 3 == 0 { Some(1 + (i % 2)) } else { None };
                        let r = std::panic::catch_unwind(std::panic::AssertUnwindSafe(|| g2.run(&inputs_for(c, i), &c.outs, pool)));
                        let r: Res = match r {
                            Ok(r) => r,
                            Err(_) => Err(("panic".to_string(), String::new())),
                        };
                        if !res_eq(&r, &alone[i]) {
                            ok.store(false, std::sync::atomic::Ordering::SeqCst);
                        }
                    }
                }
            });
        }
    });
    conc_ok = conc_ok && ok.load(std::sync::atomic::Ordering::SeqCst);
    let tag = format!("t{}-calls{}-{}{}", threads, calls.len().min(9), if n_err > 0 { "witherr" } else { "allok" }, if conc_ok { "" } else { "-anomaly" });
    format!(
        "{}\t{}\t{{| q_graph := {}; q_calls := [{}]; q_conc_ok := {} |}}",
        tag, line, gs.coq(), seq_terms.join(";"), conc_ok
    )
}

fn fail_line(line: &str, kind: Fail) -> String {
    let gs = GraphSpec::parse(line.split('#').next().unwrap());
    let (o, t, ok) = match kind {
        Fail::Hang => ("Timeout", "anomaly-timeout", false),
        Fail::Crash => ("Panic", "anomaly-crash", false),
        Fail::Skip => ("NotRun", "notrun", true),
    };
    format!("{}\t{}\t{{| q_graph := {}; q_calls := [mkcall [] [] {}]; q_conc_ok := {} |}}", t, line, gs.coq(), o, ok)
}

fn generate(seed: u64, n: usize, _tier: &str, out: &mut dyn Write) {
    let mut rng = SplitMix64(seed ^ 0x22);
    for _ in 0..n {
        // closed acyclic graph with several alternative outputs
        let n_in = 2 + rng.below(3) as u32;
        let n_ops = 2 + rng.below(6) as u32;
        let mut nodes: Vec<NodeSpec> = (0..n_in).map(|_| NodeSpec::Value { dtype: None, shape: None }).collect();
        nodes.push(NodeSpec::Constant);
        let n_src = n_in + 1;
        let mut op_outs: Vec<Vec<u32>> = vec![];
        for _ in 0..n_ops {
            let k = if rng.chance(1, 4) { 2 } else { 1 };
            let mut o = vec![];
            for _ in 0..k {
                o.push(nodes.len() as u32);
                nodes.push(NodeSpec::Value { dtype: None, shape: None });
            }
            op_outs.push(o);
        }
        let mut avail: Vec<u32> = (0..n_src).collect();
        for j in 0..n_ops as usize {
            let arity = 1 + rng.below(3) as usize;
            let inputs: Vec<Option<u32>> = (0..arity).map(|_| Some(avail[rng.below(avail.len() as u64) as usize])).collect();
            let outputs: Vec<Option<u32>> = op_outs[j].iter().map(|x| Some(*x)).collect();
            nodes.push(NodeSpec::Op { inputs, outputs, captures: vec![], in_place: rng.chance(1, 3) });
            avail.extend(op_outs[j].iter().copied());
        }
        let gs = GraphSpec { nodes, captures: vec![] };
        let all_ins: Vec<u32> = (0..n_in).collect();
        let all_outs: Vec<u32> = op_outs.iter().flatten().copied().collect();
        // 2-3 base requests, then a sequence alternating between them and their permutations
        let mut bases: Vec<Call> = vec![];
        for b in 0..2 + rng.below(2) {
            let mut outs = vec![];
            for _ in 0..1 + rng.below(3) {
                let v = all_outs[rng.below(all_outs.len() as u64) as usize];
                if !outs.contains(&v) {
                    outs.push(v);
                }
            }
            let mut ins = all_ins.clone();
            if b == 1 && rng.chance(1, 2) {
                // a different input set: also feed an intermediate value
                ins.push(all_outs[rng.below(all_outs.len() as u64) as usize]);
            }
            bases.push(Call { ins, outs });
        }
        let mut calls = vec![];
        for _ in 0..3 + rng.below(6) {
            let mut c = bases[rng.below(bases.len() as u64) as usize].clone();
            match rng.below(12) {
                0 | 1 => c.ins.reverse(),
                2 | 3 => c.outs.reverse(),
                4 => { c.ins.reverse(); c.outs.reverse(); }
                5 => { let a = c.ins[0]; let l = c.ins.len() - 1; c.ins[l] = a; }         // [a,..,a]: duplicate, same length
                6 if c.outs.len() > 1 => { let a = c.outs[0]; let l = c.outs.len() - 1; c.outs[l] = a; }
                7 => { c.ins.pop(); }                                                      // missing input
                _ => {}
            }
            calls.push(c);
        }
        let threads = 2 + rng.below(7);
        let cs: Vec<String> = calls.iter().map(|c| format!("{}>{}", fmt_ids(&c.ins), fmt_ids(&c.outs))).collect();
        writeln!(out, "{}#{}#{}", gs.fmt(), cs.join("/"), threads).unwrap();
    }
}

fn main() {
    harness_main(generate, exec_line, fail_line, 20000);
}
