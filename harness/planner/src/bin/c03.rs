//! C03 correspondence: `Graph::execution_plan` (= `Planner::create_plan`) reached through the
//! `rten::verif::planner` hook.
//!
//!   c03 gen <seed> <n> <tier>     print input lines `graph#req/req/...`
//!   c03 exec                      read input lines, print `tag \t input \t coq-case`
//!
//! A request is `ins>outs>AC` with A = allow_missing_inputs, C = captures_available (0/1).
use rten::verif::planner::NodeSpec;
use std::io::Write;
use vh_planner::*;

#[derive(Clone, Debug)]
struct Req {
    ins: Vec<u32>,
    outs: Vec<u32>,
    am: bool,
    ca: bool,
}

fn parse_req(s: &str) -> Req {
    let p: Vec<&str> = s.split('>').collect();
    assert!(p.len() == 3, "bad request {:?}", s);
    let f: Vec<char> = p[2].chars().collect();
    Req { ins: parse_ids(p[0]), outs: parse_ids(p[1]), am: f[0] == '1', ca: f[1] == '1' }
}

fn fmt_req(r: &Req) -> String {
    format!("{}>{}>{}{}", fmt_ids(&r.ins), fmt_ids(&r.outs), r.am as u8, r.ca as u8)
}

/// Returns (outcome terms, tags)
fn run_line(gs: &GraphSpec, reqs: &[Req]) -> Vec<(String, String)> {
    let g = match std::panic::catch_unwind(|| gs.build()) {
        Ok(g) => g,
        Err(_) => return reqs.iter().map(|_| ("Panic".to_string(), "anomaly-build".to_string())).collect(),
    };
    reqs.iter()
        .map(|r| {
            let res = std::panic::catch_unwind(std::panic::AssertUnwindSafe(|| {
                g.execution_plan(&r.ins, &r.outs, r.am, r.ca)
            }));
            match res {
                Ok(Ok(plan)) => {
                    let tag = if plan.is_empty() { "ok-empty".to_string() } else { format!("ok-{}", plan.len().min(9)) };
                    (format!("(Ok {})", coq_ids(&plan)), tag)
                }
                Ok(Err((kind, msg))) => {
                    let t = coq_plan_error(&kind, &msg);
                    let tag = format!("err-{}", err_tag(&t));
                    (format!("(Err {})", t), tag)
                }
                Err(_) => ("Panic".to_string(), "anomaly-panic".to_string()),
            }
        })
        .collect()
}

fn exec_line(line: &str) -> String {
    format_line(line, None)
}

fn parse_reqs(rtxt: &str) -> (Vec<Req>, Option<u32>) {
    if let Some(nv) = rtxt.strip_prefix('*') {
        let nv: u32 = nv.parse().unwrap();
        return (all_requests(nv, true), Some(nv));
    }
    (rtxt.split('/').filter(|s| !s.is_empty()).map(parse_req).collect(), None)
}

/// the worker hung or died on this line
fn fail_line(line: &str, kind: Fail) -> String {
    let (_, rtxt) = line.split_once('#').unwrap();
    let (reqs, _) = parse_reqs(rtxt);
    let (o, t) = match kind {
        Fail::Hang => ("Timeout", "anomaly-timeout"),
        Fail::Crash => ("Panic", "anomaly-crash"),
        Fail::Skip => ("NotRun", "notrun"),
    };
    format_line(line, Some(reqs.iter().map(|_| (o.to_string(), t.to_string())).collect()))
}

fn format_line(line: &str, outs: Option<Vec<(String, String)>>) -> String {
    let (gtxt, rtxt) = line.split_once('#').unwrap();
    let gs = GraphSpec::parse(gtxt);
    let (reqs, all_nv) = parse_reqs(rtxt);
    let outs = match outs {
        Some(o) => o,
        None => run_line(&gs, &reqs),
    };
    let n_ops = gs.n_ops();
    // line tag: class of the graph + the most interesting outcome
    let mut tag = "trivial-empty".to_string();
    let mut best = 0;
    for (_, t) in &outs {
        let score = if t.starts_with("anomaly") { 4 } else if t.starts_with("ok-") && t != "ok-empty" { 3 } else if t.starts_with("err-") { 2 } else { 1 };
        if score > best {
            best = score;
            tag = t.clone();
        }
    }
    let tag = if best <= 1 { "trivial-empty".to_string() } else { format!("{}ops-{}", if n_ops <= 3 { n_ops.to_string() } else if n_ops <= 10 { "4to10".to_string() } else { "11to40".to_string() }, tag) };
    if let Some(nv) = all_nv {
        // compact form: table of distinct outcomes + one base-256 digit per request
        // (request i = digit i, least significant first; leading 01 sentinel)
        let mut table: Vec<String> = vec![];
        let mut hex = String::new();
        for (o, _) in outs.iter().rev() {
            let k = match table.iter().position(|t| t == o) {
                Some(k) => k,
                None => {
                    table.push(o.clone());
                    table.len() - 1
                }
            };
            assert!(k < 256);
            hex.push_str(&format!("{:02x}", k));
        }
        return format!(
            "{}\t{}\t{{| c_graph := {}; c_reqs := small_reqs {} [{}] 0x01{} |}}",
            tag, line, gs.coq(), nv, table.join(";"), hex
        );
    }
    let rterms: Vec<String> = reqs
        .iter()
        .zip(&outs)
        .map(|(r, (o, _))| format!("mkreq {} {} {} {} {}", coq_ids(&r.ins), coq_ids(&r.outs), r.am, r.ca, o))
        .collect();
    format!("{}\t{}\t{{| c_graph := {}; c_reqs := [{}] |}}", tag, line, gs.coq(), rterms.join(";"))
}

// ---------------------------------------------------------------- small scope

/// Alphabet of operators over `nv` value ids. `full` adds optional (None) inputs/outputs and
/// the in-place flag.
fn op_alphabet(nv: u32, full: bool) -> Vec<NodeSpec> {
    let mut slot: Vec<Option<u32>> = (0..nv).map(Some).collect();
    if full {
        slot.push(None);
    }
    let mut ins: Vec<Vec<Option<u32>>> = vec![vec![]];
    for a in &slot {
        ins.push(vec![*a]);
        for b in &slot {
            ins.push(vec![*a, *b]);
        }
    }
    let mut outs: Vec<Vec<Option<u32>>> = vec![];
    for a in 0..nv {
        outs.push(vec![Some(a)]);
        for b in 0..nv {
            outs.push(vec![Some(a), Some(b)]);
        }
        if full {
            outs.push(vec![None, Some(a)]);
        }
    }
    let flags: &[bool] = if full { &[false, true] } else { &[false] };
    let mut r = vec![];
    for i in &ins {
        for o in &outs {
            for f in flags {
                r.push(NodeSpec::Op { inputs: i.clone(), outputs: o.clone(), captures: vec![], in_place: *f });
            }
        }
    }
    r
}

fn small_graph(nv: u32, alphabet: &[NodeSpec], nops: u32, mut index: u64, const_last: bool) -> GraphSpec {
    let mut nodes: Vec<NodeSpec> = (0..nv)
        .map(|i| if const_last && i == nv - 1 { NodeSpec::Constant } else { NodeSpec::Value { dtype: None, shape: None } })
        .collect();
    for _ in 0..nops {
        nodes.push(alphabet[(index % alphabet.len() as u64) as usize].clone());
        index /= alphabet.len() as u64;
    }
    GraphSpec { nodes, captures: vec![] }
}

fn subsets(nv: u32) -> Vec<Vec<u32>> {
    (0..(1u32 << nv)).map(|m| (0..nv).filter(|i| m & (1 << i) != 0).collect()).collect()
}

fn all_requests(nv: u32, with_am: bool) -> Vec<Req> {
    let subs = subsets(nv);
    let mut r = vec![];
    for ins in &subs {
        for outs in subs.iter().filter(|s| !s.is_empty()) {
            r.push(Req { ins: ins.clone(), outs: outs.clone(), am: false, ca: false });
            if with_am {
                r.push(Req { ins: ins.clone(), outs: outs.clone(), am: true, ca: false });
            }
        }
    }
    r
}

fn sample_requests(rng: &mut SplitMix64, nv: u32, n: usize) -> Vec<Req> {
    (0..n)
        .map(|_| {
            let ins: Vec<u32> = (0..nv).filter(|_| rng.chance(1, 2)).collect();
            let mut outs: Vec<u32> = (0..nv).filter(|_| rng.chance(2, 5)).collect();
            if outs.is_empty() {
                outs.push(rng.below(nv as u64) as u32);
            }
            if rng.chance(1, 3) {
                outs.reverse();
            }
            Req { ins, outs, am: rng.chance(1, 4), ca: false }
        })
        .collect()
}

fn emit_all(out: &mut impl Write, gs: &GraphSpec, nv: u32) {
    writeln!(out, "{}#*{}", gs.fmt(), nv).unwrap();
}

fn emit(out: &mut impl Write, gs: &GraphSpec, reqs: &[Req]) {
    let r: Vec<String> = reqs.iter().map(fmt_req).collect();
    writeln!(out, "{}#{}", gs.fmt(), r.join("/")).unwrap();
}

// ---------------------------------------------------------------- random graphs

fn random_graph(rng: &mut SplitMix64, max_ops: u64) -> (GraphSpec, Vec<Req>) {
    let n_in = 1 + rng.below(4) as u32;
    let n_const = rng.below(3) as u32;
    let n_ops = 1 + rng.below(max_ops) as u32;
    // value ids: inputs, constants, then per-op outputs
    let mut nodes: Vec<NodeSpec> = vec![];
    for _ in 0..n_in {
        nodes.push(NodeSpec::Value { dtype: None, shape: None });
    }
    for _ in 0..n_const {
        nodes.push(NodeSpec::Constant);
    }
    let mut op_outs: Vec<Vec<u32>> = vec![];
    for _ in 0..n_ops {
        let k = match rng.below(10) { 0..=6 => 1, 7..=8 => 2, _ => 3 };
        let mut o = vec![];
        for _ in 0..k {
            o.push(nodes.len() as u32);
            nodes.push(NodeSpec::Value { dtype: None, shape: None });
        }
        op_outs.push(o);
    }
    let n_values = nodes.len() as u32;
    let first_op = n_values;
    let weird = rng.chance(1, 3); // inject irregularities in this graph?
    let mut avail: Vec<u32> = (0..n_in + n_const).collect();
    for j in 0..n_ops as usize {
        let arity = rng.below(4) as usize;
        let mut inputs: Vec<Option<u32>> = vec![];
        for _ in 0..arity {
            let x = match rng.below(40) {
                0 if weird => None,
                1 if weird => Some(rng.below(n_values as u64) as u32),                 // any value: may create a cycle
                2 if weird => Some(n_values + n_ops + 3 + rng.below(3) as u32),         // nonexistent id
                3 if weird => Some(first_op + rng.below(n_ops as u64) as u32),          // an operator id
                4 if weird && !op_outs[j].is_empty() => Some(op_outs[j][0]),            // self loop
                5..=9 if !inputs.is_empty() => inputs[rng.below(inputs.len() as u64) as usize], // repeated input
                _ => Some(avail[rng.below(avail.len() as u64) as usize]),
            };
            inputs.push(x);
        }
        let mut outputs: Vec<Option<u32>> = op_outs[j].iter().map(|x| Some(*x)).collect();
        if weird {
            match rng.below(12) {
                0 => outputs[0] = Some(rng.below(n_in as u64) as u32), // an output that is also a graph input (F11)
                1 if j > 0 => {
                    // shares an output with an earlier op (source replacement)
                    let e = &op_outs[rng.below(j as u64) as usize];
                    outputs[0] = Some(e[rng.below(e.len() as u64) as usize]);
                }
                2 => outputs.insert(0, None),
                3 => outputs.push(None),
                4 if outputs.len() > 1 => outputs[1] = outputs[0],
                _ => {}
            }
        }
        let mut captures = vec![];
        if rng.chance(1, 8) {
            for _ in 0..1 + rng.below(2) {
                captures.push(match rng.below(8) {
                    0 => n_values + n_ops + 7,
                    1 if !inputs.is_empty() => inputs[0].unwrap_or(0),
                    _ => avail[rng.below(avail.len() as u64) as usize],
                });
            }
        }
        nodes.push(NodeSpec::Op { inputs, outputs, captures, in_place: rng.chance(1, 3) });
        avail.extend(op_outs[j].iter().copied());
    }
    let mut gcaps = vec![];
    if rng.chance(1, 5) {
        gcaps.push(rng.below(n_in as u64) as u32);
    }
    let gs = GraphSpec { nodes, captures: gcaps.clone() };
    // requests
    let mut reqs = vec![];
    for _ in 0..4 + rng.below(3) {
        let mut ins: Vec<u32> = (0..n_in).filter(|i| !gcaps.contains(i) || rng.chance(1, 2)).collect();
        let mut outs: Vec<u32> = vec![];
        for _ in 0..1 + rng.below(3) {
            let o = &op_outs[rng.below(n_ops as u64) as usize];
            let v = o[rng.below(o.len() as u64) as usize];
            if !outs.contains(&v) {
                outs.push(v);
            }
        }
        match rng.below(24) {
            0 if !ins.is_empty() => { ins.remove(rng.below(ins.len() as u64) as usize); }   // missing input
            1 => ins.push(n_in + n_const + rng.below((n_values - n_in - n_const) as u64) as u32), // intermediate as input
            2 if !ins.is_empty() => ins.push(ins[0]),                                        // duplicate input
            3 => ins.push(first_op + rng.below(n_ops as u64) as u32),                        // operator id as input
            4 => ins.push(n_values + n_ops + 11),                                            // unknown id
            5 => outs.push(outs[0]),                                                          // duplicate output
            6 => outs.push(first_op + rng.below(n_ops as u64) as u32),
            7 => outs.push(n_values + n_ops + 12),
            8 => outs.push(rng.below((n_in + n_const) as u64) as u32),                        // input/constant as output
            9 => { ins.clear(); }
            10 => ins.reverse(),
            _ => {}
        }
        let mut dedup = ins.clone();
        dedup.dedup();
        reqs.push(Req { ins, outs, am: rng.chance(1, 5), ca: rng.chance(1, 2) });
    }
    (gs, reqs)
}

fn generate(seed: u64, n: usize, tier: &str, out: &mut impl Write) {
    let mut rng = SplitMix64(seed);
    let thorough = tier == "thorough";
    // (a) scope (3 values, 2 ops), core alphabet: exhaustive in the thorough tier, sampled in quick;
    //     every graph with ALL input subsets x non-empty output subsets, allow_missing off and on
    let core3 = op_alphabet(3, false);
    let space = (core3.len() as u64).pow(2);
    if thorough {
        for idx in 0..space {
            emit_all(out, &small_graph(3, &core3, 2, idx, false), 3);
        }
    } else {
        for _ in 0..n / 8 {
            emit_all(out, &small_graph(3, &core3, 2, rng.below(space), false), 3);
        }
    }
    // one-operator graphs over 3 values, full alphabet: always exhaustive
    let full3 = op_alphabet(3, true);
    for idx in 0..full3.len() as u64 {
        emit_all(out, &small_graph(3, &full3, 1, idx, idx % 2 == 1), 3);
    }
    // (b) scope (3 values, 2 ops), full alphabet (optional inputs/outputs, in-place flag, constant): sampled
    let space = (full3.len() as u64).pow(2);
    for _ in 0..n / 8 {
        let c = rng.chance(1, 3);
        emit_all(out, &small_graph(3, &full3, 2, rng.below(space), c), 3);
    }
    // (c) scope (5 values, 3 ops), full alphabet: sampled graphs x sampled requests
    let full5 = op_alphabet(5, true);
    let space = (full5.len() as u64).pow(3);
    for _ in 0..n / 2 {
        let c = rng.chance(1, 3);
        let g = small_graph(5, &full5, 3, rng.below(space), c);
        let r = sample_requests(&mut rng, 5, 16);
        emit(out, &g, &r);
    }
    // (d) random graphs up to 40 operators
    for i in 0..n / 4 {
        let max_ops = if i % 3 == 0 { 40 } else { 10 };
        let (g, r) = random_graph(&mut rng, max_ops);
        emit(out, &g, &r);
    }
}

fn generate_dyn(seed: u64, n: usize, tier: &str, out: &mut dyn Write) {
    let mut out = out;
    generate(seed, n, tier, &mut out);
}

fn main() {
    harness_main(generate_dyn, exec_line, fail_line, 4000);
}
