//! Shared helpers for the planner-group correspondence harness (C03, C26, C22).
//!
//! Text format of a graph (one token, no spaces):
//!   nodes separated by `;` -- node i gets node ID i:
//!     `v`                         value node without metadata
//!     `v<T>[dims]`                value node with dtype T (f,i,b,u = f32,i32,i8,u8; F,I,B,U = sequence of ..;
//!                                 `-` = no dtype) and optional shape `[2,_,3]` (`_` symbolic); e.g. `vf[2,_]`, `v-[1]`
//!     `k`                         constant
//!     `o:<ins>:<outs>:<caps>:<f>` operator; ins/outs = comma lists of ids or `_` (None); caps = comma list of
//!                                 captured node ids; f = `i` (in-place capable) or `n`
//!   after `|`: comma list of the graph's own capture ids.
use rten::verif::planner::{NodeSpec, TestGraph};

pub struct SplitMix64(pub u64);
impl SplitMix64 {
    pub fn next(&mut self) -> u64 {
        self.0 = self.0.wrapping_add(0x9E3779B97F4A7C15);
        let mut z = self.0;
        z = (z ^ (z >> 30)).wrapping_mul(0xBF58476D1CE4E5B9);
        z = (z ^ (z >> 27)).wrapping_mul(0x94D049BB133111EB);
        z ^ (z >> 31)
    }
    pub fn below(&mut self, n: u64) -> u64 {
        if n == 0 { 0 } else { self.next() % n }
    }
    pub fn pick<T: Copy>(&mut self, xs: &[T]) -> T {
        xs[self.below(xs.len() as u64) as usize]
    }
    pub fn chance(&mut self, num: u64, den: u64) -> bool {
        self.below(den) < num
    }
}

pub fn quiet_panics() {
    std::panic::set_hook(Box::new(|_| {}));
}

pub fn parse_ids(s: &str) -> Vec<u32> {
    if s.trim().is_empty() {
        return vec![];
    }
    s.split(',').map(|x| x.trim().parse::<u32>().unwrap()).collect()
}

pub fn parse_opt_ids(s: &str) -> Vec<Option<u32>> {
    if s.trim().is_empty() {
        return vec![];
    }
    s.split(',')
        .map(|x| if x.trim() == "_" { None } else { Some(x.trim().parse::<u32>().unwrap()) })
        .collect()
}

pub fn fmt_ids(xs: &[u32]) -> String {
    xs.iter().map(|x| x.to_string()).collect::<Vec<_>>().join(",")
}

pub fn fmt_opt_ids(xs: &[Option<u32>]) -> String {
    xs.iter()
        .map(|x| match x {
            Some(v) => v.to_string(),
            None => "_".to_string(),
        })
        .collect::<Vec<_>>()
        .join(",")
}

pub fn coq_ids(xs: &[u32]) -> String {
    format!("[{}]", xs.iter().map(|x| x.to_string()).collect::<Vec<_>>().join(";"))
}

pub fn coq_opt_ids(xs: &[Option<u32>]) -> String {
    let v: Vec<String> = xs
        .iter()
        .map(|x| match x {
            Some(v) => format!("Some {}", v),
            None => "None".to_string(),
        })
        .collect();
    format!("[{}]", v.join(";"))
}

fn dtype_code(c: char) -> Option<(bool, u8)> {
    match c {
        'f' => Some((false, 0)),
        'i' => Some((false, 1)),
        'b' => Some((false, 2)),
        'u' => Some((false, 3)),
        'F' => Some((true, 0)),
        'I' => Some((true, 1)),
        'B' => Some((true, 2)),
        'U' => Some((true, 3)),
        _ => None,
    }
}

pub fn dtype_char(d: (bool, u8)) -> char {
    let c = ['f', 'i', 'b', 'u'][d.1 as usize];
    if d.0 { c.to_ascii_uppercase() } else { c }
}

pub fn parse_node(tok: &str) -> NodeSpec {
    if tok == "k" {
        return NodeSpec::Constant;
    }
    if let Some(rest) = tok.strip_prefix('v') {
        let mut dtype = None;
        let mut shape = None;
        let mut rest = rest;
        if let Some(c) = rest.chars().next() {
            if c != '[' {
                dtype = dtype_code(c);
                rest = &rest[1..];
            }
        }
        if let Some(inner) = rest.strip_prefix('[') {
            let inner = inner.strip_suffix(']').unwrap();
            let dims: Vec<Option<usize>> = if inner.is_empty() {
                vec![]
            } else {
                inner
                    .split(',')
                    .map(|d| if d == "_" { None } else { Some(d.parse().unwrap()) })
                    .collect()
            };
            shape = Some(dims);
        }
        return NodeSpec::Value { dtype, shape };
    }
    let parts: Vec<&str> = tok.split(':').collect();
    assert!(parts.len() == 5 && parts[0] == "o", "bad node token {:?}", tok);
    NodeSpec::Op {
        inputs: parse_opt_ids(parts[1]),
        outputs: parse_opt_ids(parts[2]),
        captures: parse_ids(parts[3]),
        in_place: parts[4] == "i",
    }
}

pub fn fmt_node(n: &NodeSpec) -> String {
    match n {
        NodeSpec::Constant => "k".to_string(),
        NodeSpec::Value { dtype, shape } => {
            let mut s = "v".to_string();
            match (dtype, shape) {
                (Some(d), _) => s.push(dtype_char(*d)),
                (None, Some(_)) => s.push('-'),
                _ => {}
            }
            if let Some(dims) = shape {
                let v: Vec<String> = dims
                    .iter()
                    .map(|d| match d {
                        Some(x) => x.to_string(),
                        None => "_".to_string(),
                    })
                    .collect();
                s.push_str(&format!("[{}]", v.join(",")));
            }
            s
        }
        NodeSpec::Op { inputs, outputs, captures, in_place } => format!(
            "o:{}:{}:{}:{}",
            fmt_opt_ids(inputs),
            fmt_opt_ids(outputs),
            fmt_ids(captures),
            if *in_place { "i" } else { "n" }
        ),
    }
}

#[derive(Clone, Debug)]
pub struct GraphSpec {
    pub nodes: Vec<NodeSpec>,
    pub captures: Vec<u32>,
}

impl GraphSpec {
    pub fn parse(s: &str) -> GraphSpec {
        let (nodes, caps) = s.split_once('|').unwrap_or((s, ""));
        GraphSpec {
            nodes: if nodes.is_empty() { vec![] } else { nodes.split(';').map(parse_node).collect() },
            captures: parse_ids(caps),
        }
    }
    pub fn fmt(&self) -> String {
        format!(
            "{}|{}",
            self.nodes.iter().map(fmt_node).collect::<Vec<_>>().join(";"),
            fmt_ids(&self.captures)
        )
    }
    pub fn build(&self) -> TestGraph {
        TestGraph::build(&self.nodes, &self.captures)
    }
    /// Coq term of type `Planner.Graph.graph` (`mk_graph nodes captures`).
    pub fn coq(&self) -> String {
        let nodes: Vec<String> = self
            .nodes
            .iter()
            .enumerate()
            .map(|(i, n)| match n {
                NodeSpec::Constant => format!("({},Constant)", i),
                NodeSpec::Value { .. } => format!("({},Value)", i),
                NodeSpec::Op { inputs, outputs, captures, in_place } => format!(
                    "({},Op (mkop {} {} {} {}))",
                    i,
                    coq_opt_ids(inputs),
                    coq_opt_ids(outputs),
                    coq_ids(captures),
                    in_place
                ),
            })
            .collect();
        format!("(mk_graph [{}] {})", nodes.join(";"), coq_ids(&self.captures))
    }
    pub fn n_ops(&self) -> usize {
        self.nodes.iter().filter(|n| matches!(n, NodeSpec::Op { .. })).count()
    }
}

/// Parse a node reference as printed by `Graph::node_name`: `n<k>` or `[ID: <k>]`.
fn parse_name(s: &str) -> Option<u32> {
    if let Some(r) = s.strip_prefix('n') {
        return r.parse().ok();
    }
    s.strip_prefix("[ID: ")?.strip_suffix(']')?.parse().ok()
}

fn quoted(msg: &str) -> Vec<&str> {
    msg.split('"').skip(1).step_by(2).collect()
}

/// Map a planning error message to a Coq term of type `Planner.PlannerModel.plan_error`.
pub fn coq_plan_error(kind: &str, msg: &str) -> String {
    let other = || format!("EOther");
    if kind != "PlanningError" {
        return other();
    }
    let Some(m) = msg.strip_prefix("planning error: ") else { return other() };
    let q = quoted(m);
    let name = |i: usize| q.get(i).and_then(|s| parse_name(s));
    let index = |prefix: &str| -> Option<u32> {
        m.strip_prefix(prefix)?.split(' ').next()?.parse().ok()
    };
    if m.starts_with("Outputs are not unique") {
        if let Some(v) = name(0) { return format!("(EDupOutput {})", v); }
    } else if m.starts_with("Inputs are not unique") {
        if let Some(v) = name(0) { return format!("(EDupInput {})", v); }
    } else if m.starts_with("Output ") && m.ends_with("is not a value node in the graph.") {
        if let Some(i) = index("Output ") { return format!("(EBadOutput {})", i); }
    } else if m.starts_with("Input ") && m.ends_with("is not a value node in the graph.") {
        if let Some(i) = index("Input ") { return format!("(EBadInput {})", i); }
    } else if m.starts_with("Encountered cycle") {
        if let (Some(d), Some(o)) = (name(0), name(1)) { return format!("(ECycle {} {})", d, o); }
    } else if m.starts_with("Missing input") {
        if let (Some(d), Some(o)) = (name(0), name(1)) { return format!("(EMissing {} {})", d, o); }
    } else if m.starts_with("Source node not found") {
        if let Some(v) = name(0) { return format!("(ENoSource {})", v); }
    }
    other()
}

/// Short tag for an error term (for the histogram).
pub fn err_tag(term: &str) -> &'static str {
    for (p, t) in [
        ("(EDupOutput", "dupout"), ("(EDupInput", "dupin"), ("(EBadOutput", "badout"), ("(EBadInput", "badin"),
        ("(ECycle", "cycle"), ("(EMissing", "missing"), ("(ENoSource", "nosource"),
    ] {
        if term.starts_with(p) { return t; }
    }
    "other"
}

// ---------------------------------------------------------------- exec driver with watchdog
//
// `exec` is a master process that feeds the input lines one at a time to a worker process
// (`exec-worker`, the same binary) and waits for each answer with a time limit. A worker that
// hangs (the planner of an unfixed or mutated tree can loop forever while allocating), aborts
// (stack overflow in a recursion without cycle check) or dies is killed / restarted, and the line
// is answered by `on_fail(line, Hang | Crash)`. After a few such failures the remaining lines are
// answered by `on_fail(line, Skip)` so that a badly broken tree does not stall the check.
#[derive(Clone, Copy, PartialEq, Debug)]
pub enum Fail {
    Hang,
    Crash,
    Skip,
}

struct Worker {
    child: std::process::Child,
    stdin: std::process::ChildStdin,
    rx: std::sync::mpsc::Receiver<String>,
}

fn spawn_worker() -> Worker {
    use std::io::BufRead;
    let exe = std::env::current_exe().unwrap();
    let mut child = std::process::Command::new(exe)
        .arg("exec-worker")
        .stdin(std::process::Stdio::piped())
        .stdout(std::process::Stdio::piped())
        .stderr(std::process::Stdio::null())
        .spawn()
        .unwrap();
    let stdin = child.stdin.take().unwrap();
    let stdout = child.stdout.take().unwrap();
    let (tx, rx) = std::sync::mpsc::channel();
    std::thread::spawn(move || {
        for l in std::io::BufReader::new(stdout).lines() {
            match l {
                Ok(l) => {
                    if tx.send(l).is_err() {
                        break;
                    }
                }
                Err(_) => break,
            }
        }
    });
    Worker { child, stdin, rx }
}

pub fn exec_master(lines: Vec<String>, limit: std::time::Duration, on_fail: fn(&str, Fail) -> String) {
    use std::io::Write;
    let stdout = std::io::stdout();
    let mut out = std::io::BufWriter::new(stdout.lock());
    let mut worker: Option<Worker> = None;
    let mut failures = 0;
    for line in lines.iter() {
        if line.trim().is_empty() {
            continue;
        }
        if failures >= 4 {
            writeln!(out, "{}", on_fail(line, Fail::Skip)).unwrap();
            continue;
        }
        if worker.is_none() {
            worker = Some(spawn_worker());
        }
        let w = worker.as_mut().unwrap();
        let sent = writeln!(w.stdin, "{}", line).and_then(|_| w.stdin.flush());
        let answer = if sent.is_ok() { w.rx.recv_timeout(limit) } else { Err(std::sync::mpsc::RecvTimeoutError::Disconnected) };
        match answer {
            Ok(s) => writeln!(out, "{}", s).unwrap(),
            Err(e) => {
                let kind = if e == std::sync::mpsc::RecvTimeoutError::Timeout { Fail::Hang } else { Fail::Crash };
                let mut w = worker.take().unwrap();
                let _ = w.child.kill();
                let status = w.child.wait().ok();
                if kind == Fail::Crash {
                    // exit code 3 = the harness itself is broken (see exec_worker)
                    if status.and_then(|s| s.code()) == Some(3) {
                        eprintln!("harness worker failed on input line: {}", line);
                        std::process::exit(3);
                    }
                }
                failures += 1;
                writeln!(out, "{}", on_fail(line, kind)).unwrap();
                out.flush().unwrap();
            }
        }
    }
    out.flush().unwrap();
}

fn exec_worker(work: fn(&str) -> String) {
    use std::io::{BufRead, Write};
    let stdin = std::io::stdin();
    let stdout = std::io::stdout();
    for line in stdin.lock().lines() {
        let line = line.unwrap();
        // panics of the code under test are caught inside `work`; a panic that reaches this
        // point is a bug of the harness
        let r = std::panic::catch_unwind(|| work(&line));
        match r {
            Ok(s) => {
                let mut o = stdout.lock();
                writeln!(o, "{}", s).unwrap();
                o.flush().unwrap();
            }
            Err(_) => std::process::exit(3),
        }
    }
}

/// Standard `main` for the harness binaries: `gen <seed> <n> <tier>`, `exec`, `exec-worker`.
pub fn harness_main(
    generate: fn(u64, usize, &str, &mut dyn std::io::Write),
    work: fn(&str) -> String,
    on_fail: fn(&str, Fail) -> String,
    limit_ms: u64,
) {
    use std::io::BufRead;
    quiet_panics();
    let args: Vec<String> = std::env::args().collect();
    let limit = std::time::Duration::from_millis(limit_ms);
    match args.get(1).map(|s| s.as_str()) {
        Some("gen") => {
            let seed: u64 = args[2].parse().unwrap();
            let n: usize = args[3].parse().unwrap();
            let stdout = std::io::stdout();
            let mut out = std::io::BufWriter::new(stdout.lock());
            generate(seed, n, &args[4], &mut out);
        }
        Some("exec") => {
            let lines: Vec<String> = std::io::stdin().lock().lines().map(|l| l.unwrap()).collect();
            exec_master(lines, limit, on_fail);
        }
        Some("exec-worker") => exec_worker(work),
        _ => {
            eprintln!("usage: {} gen <seed> <n> <tier> | exec", args[0]);
            std::process::exit(2);
        }
    }
}
