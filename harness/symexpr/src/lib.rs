//! Shared helpers for the symexpr correspondence harness (C11; reused by C10).
//!
//! Text format of an expression (one token stream, prefix form):
//!   integer            `5`, `-3`
//!   symbol             `au` = symbol "a" declared positive (>= 0), `ai` = symbol "a" unconstrained
//!   `(op x y)`         op in `+ - * / dc max min bc`;  `(neg x)`
//! Symbol names are single lower-case letters; the Coq model identifies a symbol by
//! `name - 'a'` (an order-preserving map, so `str::cmp` on names = `N` order on ids).
use rten_shape_inference::{EvalError, SymExpr, Symbol, SymbolMap};
use std::sync::Arc;

pub struct SplitMix64(pub u64);
impl SplitMix64 {
    pub fn next(&mut self) -> u64 {
        self.0 = self.0.wrapping_add(0x9E3779B97F4A7C15);
        let mut z = self.0;
        z = (z ^ (z >> 30)).wrapping_mul(0xBF58476D1CE4E5B9);
        z = (z ^ (z >> 27)).wrapping_mul(0x94D049BB133111EB);
        z ^ (z >> 31)
    }
    pub fn below(&mut self, n: u64) -> u64 {
        if n == 0 { 0 } else { self.next() % n }
    }
    pub fn pick<T: Copy>(&mut self, xs: &[T]) -> T {
        xs[self.below(xs.len() as u64) as usize]
    }
    pub fn chance(&mut self, num: u64, den: u64) -> bool {
        self.below(den) < num
    }
}

/// Run `f`, mapping a panic to None.
pub fn no_panic<T>(f: impl FnOnce() -> T + std::panic::UnwindSafe) -> Option<T> {
    std::panic::catch_unwind(f).ok()
}

pub fn quiet_panics() {
    std::panic::set_hook(Box::new(|_| {}));
}

pub const NAMES: [&str; 5] = ["a", "b", "c", "d", "e"];

pub fn mk_var(id: usize, positive: bool) -> SymExpr {
    SymExpr::Var(Arc::new(Symbol { name: NAMES[id].to_string(), positive, synthetic: false }))
}

pub fn bin(op: &str, a: SymExpr, b: SymExpr) -> SymExpr {
    let (a, b) = (Arc::new(a), Arc::new(b));
    match op {
        "+" => SymExpr::Add(a, b),
        "-" => SymExpr::Sub(a, b),
        "*" => SymExpr::Mul(a, b),
        "/" => SymExpr::Div(a, b),
        "dc" => SymExpr::DivCeil(a, b),
        "max" => SymExpr::Max(a, b),
        "min" => SymExpr::Min(a, b),
        "bc" => SymExpr::Broadcast(a, b),
        _ => panic!("bad op {}", op),
    }
}

// ---------------------------------------------------------------- parsing
fn tokens(s: &str) -> Vec<String> {
    let mut out = vec![];
    let mut cur = String::new();
    for ch in s.chars() {
        match ch {
            '(' | ')' => {
                if !cur.is_empty() { out.push(std::mem::take(&mut cur)); }
                out.push(ch.to_string());
            }
            c if c.is_whitespace() => {
                if !cur.is_empty() { out.push(std::mem::take(&mut cur)); }
            }
            c => cur.push(c),
        }
    }
    if !cur.is_empty() { out.push(cur); }
    out
}

fn parse_at(t: &[String], i: &mut usize) -> SymExpr {
    let tok = &t[*i];
    *i += 1;
    if tok == "(" {
        let op = t[*i].clone();
        *i += 1;
        let e = if op == "neg" {
            let x = parse_at(t, i);
            SymExpr::Neg(Arc::new(x))
        } else {
            let a = parse_at(t, i);
            let b = parse_at(t, i);
            bin(&op, a, b)
        };
        assert_eq!(t[*i], ")");
        *i += 1;
        e
    } else if let Ok(v) = tok.parse::<i32>() {
        SymExpr::Value(v)
    } else {
        let b = tok.as_bytes();
        assert!(b.len() == 2 && (b[1] == b'u' || b[1] == b'i'), "bad symbol token {}", tok);
        let id = (b[0] - b'a') as usize;
        mk_var(id, b[1] == b'u')
    }
}

pub fn parse_expr(s: &str) -> SymExpr {
    let t = tokens(s);
    let mut i = 0;
    let e = parse_at(&t, &mut i);
    assert_eq!(i, t.len(), "trailing tokens in {}", s);
    e
}

// ---------------------------------------------------------------- printing
fn sym_id(sym: &Symbol) -> usize {
    NAMES.iter().position(|n| *n == sym.name).expect("unknown symbol name")
}

/// Same text format as the parser reads.
pub fn to_text(e: &SymExpr) -> String {
    let b = |op: &str, l: &SymExpr, r: &SymExpr| format!("({} {} {})", op, to_text(l), to_text(r));
    match e {
        SymExpr::Value(v) => v.to_string(),
        SymExpr::Var(s) => format!("{}{}", s.name, if s.positive { 'u' } else { 'i' }),
        SymExpr::Neg(x) => format!("(neg {})", to_text(x)),
        SymExpr::Add(l, r) => b("+", l, r),
        SymExpr::Sub(l, r) => b("-", l, r),
        SymExpr::Mul(l, r) => b("*", l, r),
        SymExpr::Div(l, r) => b("/", l, r),
        SymExpr::DivCeil(l, r) => b("dc", l, r),
        SymExpr::Max(l, r) => b("max", l, r),
        SymExpr::Min(l, r) => b("min", l, r),
        SymExpr::Broadcast(l, r) => b("bc", l, r),
    }
}

pub fn coq_z(v: i64) -> String {
    if v < 0 { format!("({})", v) } else { v.to_string() }
}

/// Structural dump as a Coq term of type `SymExpr.SymExprModel.expr`.
pub fn to_coq(e: &SymExpr) -> String {
    let b = |op: &str, l: &SymExpr, r: &SymExpr| format!("({} {} {})", op, to_coq(l), to_coq(r));
    match e {
        SymExpr::Value(v) => format!("(Value {})", coq_z(*v as i64)),
        SymExpr::Var(s) => format!("(Var {} {})", sym_id(s), s.positive),
        SymExpr::Neg(x) => format!("(Neg {})", to_coq(x)),
        SymExpr::Add(l, r) => b("Add", l, r),
        SymExpr::Sub(l, r) => b("Sub", l, r),
        SymExpr::Mul(l, r) => b("Mul", l, r),
        SymExpr::Div(l, r) => b("Div", l, r),
        SymExpr::DivCeil(l, r) => b("DivCeil", l, r),
        SymExpr::Max(l, r) => b("Max", l, r),
        SymExpr::Min(l, r) => b("Min", l, r),
        SymExpr::Broadcast(l, r) => b("Broadcast", l, r),
    }
}

/// Outcome of the implementation's `eval` as a Coq term of type `res`.
pub fn eval_outcome(e: &SymExpr, vals: &[Option<i32>]) -> String {
    let e = e.clone();
    let pairs: Vec<(&str, i32)> = vals.iter().enumerate().filter_map(|(i, v)| v.map(|v| (NAMES[i], v))).collect();
    let r = no_panic(std::panic::AssertUnwindSafe(|| {
        let map = SymbolMap::new(&pairs);
        e.eval(&map)
    }));
    match r {
        None => "EOvf".to_string(),
        Some(Ok(v)) => format!("(Ok {})", coq_z(v as i64)),
        Some(Err(EvalError::DivisionByZero)) => "EDivZero".to_string(),
        Some(Err(EvalError::MissingSymbol)) => "EMissing".to_string(),
        Some(Err(_)) => "EBcast".to_string(), // not produced by SymExpr::eval; makes the case disagree
    }
}

pub fn depth(e: &SymExpr) -> u32 {
    match e {
        SymExpr::Value(_) | SymExpr::Var(_) => 0,
        SymExpr::Neg(x) => 1 + depth(x),
        SymExpr::Add(l, r) | SymExpr::Sub(l, r) | SymExpr::Mul(l, r) | SymExpr::Div(l, r)
        | SymExpr::DivCeil(l, r) | SymExpr::Max(l, r) | SymExpr::Min(l, r) | SymExpr::Broadcast(l, r) => {
            1 + depth(l).max(depth(r))
        }
    }
}

/// (symbols used, symbols declared positive somewhere)
pub fn symbols(e: &SymExpr, used: &mut [bool; 5], pos: &mut [bool; 5]) {
    for n in e.iter() {
        if let SymExpr::Var(s) = n {
            let id = sym_id(s);
            used[id] = true;
            if s.positive { pos[id] = true; }
        }
    }
}
