//! C11 correspondence: SymExpr::{simplify, range, is_positive, eval} through the public API.
//!
//!   c11 gen <seed> <n> <tier> [lite]   print input lines `<seed>#<expr>` (text format of lib.rs)
//!   c11 exec                      read input lines, print `tag \t input \t coq-case`
//!
//! The same binary is built in release (wrapping i32 arithmetic) and debug (overflow panics);
//! the profile is recorded in the case (`c_w`).
use rten_shape_inference::SymExpr;
use std::io::{BufRead, Write};
use vh_symexpr::*;

const CONSTS: [i32; 13] = [0, 1, -1, 2, -2, 3, 7, 256, 768, 65536, i32::MIN, i32::MAX, 46341];
const OPS: [&str; 8] = ["+", "-", "*", "/", "dc", "max", "min", "bc"];
const VALS: [i32; 22] = [
    0, 1, 2, 3, 5, 7, 10, 12, 255, 256, 768, 32768, 65536, 46341, i32::MAX, i32::MAX - 1, -1, -2, -3, -7, -65536,
    i32::MIN,
];

// ------------------------------------------------------------------ exec
fn assignments(seed: u64, used: &[bool; 5], pos: &[bool; 5]) -> Vec<Vec<Option<i32>>> {
    let mut rng = SplitMix64(seed ^ 0xC11);
    let mut out: Vec<Vec<Option<i32>>> = vec![];
    let nsym = used.iter().filter(|u| **u).count();
    let mk = |f: &mut dyn FnMut(usize) -> i32| -> Vec<Option<i32>> {
        (0..5).map(|i| if used[i] { Some(f(i)) } else { None }).collect()
    };
    if nsym == 0 {
        out.push(mk(&mut |_| 0));
        return out;
    }
    // all symbols equal (Broadcast precondition holds between symbols), incl. 0 and 1
    for v in [0, 1, 7] {
        out.push(mk(&mut |_| v));
    }
    // pairwise different values with inexact quotients (7/2, 7/3, 2/3, ...); the second one with
    // negative values for the unconstrained symbols
    const ODD: [i32; 5] = [7, 2, 3, 5, 11];
    out.push(mk(&mut |i| ODD[i]));
    out.push(mk(&mut |i| if pos[i] { ODD[(i + 1) % 5] } else { -ODD[i] }));
    // unconstrained symbols -1, positive ones 1
    out.push(mk(&mut |i| if pos[i] { 1 } else { -1 }));
    // one symbol k, the others 1
    let k = rng.pick(&[2, 3, 256, 768]);
    let who = rng.below(5) as usize;
    out.push(mk(&mut |i| if i == who || !used[who] { k } else { 1 }));
    // small values: where most rewrites are decided
    for _ in 0..3 {
        out.push(mk(&mut |i| {
            let v = rng.below(9) as i32 - if pos[i] { 0 } else { 4 };
            if v == 0 && rng.chance(1, 2) { 1 } else { v }
        }));
    }
    // pool values (large, extremes); positive symbols get non-negative values 7 times out of 8
    for _ in 0..3 {
        out.push(mk(&mut |i| {
            let mut v = rng.pick(&VALS);
            if pos[i] && v < 0 && !rng.chance(1, 8) {
                v = if v == i32::MIN { i32::MAX } else { -v };
            }
            v
        }));
    }
    // rarely: a missing symbol
    if rng.chance(1, 16) {
        let mut a = mk(&mut |_| 3);
        if let Some(i) = (0..5).find(|i| used[*i]) { a[i] = None; }
        out.push(a);
    }
    out
}

fn coq_assign(a: &[Option<i32>]) -> String {
    let v: Vec<String> = a.iter().enumerate().filter_map(|(i, v)| v.map(|v| format!("({}%N,{})", i, coq_z(v as i64)))).collect();
    format!("[{}]", v.join(";"))
}

fn root_tag(e: &SymExpr) -> &'static str {
    match e {
        SymExpr::Value(_) => "value",
        SymExpr::Var(_) => "var",
        SymExpr::Neg(_) => "neg",
        SymExpr::Add(..) => "add",
        SymExpr::Sub(..) => "sub",
        SymExpr::Mul(..) => "mul",
        SymExpr::Div(..) => "div",
        SymExpr::DivCeil(..) => "divceil",
        SymExpr::Max(..) => "max",
        SymExpr::Min(..) => "min",
        SymExpr::Broadcast(..) => "bcast",
    }
}

fn exec_line(line: &str, release: bool) -> String {
    let (seed_s, text) = line.split_once('#').expect("input line must be seed#expr");
    let seed: u64 = seed_s.trim().parse().expect("seed");
    let e = parse_expr(text);
    let e1 = e.clone();
    let simp = no_panic(std::panic::AssertUnwindSafe(move || e1.simplify()));
    let e2 = e.clone();
    let range = no_panic(std::panic::AssertUnwindSafe(move || e2.range()));
    let e3 = e.clone();
    let ispos = no_panic(std::panic::AssertUnwindSafe(move || e3.is_positive()));
    let (mut used, mut pos) = ([false; 5], [false; 5]);
    symbols(&e, &mut used, &mut pos);
    let mut evals = vec![];
    for a in assignments(seed, &used, &pos) {
        let o = eval_outcome(&e, &a);
        let s = match &simp {
            Some(s) => eval_outcome(s, &a),
            None => "EMissing".to_string(),
        };
        evals.push(format!("({},{},{})", coq_assign(&a), o, s));
    }
    let d = depth(&e);
    let tag = if d == 0 {
        "trivial-leaf".to_string()
    } else {
        let changed = match &simp {
            None => "panic",
            Some(s) => if to_text(s) == to_text(&e) { "same" } else { "rewritten" },
        };
        format!("{}-d{}-{}", root_tag(&e), d, changed)
    };
    let term = format!(
        "{{| c_w := {}; c_e := {}; c_simp := {}; c_range := {}; c_pos := {}; c_evals := [{}] |}}",
        release,
        to_coq(&e),
        match &simp { Some(s) => format!("Some {}", to_coq(s)), None => "None".to_string() },
        match range { Some((lo, hi)) => format!("Some ({},{})", coq_z(lo as i64), coq_z(hi as i64)), None => "None".to_string() },
        match ispos { Some(b) => format!("Some {}", b), None => "None".to_string() },
        evals.join(";")
    );
    format!("{}\t{}\t{}", tag, line, term)
}

// ------------------------------------------------------------------- gen
struct Gen {
    rng: SplitMix64,
    pool: Vec<String>,
    flags: [bool; 3],
}

impl Gen {
    fn leaf(&mut self) -> String {
        if self.rng.chance(1, 2) {
            // small constants are twice as likely as the extreme ones
            if self.rng.chance(1, 2) { self.rng.pick(&CONSTS[..7]).to_string() } else { self.rng.pick(&CONSTS).to_string() }
        } else {
            let id = self.rng.below(3) as usize;
            // the same name with the other flag, rarely (PartialEq ignores the flag)
            let flag = if self.rng.chance(1, 24) { !self.flags[id] } else { self.flags[id] };
            format!("{}{}", NAMES[id], if flag { 'u' } else { 'i' })
        }
    }

    fn tree(&mut self, depth: u32) -> String {
        if depth == 0 || self.rng.chance(1, 6) {
            return self.leaf();
        }
        if depth >= 3 && !self.pool.is_empty() && self.rng.chance(1, 4) {
            let i = self.rng.below(self.pool.len() as u64) as usize;
            return self.pool[i].clone();
        }
        let t = match self.rng.below(20) {
            0 => format!("(neg {})", self.tree(depth - 1)),
            // rewrite-shaped subtrees
            1 => {
                let op = self.rng.pick(&["/", "dc"]);
                let x = self.tree(depth.saturating_sub(2));
                let c1 = self.small_or_leaf();
                let c2 = self.small_or_leaf();
                format!("({} ({} {} {}) {})", op, op, x, c1, c2)
            }
            2 => {
                let x = self.tree(depth.saturating_sub(2));
                let y = self.tree(depth.saturating_sub(2));
                let z = self.tree(depth.saturating_sub(2));
                let op = self.rng.pick(&["/", "/", "dc"]);
                match self.rng.below(3) {
                    0 => format!("({} (* {} {}) (* {} {}))", op, x, y, x, z),
                    1 => format!("({} (* {} {}) {})", op, y, x, x),
                    _ => format!("({} (* {} {}) (* {} {}))", op, self.rng.pick(&[768, 256, 6, -4, 0]), x, y, self.rng.pick(&[256, 3, 2, -2, 0])),
                }
            }
            3 => {
                let x = self.tree(depth.saturating_sub(2));
                let y = self.tree(depth.saturating_sub(2));
                match self.rng.below(4) {
                    0 => format!("(- (+ {} {}) {})", x, y, x),
                    1 => format!("(+ {} (neg {}))", x, x),
                    2 => format!("(+ (neg {}) (+ {} {}))", x, y, x),
                    _ => format!("(- {} {})", x, x),
                }
            }
            4 => {
                let op = self.rng.pick(&["max", "min", "bc"]);
                let x = self.tree(depth.saturating_sub(2));
                let y = self.tree(depth.saturating_sub(2));
                let one = if op == "bc" { "1".to_string() } else { self.leaf() };
                match self.rng.below(3) {
                    0 => format!("({} {} ({} {} {}))", op, x, op, y, x),
                    1 => format!("({} ({} {} {}) {})", op, op, x, one, x),
                    _ => format!("({} {} {})", op, x, one),
                }
            }
            _ => {
                let op = self.rng.pick(&OPS);
                let l = self.tree(depth - 1);
                let r = self.tree(depth - 1);
                format!("({} {} {})", op, l, r)
            }
        };
        if self.pool.len() < 6 && depth <= 3 {
            self.pool.push(t.clone());
        }
        t
    }

    fn small_or_leaf(&mut self) -> String {
        if self.rng.chance(2, 3) { self.rng.pick(&[2, 3, -1, -2, 1, 0, 65536, 46341, i32::MIN]).to_string() } else { self.leaf() }
    }
}

fn generate(seed: u64, n: usize, tier: &str, lite: bool, out: &mut impl Write) {
    let mut lineno: u64 = 0;
    // `lite`: keep one third of the enumerated streams (used for the second build profile)
    let mut sub = SplitMix64(seed ^ 0x117E);
    let mut emit = |out: &mut dyn Write, s: &str| {
        lineno += 1;
        if lite && !sub.chance(1, 3) { return; }
        writeln!(out, "{}#{}", seed.wrapping_mul(1000003).wrapping_add(lineno), s).unwrap();
    };
    // 1. exhaustive depth <= 1 over all constants and two symbols
    let mut leaves: Vec<String> = CONSTS.iter().map(|c| c.to_string()).collect();
    leaves.push("au".into());
    leaves.push("bi".into());
    for l in &leaves {
        emit(out, l);
        emit(out, &format!("(neg {})", l));
    }
    for op in OPS {
        for l in &leaves {
            for r in &leaves {
                emit(out, &format!("({} {} {})", op, l, r));
            }
        }
    }
    // 2. depth 2 over a 5-constant alphabet + two symbols, one operand a leaf:
    //    exhaustive in the thorough tier, a seeded sample in the quick tier
    let small: Vec<String> = ["0", "1", "-1", "2", "-2147483648", "au", "bi"].iter().map(|s| s.to_string()).collect();
    let mut rng = SplitMix64(seed ^ 0xD2);
    let keep = |rng: &mut SplitMix64| tier == "thorough" || rng.chance(1, 24);
    for op1 in OPS {
        for op2 in OPS {
            for a in &small {
                for b in &small {
                    for c in &small {
                        if keep(&mut rng) { emit(out, &format!("({} ({} {} {}) {})", op1, op2, a, b, c)); }
                        if keep(&mut rng) { emit(out, &format!("({} {} ({} {} {}))", op1, a, op2, b, c)); }
                    }
                }
            }
        }
    }
    for op in OPS {
        for a in &small {
            for b in &small {
                emit(out, &format!("(neg ({} {} {}))", op, a, b));
                emit(out, &format!("({} (neg {}) {})", op, a, b));
                emit(out, &format!("({} {} (neg {}))", op, a, b));
            }
        }
    }
    // 2b. "confusion" family: two structurally DIFFERENT expressions A, B that a wrong PartialEq
    //     (or any other structural comparison) could conflate, placed where simplify decides by
    //     structural equality: x - x, x + (-x), Max/Min/Broadcast duplicates (chains and pairs),
    //     ceil(x/x), common factors of a quotient.  A/B: every ordered pair of distinct binary
    //     constructors over the same operands, swapped operands, one operand changed, x vs -x,
    //     different constants, different symbols, symbol vs constant.  Quick tier: 3 of the 18
    //     contexts per (A, B); thorough: all, over more operand pairs.
    {
        let mut rng = SplitMix64(seed ^ 0xC0F5);
        let thorough = tier == "thorough";
        let mut operands: Vec<(&str, &str, &str, &str)> = vec![
            // (l, r, another l, another r)
            ("ai", "2", "bi", "3"),
            ("au", "bi", "cu", "2"),
            ("ai", "-3", "au", "3"),
        ];
        if thorough {
            operands.push(("(+ ai 1)", "bu", "(+ ai 2)", "cu"));
            operands.push(("7", "2", "-7", "-2"));
            operands.push(("bi", "ai", "2", "au"));
        }
        for (l, r, l2, r2) in operands {
            let mut pairs: Vec<(String, String)> = vec![];
            for o1 in OPS {
                for o2 in OPS {
                    if o1 != o2 { pairs.push((format!("({} {} {})", o1, l, r), format!("({} {} {})", o2, l, r))); }
                }
                pairs.push((format!("({} {} {})", o1, l, r), format!("({} {} {})", o1, r, l)));
                pairs.push((format!("({} {} {})", o1, l, r), format!("({} {} {})", o1, l, r2)));
                pairs.push((format!("({} {} {})", o1, l, r), format!("({} {} {})", o1, l2, r)));
                pairs.push((format!("({} {} {})", o1, l, r), format!("(neg ({} {} {}))", o1, l, r)));
            }
            pairs.push((l.to_string(), format!("(neg {})", l)));
            pairs.push((l.to_string(), l2.to_string()));
            pairs.push((r.to_string(), r2.to_string()));
            pairs.push((l.to_string(), r.to_string()));
            pairs.push((format!("(neg {})", l), format!("(neg {})", l2)));
            for (a, b) in &pairs {
                let t = "cu"; // a named term sorts before A and B, which stay adjacent
                let ctx: Vec<String> = vec![
                    format!("(- {} {})", a, b), format!("(- {} {})", b, a),
                    format!("(+ {} (neg {}))", a, b), format!("(+ (neg {}) {})", a, b),
                    format!("(+ (+ {} {}) (neg {}))", a, t, b),
                    format!("(max {} {})", a, b), format!("(max {} {})", b, a),
                    format!("(min {} {})", a, b), format!("(min {} {})", b, a),
                    format!("(max {} (max {} {}))", a, t, b), format!("(min {} (min {} {}))", b, t, a),
                    format!("(bc {} {})", a, b), format!("(bc {} (bc {} {}))", b, t, a),
                    format!("(dc {} {})", a, b), format!("(dc {} {})", b, a),
                    format!("(/ {} {})", a, b), format!("(/ (* {} {}) {})", a, t, b),
                    format!("(/ (* {} {}) (* 2 {}))", t, b, a),
                ];
                if thorough {
                    for c in &ctx { emit(out, c); }
                } else {
                    for _ in 0..3 { let i = rng.below(ctx.len() as u64) as usize; emit(out, &ctx[i]); }
                }
            }
        }
    }
    // 3. random trees, depth <= 5
    let mut emit_all = |out: &mut dyn Write, s: &str, k: u64| {
        writeln!(out, "{}#{}", seed.wrapping_mul(1000003).wrapping_add(1_000_000 + k), s).unwrap();
    };
    for i in 0..n {
        let mut g = Gen { rng: SplitMix64(seed.wrapping_add(0x9E37 * (i as u64 + 1))), pool: vec![], flags: [true, false, true] };
        g.flags = [g.rng.chance(3, 4), g.rng.chance(1, 2), g.rng.chance(1, 2)];
        let d = 2 + g.rng.below(4) as u32;
        let t = g.tree(d);
        emit_all(out, &t, i as u64);
    }
}

fn main() {
    quiet_panics();
    let args: Vec<String> = std::env::args().collect();
    let stdout = std::io::stdout();
    let mut out = std::io::BufWriter::new(stdout.lock());
    match args.get(1).map(|s| s.as_str()) {
        Some("gen") => {
            let seed: u64 = args[2].parse().unwrap();
            let n: usize = args[3].parse().unwrap();
            let lite = args.get(5).map(|s| s == "lite").unwrap_or(false);
            generate(seed, n, &args[4], lite, &mut out);
        }
        Some("exec") => {
            let release = !cfg!(debug_assertions);
            for line in std::io::stdin().lock().lines() {
                let line = line.unwrap();
                if line.trim().is_empty() { continue; }
                writeln!(out, "{}", exec_line(&line, release)).unwrap();
            }
        }
        _ => {
            eprintln!("usage: c11 gen <seed> <n> <tier> | c11 exec");
            std::process::exit(2);
        }
    }
}
