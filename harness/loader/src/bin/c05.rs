//! C05 correspondence: loading untrusted model bytes.
//!
//!   c05 gen <seed> <n> <tier>    print one input spec per line
//!   c05 exec                     read spec lines, print `tag \t spec \t coq-case`
//!   c05 probe <spec>             print the observation for one spec
//!   c05 worker                   (internal) job loop in a child process
//!
//! Spec lines:
//!   hdr:<hex>                                          Header::from_buf on these bytes (+ to_buf round trip)
//!   rten:<mode>,<dtype>,<d0.d1...>,<nelem>,<off>,<tdlen>   one-constant .rten file built by the harness
//!        mode  inl  = V2 file (header), constant data inline in the FlatBuffers model (nelem elements)
//!              inl1 = V1 file (no header), inline data
//!              ext  = V2 file, data at tensor_data_offset + <off>, tensor data segment of <tdlen> bytes
//!        dtype f32 | i32 | i8 | u8          dims are u32 values
//!   onnx:<dtype>,<d0.d1...>,<raw|typed>,<n>            one-initializer ONNX model; dims are i64; n = raw bytes
//!                                                      or typed elements
//!   load:<hex>                                         whole-file bytes through Model::load (run-time observation)
//!
//! Every observation is made in a worker child process under catch_unwind and a watchdog.
use rten::{Dimension, Model, Value};
use rten_tensor::prelude::*;
use rten_model_file::header::{Header, HeaderError};
use rten_model_file::schema as sg;
use std::io::{BufRead, Write};
use vh_loader::*;

const WATCHDOG_MS: u64 = 10000;

// ------------------------------------------------------------------ file builders
fn build_rten(mode: &str, dtype: &str, dims: &[u32], nelem: usize, off: u64, tdlen: usize) -> (Vec<u8>, u64, u64) {
    let mut b = flatbuffers::FlatBufferBuilder::with_capacity(1024);
    let shape_vec = b.create_vector(dims);
    let dt = match dtype {
        "f32" => sg::ConstantDataType::Float32,
        "i32" => sg::ConstantDataType::Int32,
        "i8" => sg::ConstantDataType::Int8,
        _ => sg::ConstantDataType::UInt8,
    };
    let args = if mode == "ext" {
        sg::ConstantNodeArgs { shape: Some(shape_vec), data_type: sg::ConstantData::NONE, data: None, data_offset: Some(off), dtype: Some(dt) }
    } else {
        let (ty, data) = match dtype {
            "f32" => {
                let v: Vec<f32> = (0..nelem).map(|i| i as f32).collect();
                let dv = b.create_vector(&v);
                (sg::ConstantData::FloatData, sg::FloatData::create(&mut b, &sg::FloatDataArgs { data: Some(dv) }).as_union_value())
            }
            "i32" => {
                let v: Vec<i32> = (0..nelem).map(|i| i as i32).collect();
                let dv = b.create_vector(&v);
                (sg::ConstantData::Int32Data, sg::Int32Data::create(&mut b, &sg::Int32DataArgs { data: Some(dv) }).as_union_value())
            }
            "i8" => {
                let v: Vec<i8> = (0..nelem).map(|i| i as i8).collect();
                let dv = b.create_vector(&v);
                (sg::ConstantData::Int8Data, sg::Int8Data::create(&mut b, &sg::Int8DataArgs { data: Some(dv) }).as_union_value())
            }
            _ => {
                let v: Vec<u8> = (0..nelem).map(|i| i as u8).collect();
                let dv = b.create_vector(&v);
                (sg::ConstantData::UInt8Data, sg::UInt8Data::create(&mut b, &sg::UInt8DataArgs { data: Some(dv) }).as_union_value())
            }
        };
        sg::ConstantNodeArgs { shape: Some(shape_vec), data_type: ty, data: Some(data), data_offset: None, dtype: Some(dt) }
    };
    let cnode = sg::ConstantNode::create(&mut b, &args);
    let name = b.create_string("c");
    let node = sg::Node::create(&mut b, &sg::NodeArgs { name: Some(name), data_type: sg::NodeKind::ConstantNode, data: Some(cnode.as_union_value()) });
    let nodes = b.create_vector(&[node]);
    let inputs = b.create_vector::<u32>(&[]);
    let outputs = b.create_vector::<u32>(&[0]);
    let graph = sg::Graph::create(&mut b, &sg::GraphArgs { nodes: Some(nodes), inputs: Some(inputs), outputs: Some(outputs), captures: None });
    let model = sg::Model::create(&mut b, &sg::ModelArgs { schema_version: 1, graph: Some(graph), metadata: None });
    b.finish(model, None);
    let model_data = b.finished_data().to_vec();
    if mode == "inl1" {
        let n = model_data.len() as u64;
        return (model_data, 0, n);
    }
    let tdo = Header::LEN as u64 + model_data.len() as u64;
    let header = Header { version: 2, model_len: model_data.len() as u64, model_offset: Header::LEN as u64, tensor_data_offset: tdo };
    let mut file = header.to_buf();
    file.extend(model_data);
    file.extend((0..tdlen).map(|i| i as u8));
    let flen = file.len() as u64;
    (file, tdo, flen)
}

fn build_onnx(dtype: i64, dims: &[i64], src: &str, n: usize) -> Vec<u8> {
    let mut t = vec![];
    for &d in dims {
        t.extend(f_varint(1, d as u64));
    }
    t.extend(f_varint(2, dtype as u64));
    t.extend(f_len(8, b"c"));
    if src == "raw" {
        let raw: Vec<u8> = (0..n).map(|i| i as u8).collect();
        t.extend(f_len(9, &raw));
    } else {
        // typed field for this data type
        match dtype {
            1 => {
                let p: Vec<u8> = (0..n).flat_map(|i| (i as f32).to_le_bytes()).collect();
                t.extend(f_len(4, &p));
            }
            7 => {
                let p: Vec<u8> = (0..n).flat_map(|i| varint(i as u64)).collect();
                t.extend(f_len(7, &p));
            }
            11 => {
                let p: Vec<u8> = (0..n).flat_map(|i| (i as f64).to_le_bytes()).collect();
                t.extend(f_len(10, &p));
            }
            _ => {
                let p: Vec<u8> = (0..n).flat_map(|i| varint((i % 2) as u64)).collect();
                t.extend(f_len(5, &p));
            }
        }
    }
    // graph: initializer "c", node Identity(c) -> "y", output "y"
    let node = [f_len(1, b"c"), f_len(2, b"y"), f_len(4, b"Identity")].concat();
    let out = f_len(1, b"y");
    let graph = [f_len(1, &node), f_len(5, &t), f_len(12, &out)].concat();
    let opset = f_varint(2, 18);
    [f_varint(1, 8), f_len(7, &graph), f_len(8, &opset)].concat()
}

// ------------------------------------------------------------------ observations
fn fmt_dims(shape: &[Dimension]) -> String {
    let v: Vec<String> = shape
        .iter()
        .map(|d| match d {
            Dimension::Fixed(n) => n.to_string(),
            Dimension::Symbolic(_) => "0".to_string(),
        })
        .collect();
    format!("[{}]", v.join(";"))
}

fn value_count(v: &Value) -> usize {
    match v {
        Value::FloatTensor(t) => t.to_vec().len(),
        Value::Int32Tensor(t) => t.to_vec().len(),
        Value::Int8Tensor(t) => t.to_vec().len(),
        Value::UInt8Tensor(t) => t.to_vec().len(),
        _ => usize::MAX,
    }
}

/// Load `bytes`; on success report the shape recorded for node `cname` and the number of
/// elements actually read when the model is run with `oname` as its output.
fn load_and_run(bytes: Vec<u8>, cname: &str, oname: &str) -> String {
    let r = std::panic::catch_unwind(move || {
        let mut opts = rten::ModelOptions::with_all_ops();
        opts.enable_optimization(false);
        match opts.load(bytes) {
            Err(_) => "LErr".to_string(),
            Ok(model) => {
                let Some(cid) = model.find_node(cname) else { return "(LOk [] 0)".to_string() };
                let shape = model.node_info(cid).and_then(|i| i.shape()).unwrap_or_default();
                let Some(oid) = model.find_node(oname) else { return "(LOk [] 0)".to_string() };
                match model.run(vec![], &[oid], None) {
                    Ok(vals) => format!("(LOk {} {})", fmt_dims(&shape), value_count(&vals[0])),
                    Err(_) => format!("(LRunErr {})", fmt_dims(&shape)),
                }
            }
        }
    });
    r.unwrap_or_else(|_| "LPanic".to_string())
}

fn load_only(bytes: Vec<u8>) -> String {
    let r = std::panic::catch_unwind(move || match Model::load(bytes) {
        Ok(_) => "LLoaded",
        Err(_) => "LErr",
    });
    r.unwrap_or("LPanic").to_string()
}

fn header_obs(bytes: &[u8]) -> String {
    let b2 = bytes.to_vec();
    let r = std::panic::catch_unwind(move || Header::from_buf(&b2));
    match r {
        Err(_) => "HPanic []".to_string(),
        Ok(Ok(h)) => format!("(HOk {} {} {} {}) {}", h.version, h.model_offset, h.model_len, h.tensor_data_offset, coq_bytes(&h.to_buf())),
        Ok(Err(e)) => format!(
            "(HErr {}) []",
            match e {
                HeaderError::TooShort => "HTooShort",
                HeaderError::UnsupportedVersion => "HVersion",
                HeaderError::InvalidMagic => "HMagic",
                HeaderError::InvalidOffset => "HOffset",
                HeaderError::InvalidLength => "HLength",
            }
        ),
    }
}

fn parse_dims<T: std::str::FromStr>(s: &str) -> Vec<T>
where
    T::Err: std::fmt::Debug,
{
    if s.is_empty() { vec![] } else { s.split('.').map(|x| x.parse::<T>().unwrap()).collect() }
}

/// One job = one spec line; the answer is the outcome part of the Coq term.
fn worker_job(line: &str) -> String {
    let (kind, rest) = line.split_once(':').unwrap_or((line, ""));
    match kind {
        "hdr" => header_obs(&unhex(rest)),
        "rten" => {
            let p: Vec<&str> = rest.split(',').collect();
            let dims: Vec<u32> = parse_dims(p[2]);
            let (file, _, _) = build_rten(p[0], p[1], &dims, p[3].parse().unwrap(), p[4].parse().unwrap(), p[5].parse().unwrap());
            load_and_run(file, "c", "c")
        }
        "onnx" => {
            let p: Vec<&str> = rest.split(',').collect();
            let dims: Vec<i64> = parse_dims(p[1]);
            let file = build_onnx(p[0].parse().unwrap(), &dims, p[2], p[3].parse().unwrap());
            load_and_run(file, "c", "y")
        }
        "load" => load_only(unhex(rest)),
        _ => "bad-job".to_string(),
    }
}

fn worker() {
    std::thread::Builder::new().stack_size(8 << 20).spawn(move || worker_loop(worker_job)).unwrap().join().unwrap();
}

fn coq_list<T: std::fmt::Display>(xs: &[T]) -> String {
    let v: Vec<String> = xs.iter().map(|x| format!("({})", x)).collect();
    format!("[{}]", v.join(";"))
}

fn case_term(debug: bool, line: &str, out: &str) -> (String, String) {
    let (kind, rest) = line.split_once(':').unwrap_or((line, ""));
    let cls = out.trim_start_matches('(').split(' ').next().unwrap_or("").trim_end_matches(')').to_string();
    match kind {
        "hdr" => {
            let bytes = unhex(rest);
            (format!("hdr-{}", out.split(')').next().unwrap_or("").trim_start_matches('(').replace(' ', "")
                         .chars().take(12).collect::<String>()),
             format!("(CHdr {} {})", coq_bytes(&bytes), out))
        }
        "rten" => {
            let p: Vec<&str> = rest.split(',').collect();
            let dims: Vec<u32> = parse_dims(p[2]);
            let (_, tdo, flen) = build_rten(p[0], p[1], &dims, p[3].parse().unwrap(), p[4].parse().unwrap(), p[5].parse().unwrap());
            let mode = match p[0] { "ext" => "MExt", "inl1" => "MInl1", _ => "MInl" };
            let esize = match p[1] { "f32" | "i32" => 4, _ => 1 };
            (format!("rten-{}-{}", p[0], cls),
             format!("(CRten {} {} {} {} {} {} {} {} {} {})", debug, mode, esize, coq_list(&dims), p[3], p[4], p[5], tdo, flen, out))
        }
        "onnx" => {
            let p: Vec<&str> = rest.split(',').collect();
            let dims: Vec<i64> = parse_dims(p[1]);
            (format!("onnx-{}-{}", p[2], cls),
             format!("(COnnx {} {} {}%Z {} {} {})", debug, p[0], coq_list(&dims), p[2] == "raw", p[3], out))
        }
        _ => (format!("load-{}", cls), format!("(CLoad {})", out)),
    }
}

fn exec() {
    let debug = cfg!(debug_assertions);
    let mut iso = Isolated::new(&["worker"], WATCHDOG_MS);
    let mut budget: usize = std::env::var("VERIF_TIMEOUT_BUDGET").ok().and_then(|s| s.parse().ok()).unwrap_or(8);
    let stdin = std::io::stdin();
    let out = std::io::stdout();
    for line in stdin.lock().lines() {
        let line = line.unwrap();
        let line = line.trim();
        if line.is_empty() {
            continue;
        }
        let is_hdr = line.starts_with("hdr:");
        let o = if budget == 0 {
            if is_hdr { "HNotRun []".to_string() } else { "LNotRun".to_string() }
        } else {
            match iso.run(line) {
                JobResult::Done(s) => s,
                JobResult::Timeout => {
                    budget -= 1;
                    if is_hdr { "HPanic []".to_string() } else { "LTimeout".to_string() }
                }
                JobResult::Abort(_) => if is_hdr { "HPanic []".to_string() } else { "LAbort".to_string() },
            }
        };
        let (tag, term) = case_term(debug, line, &o);
        let tag = if o.contains("NotRun") { "trivial-notrun".to_string() } else { tag };
        let mut w = out.lock();
        writeln!(w, "{}\t{}\t{}", tag, line, term).unwrap();
    }
}

fn main() {
    if std::env::var("VERIF_SHOW_PANIC").is_err() {
        quiet_panics();
    }
    let args: Vec<String> = std::env::args().collect();
    match args.get(1).map(|s| s.as_str()) {
        Some("worker") => worker(),
        Some("exec") => exec(),
        Some("probe") => {
            let mut iso = Isolated::new(&["worker"], WATCHDOG_MS);
            let o = match iso.run(&args[2]) {
                JobResult::Done(s) => s,
                JobResult::Timeout => "LTimeout".to_string(),
                JobResult::Abort(st) => format!("LAbort ({})", st),
            };
            println!("debug={} {} => {}", cfg!(debug_assertions), args[2], o);
        }
        Some("gen") => {
            let seed: u64 = args[2].parse().unwrap();
            let n: usize = args[3].parse().unwrap();
            let tier = args.get(4).map(|s| s.as_str()).unwrap_or("quick");
            let stdout = std::io::stdout();
            let mut w = std::io::BufWriter::new(stdout.lock());
            let skip = args.get(5).and_then(|s| s.strip_prefix("skip=")).unwrap_or("");
            // valid files whose bytes are mutated as a whole
            let bases = vec![
                build_rten("ext", "f32", &[2, 3], 0, 8, 40).0,
                build_rten("inl", "i32", &[4], 4, 0, 0).0,
                build_rten("inl1", "u8", &[2, 2], 4, 0, 0).0,
                build_onnx(1, &[2, 3], "raw", 24),
                build_onnx(7, &[3], "typed", 3),
            ];
            vh_loader::gen05::generate(seed, n, tier, skip, &bases, &mut w);
        }
        _ => {
            eprintln!("usage: c05 gen <seed> <n> <tier> | exec | probe <spec>");
            std::process::exit(2);
        }
    }
}
