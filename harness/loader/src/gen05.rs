//! Input generators for C05 (spec lines, see src/bin/c05.rs).
use crate::*;
use std::io::Write;

const U32X: [u64; 12] = [0, 1, 2, 3, 255, 256, 65535, 65536, (1 << 31) - 1, 1 << 31, (1 << 32) - 2, (1 << 32) - 1];
const U64X: [u64; 14] = [
    0, 1, 31, 32, 33, 64, (1 << 31), (1 << 32), (1 << 62), (1 << 63) - 1, 1 << 63, u64::MAX - 32, u64::MAX - 1, u64::MAX,
];
const I64X: [i64; 14] = [
    -1, 0, 1, 2, 3, 65536, (1 << 31) - 1, 1 << 31, 1 << 32, (1 << 32) + 1, 1 << 62, i64::MAX, i64::MIN, -(1 << 32),
];

fn header_bytes(magic: &[u8; 4], version: u32, mo: u64, ml: u64, tdo: u64) -> Vec<u8> {
    let mut b = magic.to_vec();
    b.extend(version.to_le_bytes());
    b.extend(mo.to_le_bytes());
    b.extend(ml.to_le_bytes());
    b.extend(tdo.to_le_bytes());
    b
}

fn dims_str<T: std::fmt::Display>(d: &[T]) -> String {
    d.iter().map(|x| x.to_string()).collect::<Vec<_>>().join(".")
}

pub fn generate(seed: u64, n: usize, tier: &str, skip: &str, base_files: &[Vec<u8>], out: &mut impl Write) {
    let thorough = tier == "thorough";
    let mut rng = SplitMix64(seed);

    if !skip.contains("hdr") {
        gen_headers(&mut rng, n, thorough, out);
    }
    gen_constants(&mut rng, n, thorough, out);

    // ---------------- whole-file byte mutations through Model::load (run-time observation only)
    let reps = if thorough { 40 } else { 6 };
    for base in base_files {
        writeln!(out, "load:{}", hex(base)).unwrap();
        for _ in 0..reps * (1 + n / 200) {
            let mut m = base.clone();
            match rng.below(6) {
                0 => {
                    let k = rng.below(m.len() as u64 + 1) as usize;
                    m.truncate(k);
                }
                1 => {
                    for _ in 0..1 + rng.below(4) {
                        let k = rng.below(m.len() as u64) as usize;
                        m[k] ^= 1 << rng.below(8);
                    }
                }
                2 => {
                    let k = rng.below(m.len() as u64) as usize;
                    m[k] = rng.pick(&[0u8, 1, 0x7f, 0x80, 0xff, 4, 8, 0x20]);
                }
                3 => {
                    // overwrite an aligned 4-byte word (FlatBuffers offsets / lengths, header fields)
                    let k = (rng.below(m.len() as u64 / 4) * 4) as usize;
                    let v: u32 = match rng.below(4) {
                        0 => u32::MAX,
                        1 => 1 << 31,
                        2 => rng.below(m.len() as u64 * 2) as u32,
                        _ => rng.next() as u32,
                    };
                    if k + 4 <= m.len() {
                        m[k..k + 4].copy_from_slice(&v.to_le_bytes());
                    }
                }
                4 => {
                    // overwrite an aligned 8-byte word
                    let k = (rng.below(m.len() as u64 / 8) * 8) as usize;
                    let v: u64 = rng.pick(&U64X);
                    if k + 8 <= m.len() {
                        m[k..k + 8].copy_from_slice(&v.to_le_bytes());
                    }
                }
                _ => {
                    let k = rng.below(m.len() as u64) as usize;
                    m.insert(k, rng.next() as u8);
                }
            }
            writeln!(out, "load:{}", hex(&m)).unwrap();
        }
    }
    for _ in 0..n / 10 {
        let len = rng.below(64) as usize;
        let mut b: Vec<u8> = (0..len).map(|_| rng.next() as u8).collect();
        if rng.chance(1, 2) && len >= 4 {
            b[..4].copy_from_slice(b"RTEN");
        }
        writeln!(out, "load:{}", hex(&b)).unwrap();
    }
}

fn gen_headers(rng: &mut SplitMix64, n: usize, thorough: bool, out: &mut impl Write) {
    let mut rng = SplitMix64(rng.next());
    // ---------------- headers
    for total in [0usize, 3, 4, 7, 8, 15, 16, 23, 24, 31, 32, 33, 64, 100] {
        let mut b = header_bytes(b"RTEN", 2, 32, (total as u64).saturating_sub(32), total as u64);
        b.resize(total.max(b.len()), 0xaa);
        b.truncate(total);
        writeln!(out, "hdr:{}", hex(&b)).unwrap();
    }
    let totals: &[u64] = if thorough { &[32, 40, 64] } else { &[40] };
    for &total in totals {
        let near: Vec<u64> = vec![total - 1, total, total + 1, total - 32, total - 31, total.wrapping_sub(33), u64::MAX - total + 1, u64::MAX - 31];
        let vals: Vec<u64> = U64X.iter().copied().chain(near).collect();
        for &mo in &vals {
            for &ml in &vals {
                let tdo = rng.pick(&vals);
                let mut b = header_bytes(b"RTEN", 2, mo, ml, tdo);
                b.resize(total as usize, 0);
                writeln!(out, "hdr:{}", hex(&b)).unwrap();
            }
        }
        for &tdo in &vals {
            let mut b = header_bytes(b"RTEN", 2, 32, total - 32, tdo);
            b.resize(total as usize, 0);
            writeln!(out, "hdr:{}", hex(&b)).unwrap();
        }
    }
    for version in [0u32, 1, 2, 3, 0x0200_0000, u32::MAX] {
        writeln!(out, "hdr:{}", hex(&header_bytes(b"RTEN", version, 32, 0, 32))).unwrap();
    }
    for magic in [b"RTEM", b"rten", b"\0\0\0\0", b"NETR"] {
        writeln!(out, "hdr:{}", hex(&header_bytes(magic, 2, 32, 0, 32))).unwrap();
    }
    for _ in 0..n / 4 {
        let total = 32 + rng.below(40);
        let pick = |rng: &mut SplitMix64| match rng.below(4) {
            0 => rng.pick(&U64X),
            1 => rng.below(total + 3),
            2 => total.wrapping_sub(rng.below(40)),
            _ => rng.next(),
        };
        let (mo, ml, tdo) = (pick(&mut rng), pick(&mut rng), pick(&mut rng));
        let mut b = header_bytes(b"RTEN", if rng.chance(1, 10) { rng.next() as u32 } else { 2 }, mo, ml, tdo);
        b.resize(total as usize, 0);
        if rng.chance(1, 8) {
            let k = rng.below(b.len() as u64) as usize;
            b[k] ^= 1 << rng.below(8);
        }
        writeln!(out, "hdr:{}", hex(&b)).unwrap();
    }

}

fn gen_constants(rng: &mut SplitMix64, n: usize, thorough: bool, out: &mut impl Write) {
    let mut rng = SplitMix64(rng.next());
    // ---------------- .rten constants
    let dtypes = ["f32", "i32", "i8", "u8"];
    // systematic families: all four element types in the thorough tier, one of each size otherwise
    let sys_dtypes: &[&str] = if thorough { &["f32", "i32", "i8", "u8"] } else { &["f32", "u8"] };
    let esize = |d: &str| if d == "f32" || d == "i32" { 4u64 } else { 1 };
    // shapes whose true product is small, huge, or wraps modulo 2^64
    let shapes: Vec<Vec<u64>> = vec![
        vec![], vec![0], vec![1], vec![5], vec![2, 3], vec![2, 0, 3], vec![1, 1, 4],
        vec![65536, 65536], vec![65536, 65536, 65536, 65536], vec![1 << 31, 1 << 31, 4], vec![1 << 31, 1 << 31],
        vec![(1 << 32) - 1, (1 << 32) - 1], vec![(1 << 32) - 1, (1 << 32) - 1, (1 << 32) - 1],
        vec![1 << 31, 1 << 31, 4, 3], vec![1 << 16, 1 << 16, 1 << 16, 1 << 16, 5], vec![(1 << 32) - 1, 0],
        vec![1 << 31, 1 << 31, 2], vec![1 << 30, 1 << 30, 16, 7], vec![3, 1 << 31, 1 << 31, 4],
    ];
    for &dt in sys_dtypes {
        for sh in &shapes {
            let true_prod: u128 = sh.iter().fold(1u128, |p, &d| p.saturating_mul(d as u128));
            let wrapped = sh.iter().fold(1u64, |p, &d| p.wrapping_mul(d));
            let mut counts: Vec<u64> = vec![0, 1, wrapped.min(64), wrapped.wrapping_add(1).min(64), wrapped.wrapping_sub(1).min(64)];
            if true_prod <= 64 {
                counts.push(true_prod as u64);
            }
            counts.sort();
            counts.dedup();
            for &cnt in &counts {
                for mode in ["inl", "inl1"] {
                    writeln!(out, "rten:{},{},{},{},0,0", mode, dt, dims_str(sh), cnt).unwrap();
                }
            }
            // external data: segment sizes and offsets around the (wrapped) byte length
            let bl = wrapped.wrapping_mul(esize(dt));
            for &tdlen in &[0u64, bl.min(64), bl.wrapping_add(1).min(64), 16, 64] {
                let mut offs: Vec<u64> = vec![0, 1, 4, tdlen.saturating_sub(bl.min(64)), tdlen, tdlen + 1, u64::MAX, u64::MAX - 31, u64::MAX - 100, (1 << 63), 0u64.wrapping_sub(bl)];
                offs.sort();
                offs.dedup();
                for &off in &offs {
                    writeln!(out, "rten:ext,{},{},0,{},{}", dt, dims_str(sh), off, tdlen).unwrap();
                }
            }
        }
    }
    for _ in 0..n {
        let rank = rng.below(5) as usize;
        let sh: Vec<u64> = (0..rank)
            .map(|_| match rng.below(8) {
                0 => rng.pick(&U32X),
                1 => 1 << rng.below(32),
                _ => rng.below(5),
            })
            .collect();
        let wrapped = sh.iter().fold(1u64, |p, &d| p.wrapping_mul(d));
        let dt = rng.pick(&dtypes);
        if rng.chance(1, 2) {
            let cnt = match rng.below(4) {
                0 => wrapped.min(80),
                1 => wrapped.wrapping_add(1).min(80),
                2 => rng.below(12),
                _ => wrapped.saturating_sub(1).min(80),
            };
            let mode = if rng.chance(1, 3) { "inl1" } else { "inl" };
            writeln!(out, "rten:{},{},{},{},0,0", mode, dt, dims_str(&sh), cnt).unwrap();
        } else {
            let bl = wrapped.wrapping_mul(esize(dt));
            let tdlen = match rng.below(3) {
                0 => bl.min(96),
                1 => rng.below(96),
                _ => bl.wrapping_add(rng.below(9)).min(96),
            };
            let off = match rng.below(6) {
                0 => 0,
                1 => rng.below(tdlen + 2),
                2 => tdlen.wrapping_sub(bl),
                3 => rng.pick(&U64X),
                4 => 0u64.wrapping_sub(rng.below(200)),
                _ => 4 * rng.below(8),
            };
            writeln!(out, "rten:ext,{},{},0,{},{}", dt, dims_str(&sh), off, tdlen).unwrap();
        }
    }

    // ---------------- ONNX initializers
    let onnx_types: [i64; 9] = [1, 6, 2, 3, 7, 9, 11, 10, 8];
    let onnx_size = |t: i64| match t {
        1 | 6 => 4u64,
        7 | 11 => 8,
        10 => 2,
        _ => 1,
    };
    let ishapes: Vec<Vec<i64>> = vec![
        vec![], vec![0], vec![3], vec![2, 3], vec![-1], vec![2, -3], vec![i64::MIN], vec![1 << 32, 1 << 32], vec![1 << 31, 1 << 31, 4],
        vec![i64::MAX], vec![i64::MAX, 2], vec![1 << 62, 4], vec![1 << 62, 4, 3], vec![65536, 65536, 65536, 65536], vec![2, 0, 5],
        vec![1 << 33, 1 << 31], vec![3, 1 << 32, 1 << 32],
        // a negative dimension next to a zero one: `dim as usize` instead of `try_into` would
        // give a huge size whose product with 0 still matches empty data
        vec![-1, 0], vec![0, -5], vec![i64::MIN, 0], vec![0, 3, -2], vec![-1, 0, -1],
    ];
    for &t in &onnx_types {
        for sh in &ishapes {
            let wrapped = sh.iter().fold(1u64, |p, &d| p.wrapping_mul(d as u64));
            let es = onnx_size(t);
            let mut ns: Vec<u64> = vec![0, 1, wrapped.min(48), wrapped.wrapping_mul(es).min(96), wrapped.wrapping_mul(es).wrapping_add(1).min(96), es, es + 1];
            ns.sort();
            ns.dedup();
            for &nn in &ns {
                writeln!(out, "onnx:{},{},raw,{}", t, dims_str(sh), nn).unwrap();
                if nn <= 48 {
                    writeln!(out, "onnx:{},{},typed,{}", t, dims_str(sh), nn).unwrap();
                }
            }
        }
    }
    for _ in 0..n / 2 {
        let rank = rng.below(4) as usize;
        let sh: Vec<i64> = (0..rank)
            .map(|_| match rng.below(9) {
                0 => rng.pick(&I64X),
                1 => 1i64 << rng.below(63),
                2 => -(rng.below(4) as i64) - 1,
                _ => rng.below(5) as i64,
            })
            .collect();
        let t = rng.pick(&onnx_types);
        let wrapped = sh.iter().fold(1u64, |p, &d| p.wrapping_mul(d as u64));
        let es = onnx_size(t);
        let nn = match rng.below(4) {
            0 => wrapped.wrapping_mul(es).min(96),
            1 => wrapped.min(48),
            2 => rng.below(40),
            _ => wrapped.wrapping_mul(es).wrapping_add(rng.below(3)).min(96),
        };
        let src = if rng.chance(1, 2) { "raw" } else { "typed" };
        writeln!(out, "onnx:{},{},{},{}", t, dims_str(&sh), src, nn.min(if src == "typed" { 48 } else { 96 })).unwrap();
    }

}
