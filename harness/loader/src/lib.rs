//! Shared helpers for the model-loader correspondence harness (C05); same utilities as harness/proto.
//!
//! * SplitMix64 (all randomness comes from the seed argument)
//! * hex encoding of byte strings (the input format of the `exec` stage)
//! * a tiny protobuf *writer* used by the generators
//! * `Isolated`: runs jobs in a worker child process (`<exe> worker`) with a per-job
//!   watchdog.  A hang becomes `Timeout` (the child is killed, so no spinning thread is left
//!   behind), a crash (abort, stack overflow, allocation failure) becomes `Abort`, and the
//!   worker is restarted for the remaining jobs.

pub mod gen05;

use std::io::{BufRead, BufReader, Write};
use std::process::{Child, ChildStdin, Command, Stdio};
use std::sync::mpsc::{Receiver, RecvTimeoutError, channel};
use std::time::Duration;

pub struct SplitMix64(pub u64);
impl SplitMix64 {
    pub fn next(&mut self) -> u64 {
        self.0 = self.0.wrapping_add(0x9E3779B97F4A7C15);
        let mut z = self.0;
        z = (z ^ (z >> 30)).wrapping_mul(0xBF58476D1CE4E5B9);
        z = (z ^ (z >> 27)).wrapping_mul(0x94D049BB133111EB);
        z ^ (z >> 31)
    }
    pub fn below(&mut self, n: u64) -> u64 {
        if n == 0 { 0 } else { self.next() % n }
    }
    pub fn pick<T: Copy>(&mut self, xs: &[T]) -> T {
        xs[self.below(xs.len() as u64) as usize]
    }
    pub fn chance(&mut self, num: u64, den: u64) -> bool {
        self.below(den) < num
    }
}

pub fn hex(bytes: &[u8]) -> String {
    let mut s = String::with_capacity(bytes.len() * 2);
    for b in bytes {
        s.push_str(&format!("{:02x}", b));
    }
    s
}

pub fn unhex(s: &str) -> Vec<u8> {
    let s = s.trim();
    (0..s.len() / 2).map(|i| u8::from_str_radix(&s[2 * i..2 * i + 2], 16).unwrap()).collect()
}

pub fn coq_bytes(bytes: &[u8]) -> String {
    let v: Vec<String> = bytes.iter().map(|x| x.to_string()).collect();
    format!("[{}]", v.join(";"))
}

pub fn quiet_panics() {
    std::panic::set_hook(Box::new(|_| {}));
}

// ---------------------------------------------------------------- protobuf writer
pub fn varint(mut v: u64) -> Vec<u8> {
    let mut out = vec![];
    loop {
        let b = (v & 0x7f) as u8;
        v >>= 7;
        if v == 0 {
            out.push(b);
            return out;
        }
        out.push(b | 0x80);
    }
}

/// Non-canonical varint: `v` padded with continuation bytes to exactly `n` bytes (n <= 10).
pub fn varint_padded(mut v: u64, n: usize) -> Vec<u8> {
    let mut out = vec![];
    for i in 0..n {
        let b = (v & 0x7f) as u8;
        v >>= 7;
        out.push(if i + 1 == n { b } else { b | 0x80 });
    }
    out
}

pub fn tag(number: u64, wire: u64) -> Vec<u8> {
    varint((number << 3) | wire)
}

pub fn f_varint(number: u64, v: u64) -> Vec<u8> {
    let mut o = tag(number, 0);
    o.extend(varint(v));
    o
}
pub fn f_i64(number: u64, v: u64) -> Vec<u8> {
    let mut o = tag(number, 1);
    o.extend(v.to_le_bytes());
    o
}
pub fn f_i32(number: u64, v: u32) -> Vec<u8> {
    let mut o = tag(number, 5);
    o.extend(v.to_le_bytes());
    o
}
pub fn f_len(number: u64, payload: &[u8]) -> Vec<u8> {
    let mut o = tag(number, 2);
    o.extend(varint(payload.len() as u64));
    o.extend_from_slice(payload);
    o
}
/// Len field header only, with an arbitrary declared length.
pub fn f_len_hdr(number: u64, len: u64) -> Vec<u8> {
    let mut o = tag(number, 2);
    o.extend(varint(len));
    o
}

// ---------------------------------------------------------------- isolation
pub enum JobResult {
    Done(String),
    Timeout,
    Abort(String),
}

pub struct Isolated {
    exe: std::path::PathBuf,
    args: Vec<String>,
    child: Option<(Child, ChildStdin, Receiver<Option<String>>)>,
    pub timeout: Duration,
    pub restarts: usize,
}

impl Isolated {
    pub fn new(args: &[&str], timeout_ms: u64) -> Self {
        Isolated {
            exe: std::env::current_exe().unwrap(),
            args: args.iter().map(|s| s.to_string()).collect(),
            child: None,
            timeout: Duration::from_millis(timeout_ms),
            restarts: 0,
        }
    }

    fn ensure(&mut self) {
        if self.child.is_some() {
            return;
        }
        let mut ch = Command::new(&self.exe)
            .args(&self.args)
            .stdin(Stdio::piped())
            .stdout(Stdio::piped())
            .stderr(Stdio::null())
            .spawn()
            .expect("spawn worker");
        let stdin = ch.stdin.take().unwrap();
        let stdout = ch.stdout.take().unwrap();
        let (tx, rx) = channel();
        std::thread::spawn(move || {
            let mut r = BufReader::new(stdout);
            loop {
                let mut line = String::new();
                match r.read_line(&mut line) {
                    Ok(0) | Err(_) => {
                        let _ = tx.send(None);
                        return;
                    }
                    Ok(_) => {
                        if tx.send(Some(line.trim_end().to_string())).is_err() {
                            return;
                        }
                    }
                }
            }
        });
        self.child = Some((ch, stdin, rx));
    }

    fn kill(&mut self) -> String {
        let mut status = String::new();
        if let Some((mut ch, stdin, _rx)) = self.child.take() {
            drop(stdin);
            let _ = ch.kill();
            if let Ok(st) = ch.wait() {
                status = format!("{}", st);
            }
            self.restarts += 1;
        }
        status
    }

    /// Send one job line to the worker; wait for one answer line.
    pub fn run(&mut self, job: &str) -> JobResult {
        self.ensure();
        let ok = {
            let (_, stdin, _) = self.child.as_mut().unwrap();
            writeln!(stdin, "{}", job).and_then(|_| stdin.flush()).is_ok()
        };
        if !ok {
            let st = self.kill();
            return JobResult::Abort(st);
        }
        let r = {
            let (_, _, rx) = self.child.as_mut().unwrap();
            rx.recv_timeout(self.timeout)
        };
        match r {
            Ok(Some(line)) => JobResult::Done(line),
            Ok(None) | Err(RecvTimeoutError::Disconnected) => {
                // worker died: collect exit status without killing first
                let mut st = String::new();
                if let Some((mut ch, stdin, _)) = self.child.take() {
                    drop(stdin);
                    if let Ok(s) = ch.wait() {
                        st = format!("{}", s);
                    }
                    self.restarts += 1;
                }
                JobResult::Abort(st)
            }
            Err(RecvTimeoutError::Timeout) => {
                self.kill();
                JobResult::Timeout
            }
        }
    }
}

impl Drop for Isolated {
    fn drop(&mut self) {
        if let Some((mut ch, stdin, _)) = self.child.take() {
            drop(stdin);
            let _ = ch.wait();
        }
    }
}

/// Worker loop: read job lines from stdin, answer one line per job.
pub fn worker_loop(mut f: impl FnMut(&str) -> String) {
    let stdin = std::io::stdin();
    let stdout = std::io::stdout();
    for line in stdin.lock().lines() {
        let line = line.unwrap();
        let ans = f(&line);
        let mut o = stdout.lock();
        writeln!(o, "{}", ans).unwrap();
        o.flush().unwrap();
    }
}
