//! C17 (last sentence): DynamicQuantizeLinear followed by dequantisation stays within one
//! quantisation step. Runs `rten::ops::dynamic_quantize_linear::<u8>` and prints the exact bit
//! patterns of inputs and scale, so the inequality is checked in exact arithmetic inside Coq.
//!
//!   c17dq gen <seed> <n> <tier>
//!   c17dq exec
use std::io::{BufRead, Write};

use rten::BufferPool;
use rten::ops::dynamic_quantize_linear;
use rten_tensor::prelude::*;
use rten_tensor::NdTensor;
use vh_gemm::*;

fn inputs(kind: u64, seed: u64, len: usize) -> Vec<f32> {
    let mut rng = SplitMix64(seed);
    let mut unit = || (rng.below(1 << 24) as f32) / (1u32 << 24) as f32; // [0,1)
    (0..len).map(|i| match kind {
        0 => (unit() * 2.0 - 1.0) * 3.7,                 // symmetric range
        1 => unit() * 100.0 + 0.5,                        // all positive
        2 => -unit() * 0.01 - 1e-4,                       // all negative, small
        3 => 0.0,                                         // zero range
        4 => ((i as i64 % 17) - 8) as f32,                // small integers
        5 => (unit() - 0.3) * 1.0e30,                     // huge
        6 => (unit() - 0.7) * 1.0e-30,                    // tiny
        7 => if i % 2 == 0 { 255.0 * unit() } else { -0.0 },
        8 => f32::from_bits(1 + (unit() * 1000.0) as u32), // denormals (scale is subnormal: outside the tolerance)
        9 => f32::from_bits(0x0800_0000 + (unit() * 8.0e6) as u32) * if i % 3 == 0 { -1.0 } else { 1.0 }, // near the bottom of the normal range
        _ => (unit() * 2.0 - 1.0) * (1 + i) as f32,
    }).collect()
}

fn exec_line(line: &str) -> String {
    let kv = parse_kv(line);
    let (kind, seed, len) = (get_u(&kv, "kind2") as u64, get_u(&kv, "seed") as u64, get_u(&kv, "len"));
    let xs = inputs(kind, seed, len);
    let r = no_panic(std::panic::AssertUnwindSafe(|| {
        let pool = BufferPool::new();
        let t = NdTensor::<f32, 1>::from_data([len], xs.clone());
        let out = dynamic_quantize_linear::<u8>(&pool, t.as_dyn()).ok()?;
        Some((out.quantized.iter().copied().collect::<Vec<u8>>(), *out.scale.item().unwrap(), *out.zero_point.item().unwrap()))
    })).flatten();
    let xb: Vec<String> = xs.iter().map(|x| x.to_bits().to_string()).collect();
    let term = match &r {
        Some((ys, scale, zp)) => {
            let yb: Vec<String> = ys.iter().map(|y| y.to_string()).collect();
            format!("{{| d_x := ([{}] : list N); d_scale := {}; d_zp := {}; d_y := Some ([{}] : list N) |}}", xb.join(";"), scale.to_bits(), zp, yb.join(";"))
        }
        None => format!("{{| d_x := ([{}] : list N); d_scale := 0; d_zp := 0; d_y := None |}}", xb.join(";")),
    };
    let names = ["symmetric", "positive", "negative", "trivial-zero-range", "integers", "huge", "tiny", "mixed-zero", "trivial-denormal", "small-normal", "growing"];
    format!("dq-{}{}\t{}\t{}", names[(kind as usize).min(10)], if len == 0 { "-empty" } else { "" }, line, term)
}

fn main() {
    quiet_panics();
    let args: Vec<String> = std::env::args().collect();
    let stdout = std::io::stdout();
    let mut out = std::io::BufWriter::new(stdout.lock());
    match args.get(1).map(|s| s.as_str()) {
        Some("gen") => {
            let seed: u64 = args[2].parse().unwrap();
            let n: usize = args[3].parse().unwrap();
            let mut rng = SplitMix64(seed);
            for kind in 0..11 { for len in [1usize, 2, 7] { writeln!(out, "D kind2={} seed={} len={}", kind, rng.below(100000), len).unwrap(); } }
            writeln!(out, "D kind2=0 seed=1 len=0").unwrap();
            for _ in 0..n {
                writeln!(out, "D kind2={} seed={} len={}", rng.below(11), rng.below(100000), 1 + rng.below(if args[4] == "thorough" { 1000 } else { 300 })).unwrap();
            }
        }
        Some("exec") => {
            for line in std::io::stdin().lock().lines() {
                let line = line.unwrap();
                if line.trim().is_empty() { continue; }
                writeln!(out, "{}", exec_line(&line)).unwrap();
            }
        }
        _ => { eprintln!("usage: c17dq gen <seed> <n> <tier> | c17dq exec"); std::process::exit(2); }
    }
}
