//! C17 correspondence: u8 x i8 -> i32 GEMM through `GemmExecutor<u8, i8, i32>` for every int8
//! kernel available on this machine (hook `rten_gemm::verif::int8_executor`), with row/column
//! zero points, extreme operand values, prepacked operands and the vector-matrix path.
//!
//!   c17 gen <seed> <n> <tier>     print input lines
//!   c17 exec                      read input lines, print `tag \t input \t coq-case`
use std::collections::HashMap;
use std::io::{BufRead, Write};

use rten_gemm::verif as hk;
use rten_gemm::{GemmExecutor, GemmInputA, GemmInputB, GemmOptions, QuantParams};
use rten_tensor::MatrixLayout;
use rten_tensor::{Matrix, NdTensorView};
#[allow(unused_imports)]
use rten_tensor::prelude::*;
use vh_gemm::*;

fn hsh(s: u64, i: u64, j: u64) -> u64 { s + i * 7 + j * 13 + i * j * 5 + (i >> 2) * 3 + (j >> 3) }
fn gen_a(mode: u64, s: u64, i: u64, j: u64) -> u8 {
    let h = hsh(s, i, j);
    match mode { 0 => (h & 255) as u8, 1 => [0u8, 1, 127, 128, 255][(h % 5) as usize], 2 => (h & 127) as u8, _ => 255 }
}
fn gen_b(mode: u64, s: u64, i: u64, j: u64) -> i8 {
    let h = hsh(s, i, j);
    match mode {
        0 => ((h & 255) as i64 - 128) as i8,
        1 => [-128i8, -1, 0, 1, 127][(h % 5) as usize],
        2 => ((h & 127) as i64 - 64) as i8,
        3 => 127,
        _ => -128,
    }
}
fn gen_za(mode: u64, s: u64, i: u64) -> u8 { match mode { 0 => 0, 1 => gen_a(0, s, 0, 0), 2 => gen_a(0, s, i, 1), _ => gen_a(1, s, i, 2) } }
fn gen_zb(mode: u64, s: u64, j: u64) -> i8 { match mode { 0 => 0, 1 => gen_b(0, s, 0, 0), 2 => gen_b(0, s, j, 1), _ => gen_b(1, s, j, 2) } }
fn gen_c(s: u64, i: u64, j: u64) -> i32 { (hsh(s, i, j) & 1023) as i32 - 512 }

fn exec_line(line: &str) -> String {
    let kv = parse_kv(line);
    // corpus lines of the other C17 stream (`D ...`, DynamicQuantizeLinear) are answered with an empty product
    let kern = kv.get("kern").cloned().unwrap_or("generic".into());
    let (m, n, k) = (get_u(&kv, "m"), get_u(&kv, "n"), get_u(&kv, "k"));
    let (la, lb) = (get_u(&kv, "la"), get_u(&kv, "lb"));
    let (pa, pb) = (get_u(&kv, "pa") != 0, get_u(&kv, "pb") != 0);
    let (am, bm) = (get_u(&kv, "am") as u64, get_u(&kv, "bm") as u64);
    let (sa, sb, sc) = (get_u(&kv, "sa") as u64, get_u(&kv, "sb") as u64, get_u(&kv, "sc") as u64);
    let (zam, zbm) = (get_u(&kv, "zam") as u64, get_u(&kv, "zbm") as u64);
    let (sza, szb) = (get_u(&kv, "sza") as u64, get_u(&kv, "szb") as u64);
    let beta = get_i(&kv, "beta");
    let gemm: GemmExecutor<u8, i8, i32> = hk::int8_executor(&kern).expect("kernel not available");
    let sat = gemm.may_saturate();

    let a = make_strided(la, m, k, 99u8, |i, j| gen_a(am, sa, i as u64, j as u64));
    let b = make_strided(lb, k, n, 55i8, |i, j| gen_b(bm, sb, i as u64, j as u64));
    let av: Matrix<u8> = NdTensorView::from_data_with_strides([m, k], &a.data[a.offset..], [a.rs, a.cs]).unwrap();
    let bv: Matrix<i8> = NdTensorView::from_data_with_strides([k, n], &b.data[b.offset..], [b.rs, b.cs]).unwrap();
    let za: Vec<u8> = (0..m).map(|i| gen_za(zam, sza, i as u64)).collect();
    let zb: Vec<i8> = (0..n).map(|j| gen_zb(zbm, szb, j as u64)).collect();

    // which code path computes the dot products, and how many leading depth elements go through
    // the vector dot-product instruction (the rest is scalar i32 code)
    let gemv = m == 1 && !pa && !pb;
    let lanes = match kern.as_str() { "avx2" => 32, "avx512" => 64, _ => 1 };
    let (path, vext, vcols) = if !gemv || n == 0 || k == 0 { ("gemm", k, n) }
        else if bv.row_stride() == 1 { ("gemv-t", k / lanes * lanes, n) }
        else if bv.col_stride() != 1 { ("gemv-s", 0, 0) }
        else { ("gemv", k / 4 * 4, n / lanes * lanes) };

    let out = no_panic(std::panic::AssertUnwindSafe(|| -> Option<Vec<i32>> {
        let packed_a = if pa { Some(gemm.prepack_a(av)) } else { None };
        let packed_b = if pb { Some(gemm.prepack_b(bv)) } else { None };
        let a_in = match &packed_a { Some(p) => GemmInputA::Packed(p), None => GemmInputA::Unpacked(av) };
        let b_in = match &packed_b { Some(p) => GemmInputB::Packed(p), None => GemmInputB::Unpacked(bv) };
        let mut out: Vec<i32> = (0..m * n).map(|o| if beta == 0 { 0x5A5A5A5Au32 as i32 } else { gen_c(sc, (o / n.max(1)) as u64, (o % n.max(1)) as u64) }).collect();
        let r = gemm.gemm(&mut out, a_in, b_in, GemmOptions {
            alpha: 1.0, beta: beta as i32, bias: None,
            a_quant: if zam == 0 { None } else { Some(QuantParams { zero_point: &za }) },
            b_quant: if zbm == 0 { None } else { Some(QuantParams { zero_point: &zb }) },
        });
        r.ok().map(|_| out)
    })).flatten();

    let outs = match &out {
        Some(v) => {
            let s: Vec<String> = v.iter().map(|x| if *x < 0 { format!("({})", x) } else { x.to_string() }).collect();
            format!("Some ([{}]%Z : list Z)", s.join(";"))
        }
        None => "None".into(),
    };
    let term = format!(
        "{{| i_sat := {}; i_m := {}; i_n := {}; i_k := {}; i_amode := {}; i_bmode := {}; i_sa := {}; i_sb := {}; i_zamode := {}; i_zbmode := {}; i_sza := {}; i_szb := {}; i_beta := {}; i_sc := {}; i_vext := {}; i_vcols := {}; i_out := {} |}}",
        sat, m, n, k, am, bm, sa, sb, zam, zbm, sza, szb, coq_z(beta), sc, vext, vcols, outs);
    let tag = format!("{}{}-{}{}{}{}-{}{}", if m * n == 0 { "trivial-" } else { "" }, path, kern,
        if sat { "-sat" } else { "" }, if pa { "-pa" } else { "" }, if pb { "-pb" } else { "" },
        if am == 2 || bm == 2 { "reduced" } else { "full" }, if zam > 1 || zbm > 1 { "-zpvec" } else if zam + zbm > 0 { "-zp" } else { "" });
    format!("{}\t{}\t{}", tag, line, term)
}

fn generate(seed: u64, n: usize, tier: &str, out: &mut impl Write) {
    let mut rng = SplitMix64(seed);
    let thorough = tier == "thorough";
    for kern in hk::int8_kernel_names() {
        let g = hk::int8_executor(kern).unwrap();
        let bp = hk::block_params(&g, 300, 300, 300, None);
        let (mr, nr) = (bp.mr, bp.nr);
        let ms = [0usize, 1, 1, 2, mr - 1, mr, mr + 1, 2 * mr, 2 * mr + 1, 3 * mr + 2];
        let ns = [0usize, 1, 2, nr - 1, nr, nr + 1, 2 * nr, 2 * nr + 1, 3 * nr + 2];
        let ks = [0usize, 1, 2, 3, 4, 5, 7, 8, 9, 31, 32, 33, 63, 64, 65, 70];
        // all combinations of extreme operand palettes x zero-point modes on a fixed medium shape
        for am in 0..4u64 { for bm in 0..5u64 { for zm in [(0u64, 0u64), (1, 1), (2, 2), (3, 3), (2, 0), (0, 3)] {
            if !thorough && (am + bm + zm.0) % 2 == 1 { continue; }
            writeln!(out, "I kern={} m={} n={} k={} la={} lb={} pa=0 pb=0 am={} bm={} sa={} sb={} zam={} zbm={} sza={} szb={} beta={} sc={}",
                kern, 2 * mr + 1, nr + 3, 13, rng.below(5), rng.below(5), am, bm, rng.below(1000), rng.below(1000), zm.0, zm.1, rng.below(1000), rng.below(1000), rng.below(2), rng.below(1000)).unwrap();
        }}}
        // M / N spanning more than one row / column BLOCK (mc, nc as the hook reports them for that
        // size), distinct per-row and per-column zero points, prepacked and not; K stays small.
        {
            let big = hk::block_params(&g, 1000, 1000, 8, None);
            let (mc, nc) = (big.mc, big.nc);
            let mut line = |m: usize, nn: usize, k: usize, pa: u8, pb: u8, rng: &mut SplitMix64| {
                writeln!(out, "I kern={} m={} n={} k={} la={} lb={} pa={} pb={} am={} bm={} sa={} sb={} zam=2 zbm=2 sza={} szb={} beta={} sc={}",
                    kern, m, nn, k, rng.below(5), rng.below(5), pa, pb, rng.pick(&[0u64, 2]), rng.pick(&[0u64, 2]), rng.below(1000), rng.below(1000),
                    rng.below(1000), rng.below(1000), rng.below(2), rng.below(1000)).unwrap();
            };
            line(mc + 1, 9, 5, 0, 0, &mut rng);
            line(2 * mc + 3, 7, 3, 1, 0, &mut rng);
            line(mc - 1 + mr, nr + 1, 4, 0, 1, &mut rng);
            line(5, nc + 1, 5, 0, 0, &mut rng);
            line(mr + 1, 2 * nc + 3, 3, 0, 1, &mut rng);
            line(3, nc - 1 + nr, 4, 1, 0, &mut rng);
            line(mc + 1, nc + 1, 3, 0, 0, &mut rng);
            if thorough {
                line(2 * mc + 3, 2 * nc + 3, 2, 1, 1, &mut rng);
                line(3 * mc, nc, 9, 0, 0, &mut rng);
            }
        }
        for _ in 0..n {
            let gemv = rng.chance(1, 4);
            let m = if gemv { 1 } else { rng.pick(&ms) };
            let nn = if gemv && rng.chance(1, 2) { rng.pick(&[31usize, 32, 33, 64, 65, 130]) } else { rng.pick(&ns) };
            let k = if rng.chance(1, 12) { rng.pick(&[1023usize, 1024, 1025, 1100]) } else { rng.pick(&ks) };
            let (m, nn) = if k > 100 { (m.min(3), nn.min(nr + 1)) } else { (m, nn) };
            writeln!(out, "I kern={} m={} n={} k={} la={} lb={} pa={} pb={} am={} bm={} sa={} sb={} zam={} zbm={} sza={} szb={} beta={} sc={}",
                kern, m, nn, k, rng.below(5), rng.below(5), rng.chance(1, 4) as u8, rng.chance(1, 4) as u8,
                rng.below(4), rng.below(5), rng.below(1000), rng.below(1000), rng.below(4), rng.below(4), rng.below(1000), rng.below(1000), rng.below(2), rng.below(1000)).unwrap();
        }
    }
}

fn main() {
    quiet_panics();
    let args: Vec<String> = std::env::args().collect();
    let stdout = std::io::stdout();
    let mut out = std::io::BufWriter::new(stdout.lock());
    let _unused: HashMap<u8, u8> = HashMap::new();
    match args.get(1).map(|s| s.as_str()) {
        Some("gen") => {
            let seed: u64 = args[2].parse().unwrap();
            let n: usize = args[3].parse().unwrap();
            generate(seed, n, &args[4], &mut out);
        }
        Some("exec") => {
            for line in std::io::stdin().lock().lines() {
                let line = line.unwrap();
                if line.trim().is_empty() { continue; }
                writeln!(out, "{}", exec_line(&line)).unwrap();
            }
        }
        _ => {
            eprintln!("usage: c17 gen <seed> <n> <tier> | c17 exec");
            std::process::exit(2);
        }
    }
}
