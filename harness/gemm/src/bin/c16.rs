//! C16 correspondence: f32 GEMM through `GemmExecutor::{gemm, gemm_uninit, batched_gemm_uninit,
//! prepack_a, prepack_b}` for every f32 kernel available on this machine (selected through the
//! `rten_gemm::verif` hook), plus the kernels' packing entry points.
//!
//!   c16 gen <seed> <n> <tier>     print input lines (`G ...` gemm, `P ...` packing, `B ...` batch errors)
//!   c16 exec                      read input lines, print `tag \t input \t coq-case`
//!
//! All matrix values are small integers produced by `gen_val(seed, i, j)` (the same formula as
//! `gen` in coq/gemm/ModelC16.v), alpha/beta in {0, 1, -1, 2}: every intermediate is an exactly
//! representable f32, so outputs are compared exactly with the Z model.
use std::collections::HashMap;
use std::io::{BufRead, Write};
use std::mem::MaybeUninit;
use std::sync::{Mutex, OnceLock};

use rten_gemm::verif as hk;
use rten_gemm::{
    BiasVector, ColOffsets, GemmExecutor, GemmInputA, GemmInputB, GemmOptions, GemmUninitOptions,
    Im2Col, RowOffsets,
};
use rten_tensor::prelude::*;
use rten_tensor::{Matrix, NdTensor, NdTensorView};
use vh_gemm::*;

fn pool(th: usize) -> std::sync::Arc<rayon::ThreadPool> {
    static POOLS: OnceLock<Mutex<HashMap<usize, std::sync::Arc<rayon::ThreadPool>>>> = OnceLock::new();
    let m = POOLS.get_or_init(|| Mutex::new(HashMap::new()));
    let mut g = m.lock().unwrap();
    g.entry(th)
        .or_insert_with(|| std::sync::Arc::new(rayon::ThreadPoolBuilder::new().num_threads(th).build().unwrap()))
        .clone()
}

#[derive(Clone, Copy, Debug)]
struct Conv {
    c: usize, h: usize, w: usize, kh: usize, kw: usize,
    pt: usize, pl: usize, pb: usize, pr: usize,
    sh: usize, sw: usize, dy: usize, dx: usize,
}

impl Conv {
    fn parse(s: &str) -> Conv {
        let v: Vec<usize> = s.split(',').map(|x| x.parse().unwrap()).collect();
        Conv { c: v[0], h: v[1], w: v[2], kh: v[3], kw: v[4], pt: v[5], pl: v[6], pb: v[7], pr: v[8], sh: v[9], sw: v[10], dy: v[11], dx: v[12] }
    }
    fn fmt(&self) -> String {
        format!("{},{},{},{},{},{},{},{},{},{},{},{},{}", self.c, self.h, self.w, self.kh, self.kw, self.pt, self.pl, self.pb, self.pr, self.sh, self.sw, self.dy, self.dx)
    }
    fn oh(&self) -> usize { (self.h + self.pt + self.pb - (self.dy * (self.kh - 1) + 1)) / self.sh + 1 }
    fn ow(&self) -> usize { (self.w + self.pl + self.pr - (self.dx * (self.kw - 1) + 1)) / self.sw + 1 }
    fn rows(&self) -> usize { self.c * self.kh * self.kw }
    fn cols(&self) -> usize { self.oh() * self.ow() }
    fn valid(&self) -> bool {
        self.c > 0 && self.h > 0 && self.w > 0 && self.kh > 0 && self.kw > 0 && self.sh > 0 && self.sw > 0
            && self.h + self.pt + self.pb >= self.dy * (self.kh - 1) + 1
            && self.w + self.pl + self.pr >= self.dx * (self.kw - 1) + 1
    }
    fn coq(&self) -> String {
        format!("{{| cv_c := {}; cv_h := {}; cv_w := {}; cv_kh := {}; cv_kw := {}; cv_pad_top := {}; cv_pad_left := {}; cv_pad_bottom := {}; cv_pad_right := {}; cv_sh := {}; cv_sw := {}; cv_dy := {}; cv_dx := {} |}}",
            self.c, self.h, self.w, self.kh, self.kw, self.pt, self.pl, self.pb, self.pr, self.sh, self.sw, self.dy, self.dx)
    }
}

/// Port of `build_im2col` (src/ops/conv/im2col.rs) for a contiguous `[c, h, w]` image.
fn build_im2col<'a>(image: NdTensorView<'a, f32, 3>, cv: &Conv, col_step: usize, row_step: usize) -> Im2Col<'a, f32> {
    let (h, w) = (cv.h as i32, cv.w as i32);
    let (sc, sh_, sw_) = (h * w, w, 1i32);
    let n_rows = cv.rows();
    let n_rows_padded = n_rows.next_multiple_of(row_step);
    let (mut rc, mut ry, mut rx) = (vec![], vec![], vec![]);
    for chan in 0..cv.c {
        for ky in 0..cv.kh {
            for kx in 0..cv.kw {
                rc.push(chan as i32 * sc);
                ry.push(sh_ * ky as i32 * cv.dy as i32);
                rx.push(sw_ * kx as i32 * cv.dx as i32);
            }
        }
    }
    let max_y = (h - 1) * sh_;
    let max_x = (w - 1) * sw_;
    for _ in n_rows..n_rows_padded {
        rc.push(0);
        rx.push(max_x + 1);
        ry.push(max_y + 1);
    }
    let (yp, xp) = (cv.oh(), cv.ow());
    let n_cols = yp * xp;
    let n_cols_padded = n_cols.next_multiple_of(col_step);
    let (mut cy, mut cx) = (vec![], vec![]);
    for col in 0..n_cols_padded {
        let py = (col / xp) as i32;
        let px = (col % xp) as i32;
        cy.push((py * cv.sh as i32 - cv.pt as i32) * sh_);
        cx.push((px * cv.sw as i32 - cv.pl as i32) * sw_);
    }
    Im2Col {
        image,
        row_offsets: RowOffsets { chan: rc, y: ry, x: rx },
        col_offsets: ColOffsets { y: cy, x: cx },
        n_cols,
        n_rows,
        max_y_offset: max_y,
        max_x_offset: max_x,
    }
}

#[derive(Clone, Debug)]
struct GCase {
    kern: String, th: usize, m: usize, n: usize, k: usize,
    la: usize, lb: usize, pa: bool, pb: bool, alpha: i64, beta: i64, bias: usize,
    sa: u64, sb: u64, sc: u64, sbias: u64, conv: Option<Conv>, batch: usize, api: usize, fill: usize,
}

fn parse_g(kv: &HashMap<String, String>) -> GCase {
    GCase {
        kern: kv.get("kern").cloned().unwrap_or("generic".into()),
        th: get_u(kv, "th").max(1),
        m: get_u(kv, "m"), n: get_u(kv, "n"), k: get_u(kv, "k"),
        la: get_u(kv, "la"), lb: get_u(kv, "lb"),
        pa: get_u(kv, "pa") != 0, pb: get_u(kv, "pb") != 0,
        alpha: kv.get("alpha").map(|v| v.parse().unwrap()).unwrap_or(1), beta: get_i(kv, "beta"), bias: get_u(kv, "bias"),
        sa: get_u(kv, "sa") as u64, sb: get_u(kv, "sb") as u64, sc: get_u(kv, "sc") as u64, sbias: get_u(kv, "sbias") as u64,
        conv: kv.get("im").map(|s| Conv::parse(s)),
        batch: get_u(kv, "batch").max(1), api: get_u(kv, "api"), fill: get_u(kv, "fill"),
    }
}

enum Obs {
    Full(Vec<i64>),
    Sums(Vec<i64>, Vec<i64>, Vec<(usize, usize, i64)>),
    Panic,
    Err,
}

fn zlist(v: &[i64]) -> String {
    let s: Vec<String> = v.iter().map(|x| if *x < 0 { format!("({})", x) } else { x.to_string() }).collect();
    // the type ascription lets Coq elaborate the literal ~40x faster
    format!("([{}]%Z : list Z)", s.join(";"))
}

impl Obs {
    fn coq(&self) -> String {
        match self {
            Obs::Full(v) => format!("OFull {}", zlist(v)),
            Obs::Sums(r, c, s) => {
                let ss: Vec<String> = s.iter().map(|(i, j, v)| format!("({},{},{})", i, j, coq_z(*v))).collect();
                format!("OSums {} {} ([{}] : list (N * N * Z))", zlist(r), zlist(c), ss.join(";"))
            }
            Obs::Panic => "OPanic".into(),
            Obs::Err => "OErr".into(),
        }
    }
}

fn sums_of(out: &[i64], m: usize, n: usize, seed: u64, mr: usize, nr: usize) -> Obs {
    let mut rows = vec![0i64; m];
    let mut cols = vec![0i64; n];
    let mut bad_r = vec![false; m];
    let mut bad_c = vec![false; n];
    for i in 0..m {
        for j in 0..n {
            let v = out[i * n + j];
            if v == GARBAGE { bad_r[i] = true; bad_c[j] = true; continue; }
            rows[i] += v * (1 + (j % 5) as i64);
            cols[j] += v * (1 + (i % 3) as i64);
        }
    }
    for i in 0..m { if bad_r[i] { rows[i] = GARBAGE; } }
    for j in 0..n { if bad_c[j] { cols[j] = GARBAGE; } }
    let mut samples = vec![];
    if m > 0 && n > 0 {
        let mut rng = SplitMix64(seed ^ 0xABCDEF);
        let mut push = |i: usize, j: usize| samples.push((i.min(m - 1), j.min(n - 1), out[i.min(m - 1) * n + j.min(n - 1)]));
        push(0, 0); push(m - 1, n - 1); push(0, n - 1); push(m - 1, 0);
        for _ in 0..12 {
            push(rng.below(m as u64) as usize, rng.below(n as u64) as usize);
        }
        // around tile and block edges
        for _ in 0..8 {
            let ti = (rng.below((m / mr + 1) as u64) as usize) * mr;
            let tj = (rng.below((n / nr + 1) as u64) as usize) * nr;
            push(ti.saturating_sub(rng.below(2) as usize), tj.saturating_sub(rng.below(2) as usize));
        }
    }
    Obs::Sums(rows, cols, samples)
}

struct Member {
    term: String,
    tag: String,
}

/// Run one (possibly batched) GEMM call. Returns one Coq `gemm_case` per batch member.
fn run_g(c: &GCase) -> Vec<Member> {
    let p = pool(c.th);
    p.install(|| run_g_inner(c))
}

fn run_g_inner(c: &GCase) -> Vec<Member> {
    let gemm: GemmExecutor = hk::f32_executor(&c.kern).expect("kernel not available");
    let (m, n, k) = match &c.conv {
        Some(cv) => (c.m, cv.cols(), cv.rows()),
        None => (c.m, c.n, c.k),
    };
    let bp = hk::block_params(&gemm, m, n, k, None);
    let (brs, _bcs) = strides_for(c.lb, k, n);
    let (bb, kb) = hk::gemv_params(n, if c.conv.is_some() { 0 } else { brs });
    let small = m <= 32 && n <= 32 && m * n * k <= 65536;

    // inputs for each batch member
    struct Inp { a: Strided<f32>, b: Strided<f32>, img: Vec<f32> }
    let inputs: Vec<Inp> = (0..c.batch as u64).map(|bi| {
        let a = make_strided(c.la, m, k, 777.0f32, |i, j| gen_val(c.sa + bi, i as u64, j as u64) as f32);
        let b = make_strided(c.lb, k, n, 777.0f32, |i, j| gen_val(c.sb + bi, i as u64, j as u64) as f32);
        let img = match &c.conv {
            Some(cv) => (0..cv.c * cv.h * cv.w).map(|o| gen_val(c.sb + bi, o as u64, 0) as f32).collect(),
            None => vec![],
        };
        Inp { a, b, img }
    }).collect();

    let a_views: Vec<Matrix> = inputs.iter().map(|x| NdTensorView::from_data_with_strides([m, k], &x.a.data[x.a.offset..], [x.a.rs, x.a.cs]).unwrap()).collect();
    let b_views: Vec<Matrix> = inputs.iter().map(|x| NdTensorView::from_data_with_strides([k, n], &x.b.data[x.b.offset..], [x.b.rs, x.b.cs]).unwrap()).collect();

    // Which LHS/RHS form does the model take?
    let la_code = if c.pa { 2 } else if a_views[0].stride(1) == 1 || k <= 1 && false { 1 } else { 0 };
    let la_code = if !c.pa && m > 0 && k > 0 {
        if hk::pack_a_block(&gemm, a_views[0], 0..1, 0..1, None).must_pack { 0 } else { 1 }
    } else { la_code };
    let rb_code = if c.conv.is_some() { 2 } else if c.pb { 1 } else { 0 };

    let bias_col: Vec<f32> = (0..m).map(|i| gen_val(c.sbias, i as u64, 0) as f32).collect();
    let bias_row: Vec<f32> = (0..n).map(|j| gen_val(c.sbias, j as u64, 0) as f32).collect();
    let bias = match c.bias {
        1 => Some(BiasVector::Column(&bias_col[..])),
        2 => Some(BiasVector::Row(&bias_row[..])),
        _ => None,
    };
    let fillv = match c.fill { 0 => f32::NAN, 1 => f32::INFINITY, 2 => 3.0e30, _ => -0.5 };

    let res = no_panic(std::panic::AssertUnwindSafe(|| -> Result<Vec<f32>, ()> {
        let packed_a: Vec<_> = if c.pa { a_views.iter().map(|a| gemm.prepack_a(*a)).collect() } else { vec![] };
        let packed_b: Vec<_> = if c.pb && c.conv.is_none() { b_views.iter().map(|b| gemm.prepack_b(*b)).collect() } else { vec![] };
        let images: Vec<NdTensorView<f32, 3>> = match &c.conv {
            Some(cv) => inputs.iter().map(|x| NdTensorView::from_data([cv.c, cv.h, cv.w], &x.img[..])).collect(),
            None => vec![],
        };
        let im2cols: Vec<Im2Col<f32>> = match &c.conv {
            Some(cv) => images.iter().map(|im| build_im2col(im.clone(), cv, gemm.im2col_col_count_step(), gemm.im2col_row_count_step())).collect(),
            None => vec![],
        };
        let a_in: Vec<GemmInputA<f32>> = (0..c.batch).map(|i| if c.pa { GemmInputA::Packed(&packed_a[i]) } else { GemmInputA::Unpacked(a_views[i]) }).collect();
        let b_in: Vec<GemmInputB<f32>> = (0..c.batch).map(|i| {
            if c.conv.is_some() { GemmInputB::Im2Col(&im2cols[i]) }
            else if c.pb { GemmInputB::Packed(&packed_b[i]) }
            else { GemmInputB::Unpacked(b_views[i]) }
        }).collect();

        let mut out: Vec<f32> = if c.beta == 0 {
            vec![fillv; c.batch * m * n]
        } else {
            (0..c.batch * m * n).map(|o| { let (i, j) = if n > 0 { ((o % (m * n)) / n, o % n) } else { (0, 0) }; gen_val(c.sc, i as u64, j as u64) as f32 }).collect()
        };
        let r = if c.batch > 1 || c.api == 2 {
            let out_u: &mut [MaybeUninit<f32>] = unsafe { std::mem::transmute(&mut out[..]) };
            gemm.batched_gemm_uninit(out_u, &a_in, &b_in, GemmUninitOptions { alpha: c.alpha as f32, bias, a_quant: None, b_quant: None }).map(|_| ())
        } else if c.api == 1 && c.beta == 0 {
            let out_u: &mut [MaybeUninit<f32>] = unsafe { std::mem::transmute(&mut out[..]) };
            gemm.gemm_uninit(out_u, a_in[0], b_in[0], GemmUninitOptions { alpha: c.alpha as f32, bias, a_quant: None, b_quant: None }).map(|_| ())
        } else {
            gemm.gemm(&mut out, a_in[0], b_in[0], GemmOptions { alpha: c.alpha as f32, beta: c.beta as f32, bias, a_quant: None, b_quant: None })
        };
        match r { Ok(()) => Ok(out), Err(_) => Err(()) }
    }));

    let mut members = vec![];
    for bi in 0..c.batch {
        let (obs, obs2) = match &res {
            None => (Obs::Panic, Obs::Panic),
            Some(Err(())) => (Obs::Err, Obs::Err),
            Some(Ok(out)) => {
                let ints: Vec<i64> = out[bi * m * n..(bi + 1) * m * n].iter().map(|x| f32_to_int(*x)).collect();
                let sums = sums_of(&ints, m, n, c.sa + bi as u64, bp.mr, bp.nr);
                if small { (Obs::Full(ints), sums) } else { (sums, Obs::Panic) }
            }
        };
        let conv = match &c.conv { Some(cv) => format!("Some {}", cv.coq()), None => "None".into() };
        let term = format!(
            "{{| g_P := {{| p_mr := {}; p_nr := {}; p_mc := {}; p_nc := {}; p_kc := {} |}}; g_bb := {}; g_kb := {}; g_m := {}; g_n := {}; g_k := {}; g_alpha := {}; g_beta := {}; g_bias := {}; g_sbias := {}; g_sa := {}; g_sb := {}; g_sc := {}; g_la := {}; g_rb := {}; g_conv := {}; g_small := {}; g_obs := {}; g_obs2 := {} |}}",
            bp.mr, bp.nr, bp.mc, bp.nc, bp.kc, bb, kb, m, n, k, coq_z(c.alpha), coq_z(c.beta), c.bias, c.sbias,
            c.sa + bi as u64, c.sb + bi as u64, c.sc, la_code, rb_code, conv, small, obs.coq(), obs2.coq());
        let path = if m == 0 || n == 0 { "trivial-empty" } else if k == 0 { "k0" } else if m == 1 && !c.pa && rb_code == 0 { "gemv" } else { "gemm" };
        let nblk = |x: usize, b: usize| if b == 0 { 0 } else { x.div_ceil(b) };
        let tag = format!("{}-{}-{}{}{}{}{}-blk{}x{}x{}", path, c.kern, if small { "small" } else { "large" },
            if c.pa { "-pa" } else { "" }, if c.pb { "-pb" } else { "" }, if c.conv.is_some() { "-im2col" } else { "" },
            if c.batch > 1 { "-batch" } else { "" },
            nblk(m, bp.mc).min(3), nblk(n, bp.nc).min(3), nblk(k, bp.kc).min(3));
        members.push(Member { term, tag });
    }
    members
}

fn f32s_from_bytes(b: &[u8]) -> Vec<i64> {
    b.chunks_exact(4).map(|c| f32_to_int(f32::from_le_bytes([c[0], c[1], c[2], c[3]]))).collect()
}

/// Packing streams.
fn run_p(kv: &HashMap<String, String>) -> (String, String) {
    let kern = kv.get("kern").cloned().unwrap();
    let which = get_u(kv, "which");
    let (m, n, k) = (get_u(kv, "m"), get_u(kv, "n"), get_u(kv, "k"));
    let (r0, r1, d0, d1) = (get_u(kv, "r0"), get_u(kv, "r1"), get_u(kv, "d0"), get_u(kv, "d1"));
    let seed = get_u(kv, "seed") as u64;
    let layout = get_u(kv, "lay");
    let conv = kv.get("im").map(|s| Conv::parse(s));
    let gemm: GemmExecutor = hk::f32_executor(&kern).expect("kernel not available");
    let (n, k) = match &conv { Some(cv) => (cv.cols(), cv.rows()), None => (n, k) };
    let bp = hk::block_params(&gemm, m.max(1), n.max(1), k, None);
    let out = no_panic(std::panic::AssertUnwindSafe(|| -> Vec<i64> {
        match which {
            0 => {
                let a = make_strided(layout, m, k, 777.0f32, |i, j| gen_val(seed, i as u64, j as u64) as f32);
                let av = NdTensorView::from_data_with_strides([m, k], &a.data[a.offset..], [a.rs, a.cs]).unwrap();
                f32s_from_bytes(&hk::pack_a_block(&gemm, av, r0..r1, d0..d1, None).data)
            }
            1 => {
                let b = make_strided(layout, k, n, 777.0f32, |i, j| gen_val(seed, i as u64, j as u64) as f32);
                let bv = NdTensorView::from_data_with_strides([k, n], &b.data[b.offset..], [b.rs, b.cs]).unwrap();
                f32s_from_bytes(&hk::pack_b_block(&gemm, bv, d0..d1, r0..r1, None).data)
            }
            2 => {
                let a = make_strided(layout, m, k, 777.0f32, |i, j| gen_val(seed, i as u64, j as u64) as f32);
                let av = NdTensorView::from_data_with_strides([m, k], &a.data[a.offset..], [a.rs, a.cs]).unwrap();
                let p = gemm.prepack_a(av);
                hk::prepacked_a_words(&p).iter().map(|w| f32_to_int(f32::from_bits(*w))).collect()
            }
            3 => {
                let b = make_strided(layout, k, n, 777.0f32, |i, j| gen_val(seed, i as u64, j as u64) as f32);
                let bv = NdTensorView::from_data_with_strides([k, n], &b.data[b.offset..], [b.rs, b.cs]).unwrap();
                let p = gemm.prepack_b(bv);
                hk::prepacked_b_words(&p).iter().map(|w| f32_to_int(f32::from_bits(*w))).collect()
            }
            _ => {
                let cv = conv.unwrap();
                let img: Vec<f32> = (0..cv.c * cv.h * cv.w).map(|o| gen_val(seed, o as u64, 0) as f32).collect();
                let imv = NdTensorView::from_data([cv.c, cv.h, cv.w], &img[..]);
                let im = build_im2col(imv, &cv, gemm.im2col_col_count_step(), gemm.im2col_row_count_step());
                f32s_from_bytes(&hk::pack_im2col(&gemm, &im, d0..d1, r0..r1, None).data)
            }
        }
    }));
    let convs = match &conv { Some(cv) => format!("Some {}", cv.coq()), None => "None".into() };
    let term = format!(
        "CP {{| k_which := {}; k_P := {{| p_mr := {}; p_nr := {}; p_mc := {}; p_nc := {}; p_kc := {} |}}; k_m := {}; k_n := {}; k_k := {}; k_r0 := {}; k_r1 := {}; k_d0 := {}; k_d1 := {}; k_seed := {}; k_conv := {}; k_out := {} |}}",
        which, bp.mr, bp.nr, bp.mc, bp.nc, bp.kc, m, n, k, r0, r1, d0, d1, seed, convs,
        match &out { Some(v) => format!("Some {}", zlist(v)), None => "None".into() });
    let names = ["pack_a", "pack_b", "prepack_a", "prepack_b", "pack_im2col"];
    (format!("{}-{}", names[which.min(4)], kern), term)
}

/// Batched call whose members are inconsistent: must be rejected with an error, not a panic.
fn run_b(kv: &HashMap<String, String>) -> (String, String) {
    let kern = kv.get("kern").cloned().unwrap();
    let kind = get_u(kv, "kind2");
    let gemm: GemmExecutor = hk::f32_executor(&kern).expect("kernel not available");
    let a1 = NdTensor::<f32, 2>::from_fn([3, 4], |[i, j]| (i + j) as f32);
    let a2 = NdTensor::<f32, 2>::from_fn([2, 4], |[i, j]| (i + j) as f32);
    let a3 = NdTensor::<f32, 2>::from_fn([3, 5], |[i, j]| (i + j) as f32);
    let b1 = NdTensor::<f32, 2>::from_fn([4, 5], |[i, j]| (i * j) as f32);
    let r = no_panic(std::panic::AssertUnwindSafe(|| {
        let mut out = vec![MaybeUninit::new(f32::NAN); 30];
        let (a, b, len): (Vec<GemmInputA<f32>>, Vec<GemmInputB<f32>>, usize) = match kind {
            0 => (vec![GemmInputA::Unpacked(a1.view()), GemmInputA::Unpacked(a2.view())], vec![GemmInputB::Unpacked(b1.view()), GemmInputB::Unpacked(b1.view())], 30),
            1 => (vec![GemmInputA::Unpacked(a1.view()), GemmInputA::Unpacked(a3.view())], vec![GemmInputB::Unpacked(b1.view()), GemmInputB::Unpacked(b1.view())], 30),
            2 => (vec![GemmInputA::Unpacked(a1.view())], vec![GemmInputB::Unpacked(b1.view()), GemmInputB::Unpacked(b1.view())], 30),
            _ => (vec![GemmInputA::Unpacked(a1.view()), GemmInputA::Unpacked(a1.view())], vec![GemmInputB::Unpacked(b1.view()), GemmInputB::Unpacked(b1.view())], 29),
        };
        gemm.batched_gemm_uninit(&mut out[..len], &a, &b, GemmUninitOptions::default()).is_err()
    }));
    let got = match r { Some(e) => e, None => false };
    (format!("batch-mismatch-{}", kern), format!("CB true {}", got))
}

fn exec_line(line: &str) -> String {
    let kv = parse_kv(line);
    let kind = kv.get("kind").cloned().unwrap_or("G".into());
    let (tag, term) = match kind.as_str() {
        "P" => run_p(&kv),
        "B" => run_b(&kv),
        _ => {
            let c = parse_g(&kv);
            let ms = run_g(&c);
            if ms.len() == 1 {
                (ms[0].tag.clone(), format!("CG {}", ms[0].term))
            } else {
                let ts: Vec<String> = ms.iter().map(|m| m.term.clone()).collect();
                (ms[0].tag.clone(), format!("CGL [{}]", ts.join(";")))
            }
        }
    };
    format!("{}\t{}\t{}", tag, line, term)
}

fn generate(seed: u64, n: usize, tier: &str, out: &mut impl Write) {
    let mut rng = SplitMix64(seed);
    let kernels = hk::f32_kernel_names();
    let ab = [0i64, 1, -1, 2];
    let ths = [1usize, 3, 16];
    let thorough = tier == "thorough";
    for kern in &kernels {
        let g = hk::f32_executor(kern).unwrap();
        let bp = hk::block_params(&g, 300, 300, 300, None);
        let (mr, nr) = (bp.mr, bp.nr);
        let edge_m = [0usize, 1, 2, mr - 1, mr, mr + 1, 2 * mr - 1, 2 * mr, 2 * mr + 1, 3 * mr + 2];
        let edge_n = [0usize, 1, 2, nr - 1, nr, nr + 1, 2 * nr - 1, 2 * nr, 2 * nr + 1, 31, 32];
        let edge_k = [0usize, 1, 2, 3, 4, 5, 7, 8, 9, 15, 16, 17, 33, 64];
        // ---- small cases: full comparison and the blocked model itself is evaluated
        let (sm, sk) = if thorough { (32u64, 64u64) } else { (24, 40) };
        for _ in 0..n {
            let m = if rng.chance(1, 5) { 1 } else if rng.chance(1, 2) { rng.pick(&edge_m).min(sm as usize) } else { rng.below(sm + 1) as usize };
            let nn = if rng.chance(1, 2) { rng.pick(&edge_n).min(sm as usize) } else { rng.below(sm + 1) as usize };
            let k = if rng.chance(1, 2) { rng.pick(&edge_k).min(sk as usize) } else { rng.below(sk + 1) as usize };
            let beta = rng.pick(&ab);
            writeln!(out, "G kern={} th={} m={} n={} k={} la={} lb={} pa={} pb={} alpha={} beta={} bias={} sa={} sb={} sc={} sbias={} api={} fill={}",
                kern, rng.pick(&ths), m, nn, k, rng.below(5), rng.below(5), rng.chance(1, 4) as u8, rng.chance(1, 4) as u8,
                rng.pick(&ab), beta, rng.below(3), rng.below(1000), rng.below(1000), rng.below(1000), rng.below(1000),
                rng.below(2), rng.below(4)).unwrap();
        }
        // ---- large cases: several row/column/depth blocks; checksums + sampled entries.
        // quick: one dimension spans several blocks, the others stay moderate; thorough: all of them.
        let big_m = [63usize, 64, 65, 66, 67, 127, 129, 130, 200, bp.mc - 1, bp.mc + 1, 2 * bp.mc + 1, 300];
        let big_n = [127usize, 128, 129, 255, 256, 257, 300, nr * 9 + 1, 2 * bp.nc - 1, 2 * bp.nc + 1];
        let big_k = [255usize, 256, 257, 300, 511, 512, 513, 600];
        for _ in 0..(n / 4).max(6) {
            let gemv = rng.chance(1, 4);
            let (m, nn, k);
            if gemv {
                m = 1;
                nn = if thorough { rng.pick(&[127usize, 128, 129, 300, 2049, 1025]) } else { rng.pick(&[127usize, 128, 129, 130, 257]) };
                k = if thorough { rng.pick(&[7usize, 8, 9, 300, 511, 512, 513, 1024]) } else { rng.pick(&[7usize, 8, 9, 17, 511, 512, 513]) };
            } else if thorough {
                m = if rng.chance(2, 3) { rng.pick(&big_m) } else { 2 + rng.below(90) as usize };
                nn = if rng.chance(2, 3) { rng.pick(&big_n) } else { 33 + rng.below(200) as usize };
                k = if rng.chance(2, 3) { rng.pick(&big_k) } else { 1 + rng.below(300) as usize };
            } else {
                let which = rng.below(4);
                m = if which == 0 || which == 3 { rng.pick(&big_m[..9]) } else { 2 + rng.below(30) as usize };
                nn = if which == 1 || which == 3 { rng.pick(&big_n[..7]) } else { 33 + rng.below(40) as usize };
                k = if which == 2 { rng.pick(&big_k) } else if which == 3 { 2 + rng.below(20) as usize } else { 1 + rng.below(70) as usize };
            }
            writeln!(out, "G kern={} th={} m={} n={} k={} la={} lb={} pa={} pb={} alpha={} beta={} bias={} sa={} sb={} sc={} sbias={} api={} fill={}",
                kern, rng.pick(&ths), m, nn, k, rng.below(5), rng.below(5), rng.chance(1, 4) as u8, rng.chance(1, 4) as u8,
                rng.pick(&ab), rng.pick(&ab), rng.below(3), rng.below(1000), rng.below(1000), rng.below(1000), rng.below(1000),
                rng.below(2), rng.below(4)).unwrap();
        }
        // ---- M / N spanning several row / column blocks with per-row / per-column bias, alpha and
        // beta different from 0/1, prepacked and not (K small: block-index mistakes, not depth)
        {
            let big = hk::block_params(&g, 1000, 1000, 8, None);
            let (mc, nc) = (big.mc, big.nc);
            for (m, nn, k, bias, pa, pb) in [(2 * mc + 3, 20usize, 5usize, 1u8, 0u8, 0u8), (mc + 1, 9, 3, 1, 1, 0), (5, 2 * nc + 3, 4, 2, 0, 0), (mr + 1, nc + 1, 3, 2, 0, 1), (mc + 1, nc + 1, 2, 1, 0, 0), (mc + mr - 1, nc + nr - 1, 2, 2, 1, 1)] {
                writeln!(out, "G kern={} th=16 m={} n={} k={} la={} lb={} pa={} pb={} alpha={} beta={} bias={} sa={} sb={} sc={} sbias={} api=0 fill={}",
                    kern, m, nn, k, rng.below(5), rng.below(5), pa, pb, rng.pick(&[2i64, -1]), rng.pick(&[2i64, -1, 0]), bias,
                    rng.below(1000), rng.below(1000), rng.below(1000), rng.below(1000), rng.below(4)).unwrap();
            }
        }
        // ---- im2col
        for _ in 0..(n / 6).max(4) {
            let cv = loop {
                let cv = Conv { c: 1 + rng.below(3) as usize, h: 1 + rng.below(if thorough { 20 } else { 10 }) as usize, w: 1 + rng.below(if thorough { 20 } else { 10 }) as usize,
                    kh: 1 + rng.below(3) as usize, kw: 1 + rng.below(3) as usize, pt: rng.below(3) as usize, pl: rng.below(3) as usize, pb: rng.below(3) as usize, pr: rng.below(3) as usize,
                    sh: 1 + rng.below(2) as usize, sw: 1 + rng.below(2) as usize, dy: 1 + rng.below(2) as usize, dx: 1 + rng.below(2) as usize };
                if cv.valid() { break cv; }
            };
            writeln!(out, "G kern={} th={} m={} la={} pa={} alpha={} beta={} bias={} sa={} sb={} sc={} sbias={} api={} fill={} im={}",
                kern, rng.pick(&ths), 1 + rng.below(20), rng.below(5), rng.chance(1, 4) as u8, rng.pick(&ab), rng.pick(&ab), rng.below(3),
                rng.below(1000), rng.below(1000), rng.below(1000), rng.below(1000), rng.below(2), rng.below(4), cv.fmt()).unwrap();
        }
        // ---- batched
        for _ in 0..(n / 8).max(3) {
            writeln!(out, "G kern={} th={} m={} n={} k={} la={} lb={} pa={} pb={} alpha={} beta=0 bias={} sa={} sb={} sbias={} batch={} fill={}",
                kern, rng.pick(&ths), rng.below(16), rng.below(24), rng.below(30), rng.below(5), rng.below(5), rng.chance(1, 4) as u8, rng.chance(1, 4) as u8,
                rng.pick(&ab), rng.below(3), rng.below(1000), rng.below(1000), rng.below(1000), 1 + rng.below(4), rng.below(4)).unwrap();
        }
        for kind2 in 0..4 { writeln!(out, "B kern={} kind2={}", kern, kind2).unwrap(); }
        // ---- packing layout streams (informational)
        for _ in 0..(n / 6).max(4) {
            let m = 1 + rng.below(40) as usize; let k = 1 + rng.below(40) as usize; let nn = 1 + rng.below(70) as usize;
            let r0a = (rng.below(m as u64 / mr as u64 + 1) as usize * mr).min(m - 1) / mr * mr; let r1a = r0a + 1 + rng.below((m - r0a) as u64) as usize;
            let d0 = rng.below(k as u64) as usize; let d1 = d0 + 1 + rng.below((k - d0) as u64) as usize;
            writeln!(out, "P kern={} which=0 m={} k={} r0={} r1={} d0={} d1={} seed={} lay={}", kern, m, k, r0a, r1a, d0, d1, rng.below(1000), rng.below(5)).unwrap();
            let c0 = (rng.below(nn as u64) as usize) / nr * nr; let c1 = c0 + 1 + rng.below((nn - c0) as u64) as usize;
            writeln!(out, "P kern={} which=1 n={} k={} r0={} r1={} d0={} d1={} seed={} lay={}", kern, nn, k, c0, c1, d0, d1, rng.below(1000), rng.below(5)).unwrap();
        }
        for (m, k) in [(1usize, 1usize), (mr + 1, 5), (2 * mr, 256), (7, 257), (5, 530)] {
            writeln!(out, "P kern={} which=2 m={} k={} seed={} lay={}", kern, m, k, rng.below(1000), rng.below(5)).unwrap();
        }
        for (nn, k) in [(1usize, 1usize), (nr + 1, 5), (nr, 256), (nr - 1, 257), (3, if nr * 530 <= 9000 { 530 } else { 260 })] {
            writeln!(out, "P kern={} which=3 n={} k={} seed={} lay={}", kern, nn, k, rng.below(1000), rng.below(5)).unwrap();
        }
        for _ in 0..3 {
            let cv = loop {
                let cv = Conv { c: 1 + rng.below(2) as usize, h: 2 + rng.below(6) as usize, w: 2 + rng.below(6) as usize, kh: 1 + rng.below(3) as usize, kw: 1 + rng.below(3) as usize,
                    pt: rng.below(2) as usize, pl: rng.below(2) as usize, pb: rng.below(2) as usize, pr: rng.below(2) as usize, sh: 1 + rng.below(2) as usize, sw: 1 + rng.below(2) as usize, dy: 1, dx: 1 + rng.below(2) as usize };
                if cv.valid() { break cv; }
            };
            writeln!(out, "P kern={} which=4 r0=0 r1={} d0=0 d1={} seed={} im={}", kern, cv.cols(), cv.rows(), rng.below(1000), cv.fmt()).unwrap();
        }
    }
}

fn main() {
    quiet_panics();
    let args: Vec<String> = std::env::args().collect();
    let stdout = std::io::stdout();
    let mut out = std::io::BufWriter::new(stdout.lock());
    match args.get(1).map(|s| s.as_str()) {
        Some("gen") => {
            let seed: u64 = args[2].parse().unwrap();
            let n: usize = args[3].parse().unwrap();
            generate(seed, n, &args[4], &mut out);
        }
        Some("exec") => {
            for line in std::io::stdin().lock().lines() {
                let line = line.unwrap();
                if line.trim().is_empty() { continue; }
                writeln!(out, "{}", exec_line(&line)).unwrap();
            }
        }
        _ => {
            eprintln!("usage: c16 gen <seed> <n> <tier> | c16 exec");
            std::process::exit(2);
        }
    }
}
