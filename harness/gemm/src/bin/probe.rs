use rten_gemm::verif as hk;
use rten_gemm::*;
use rten_tensor::prelude::*;
use rten_tensor::{NdTensor, NdTensorView};
use vh_gemm::*;

fn main() {
    println!("f32 kernels: {:?}", hk::f32_kernel_names());
    println!("int8 kernels: {:?}", hk::int8_kernel_names());
    println!("threads {}", rayon::current_num_threads());
    for name in hk::f32_kernel_names() {
        let g = hk::f32_executor(name).unwrap();
        println!("{} {} {:?} {:?}", name, g.kernel_name(), hk::block_params(&g, 300, 300, 300, None), hk::block_params(&g, 10, 2000, 1000, None));
    }
    for name in hk::int8_kernel_names() {
        let g = hk::int8_executor(name).unwrap();
        println!("{} {} sat={} {:?}", name, g.kernel_name(), g.may_saturate(), hk::block_params(&g, 300, 300, 3000, None));
    }
    // prepack with k = 0
    for name in hk::f32_kernel_names() {
        let r = no_panic(|| {
            let g = hk::f32_executor(name).unwrap();
            let a = NdTensor::<f32, 2>::zeros([3, 0]);
            let p = g.prepack_a(a.view());
            (p.rows(), p.cols())
        });
        println!("prepack_a k=0 {}: {:?}", name, r);
        let r = no_panic(|| {
            let g = hk::f32_executor(name).unwrap();
            let b = NdTensor::<f32, 2>::zeros([0, 3]);
            let p = g.prepack_b(b.view());
            (p.rows(), p.cols())
        });
        println!("prepack_b k=0 {}: {:?}", name, r);
    }
    // int8 zero points, several panels
    for name in hk::int8_kernel_names() {
        let g = hk::int8_executor(name).unwrap();
        for (m, n, k) in [(5usize, 7usize, 10usize), (20, 7, 10), (5, 70, 10), (20, 70, 10)] {
            let a = NdTensor::<u8, 2>::from_fn([m, k], |[i, j]| ((i * 7 + j * 3) % 50) as u8);
            let b = NdTensor::<i8, 2>::from_fn([k, n], |[i, j]| (((i * 5 + j * 11) % 40) as i32 - 20) as i8);
            let azp: Vec<u8> = (0..m).map(|x| (x * 3 % 60) as u8).collect();
            let bzp: Vec<i8> = (0..n).map(|x| ((x * 5 % 50) as i32 - 25) as i8).collect();
            let mut out = vec![0i32; m * n];
            g.gemm(&mut out, GemmInputA::Unpacked(a.view()), GemmInputB::Unpacked(b.view()), GemmOptions { a_quant: Some(QuantParams { zero_point: &azp }), b_quant: Some(QuantParams { zero_point: &bzp }), ..Default::default() }).unwrap();
            let mut bad = 0;
            let mut first = None;
            for i in 0..m { for j in 0..n {
                let mut acc = 0i32;
                for kk in 0..k { acc += (a[[i, kk]] as i32 - azp[i] as i32) * (b[[kk, j]] as i32 - bzp[j] as i32); }
                if acc != out[i * n + j] { bad += 1; if first.is_none() { first = Some((i, j, acc, out[i*n+j])); } }
            }}
            println!("int8 {} {}x{}x{} bad={} first={:?}", name, m, n, k, bad, first);
        }
    }
}
