//! C37 correspondence: 4-bit block-quantized matmul through `BlockQuantizedGemm` (Float and Int8
//! compute modes) and through `GemmExecutor` with `GemmInputB::BlockQuantized` for every f32
//! kernel. Scales are multiples of 1/4 (powers of two, zero, one negative value) and the LHS holds
//! small integers, so f32 results are exact; outputs are printed as `4 * value`.
//!
//!   c37 gen <seed> <n> <tier>     print input lines
//!   c37 exec                      read input lines, print `tag \t input \t coq-case`
use std::io::{BufRead, Write};
use std::mem::MaybeUninit;

use rten_gemm::verif as hk;
use rten_gemm::{
    BiasVector, BlockQuantizedGemm, BlockQuantizedMatrix, ComputeMode, GemmExecutor, GemmInputA,
    GemmInputB, GemmOptions,
};
use rten_tensor::prelude::*;
use rten_tensor::{Contiguous, NdTensor, NdTensorView};
use vh_gemm::*;

fn hq(s: u64, i: u64, j: u64) -> u64 { s + i * 11 + j * 7 + i * j * 3 + (i >> 3) * 5 + (j >> 2) }
fn gscale4(s: u64, col: u64, blk: u64) -> i64 { [1i64, 2, 4, 8, 16, -4, 0][(hq(s, col, blk) % 7) as usize] }
fn gbyte(s: u64, col: u64, idx: u64) -> u8 { (hq(s, col, idx) & 255) as u8 }

/// 4-bit elements per SIMD vector of the ISA that `SimdOp::dispatch` selects.
fn epv() -> usize {
    #[cfg(target_arch = "x86_64")]
    {
        if is_x86_feature_detected!("avx512f") && is_x86_feature_detected!("avx512vl") && is_x86_feature_detected!("avx512bw") && is_x86_feature_detected!("avx512dq") {
            return 128;
        }
        if is_x86_feature_detected!("avx2") && is_x86_feature_detected!("fma") {
            return 64;
        }
    }
    32
}

fn exec_line(line: &str) -> String {
    let kv = parse_kv(line);
    let mode = get_u(&kv, "mode");
    let kern = kv.get("kern").cloned().unwrap_or("generic".into());
    let (rows, cols, nblocks, bs) = (get_u(&kv, "rows"), get_u(&kv, "cols"), get_u(&kv, "nb"), get_u(&kv, "bs"));
    let (sl, sq, ss, sc, sbias) = (get_u(&kv, "sl") as u64, get_u(&kv, "sq") as u64, get_u(&kv, "ss") as u64, get_u(&kv, "sc") as u64, get_u(&kv, "sbias") as u64);
    let alpha = kv.get("alpha").map(|v| v.parse::<i64>().unwrap()).unwrap_or(1);
    let beta = get_i(&kv, "beta");
    let bias = get_u(&kv, "bias");
    let la = get_u(&kv, "la");
    let zb = get_u(&kv, "zb");
    // BlockQuantizedGemm streams: number of batch members; member b, row i is row b * rows + i of the
    // stacked LHS, so the expected output is the product with the stacked (batch * rows) x K matrix
    let batch = if mode < 2 { get_u(&kv, "batch").max(1) } else { 1 };
    let k = nblocks * bs;
    // whole LHS quantisation blocks forced to zero: 0 none, 1 first, 2 middle, 3 last, 4 all
    let zero_block = move |r: usize| -> bool {
        let blk = if bs == 0 { 0 } else { r / bs };
        match zb { 0 => false, 1 => blk == 0, 2 => blk == nblocks / 2, 3 => blk + 1 == nblocks, _ => true }
    };
    let lhs_val = move |i: usize, j: usize| -> f32 { if zero_block(j) { 0.0 } else { gen_val(sl, i as u64, j as u64) as f32 } };

    let quant = NdTensor::<u8, 3>::from_fn([cols, nblocks, bs / 2], |[c, b, i]| gbyte(sq, c as u64, (b * (bs / 2) + i) as u64));
    let scales = NdTensor::<f32, 2>::from_fn([cols, nblocks], |[c, b]| gscale4(ss, c as u64, b as u64) as f32 / 4.0);
    let lhs = make_strided(la, rows, k, 777.0f32, |i, j| lhs_val(i, j));

    let mut bp = hk::BlockParams { mr: 1, nr: 1, mc: 1, nc: 1, kc: 1 };
    let out: Option<Vec<i64>> = no_panic(std::panic::AssertUnwindSafe(|| -> Option<Vec<i64>> {
        let mat = BlockQuantizedMatrix::new(Contiguous::new(quant.view()).unwrap(), Contiguous::new(scales.view()).unwrap(), 4).ok()?;
        if mode == 2 {
            let gemm: GemmExecutor = hk::f32_executor(&kern).expect("kernel not available");
            bp = hk::block_params(&gemm, rows, cols, k, Some(bs));
            let av = NdTensorView::from_data_with_strides([rows, k], &lhs.data[lhs.offset..], [lhs.rs, lhs.cs]).unwrap();
            let bias_col: Vec<f32> = (0..rows).map(|i| gen_val(sbias, i as u64, 0) as f32).collect();
            let bias_row: Vec<f32> = (0..cols).map(|j| gen_val(sbias, j as u64, 0) as f32).collect();
            let bv = match bias { 1 => Some(BiasVector::Column(&bias_col[..])), 2 => Some(BiasVector::Row(&bias_row[..])), _ => None };
            let mut out: Vec<f32> = (0..rows * cols).map(|o| if beta == 0 { f32::NAN } else { gen_val(sc, (o / cols.max(1)) as u64, (o % cols.max(1)) as u64) as f32 }).collect();
            gemm.gemm(&mut out, GemmInputA::Unpacked(av), GemmInputB::BlockQuantized(mat),
                GemmOptions { alpha: alpha as f32, beta: beta as f32, bias: bv, a_quant: None, b_quant: None }).ok()?;
            Some(out.iter().map(|x| f32_to_int(x * 4.0)).collect())
        } else {
            let lhs_c = NdTensor::<f32, 3>::from_fn([batch, rows, k], |[b, i, j]| lhs_val(b * rows + i, j));
            let g = BlockQuantizedGemm::new().with_compute(if mode == 1 { ComputeMode::Int8 } else { ComputeMode::Float });
            let mut out = vec![MaybeUninit::new(f32::NAN); batch * rows * cols];
            let res = g.batched_gemm_uninit(&mut out, lhs_c.view(), mat).ok()?;
            Some(res.iter().map(|x| if mode == 1 {
                if x.is_finite() { (x * 1024.0).round() as i64 } else { GARBAGE }
            } else { f32_to_int(x * 4.0) }).collect())
        }
    })).flatten();

    let outs = match &out {
        Some(v) => {
            let s: Vec<String> = v.iter().map(|x| if *x < 0 { format!("({})", x) } else { x.to_string() }).collect();
            format!("Some ([{}]%Z : list Z)", s.join(";"))
        }
        None => "None".into(),
    };
    let term = format!(
        "{{| q_mode := {}; q_epv := {}; q_P := {{| p_mr := {}; p_nr := {}; p_mc := {}; p_nc := {}; p_kc := {} |}}; q_rows := {}; q_cols := {}; q_nblocks := {}; q_bs := {}; q_alpha := {}; q_beta := {}; q_bias := {}; q_sl := {}; q_sq := {}; q_ss := {}; q_sc := {}; q_sbias := {}; q_zb := {}; q_out := {} |}}",
        mode, epv(), bp.mr, bp.nr, bp.mc, bp.nc, bp.kc, batch * rows, cols, nblocks, bs, coq_z(alpha), coq_z(beta), bias, sl, sq, ss, sc, sbias, zb, outs);
    let spv = (epv() / bs.max(1)).max(1);
    let tag = format!("{}{}-bs{}-{}{}", if rows * cols == 0 { "trivial-" } else { "" },
        match mode { 0 => "float".to_string(), 1 => "int8mode".to_string(), _ => format!("gemm-{}", kern) }, bs,
        if mode < 2 { format!("spv{}", spv) } else { format!("kblk{}", if bp.kc == 0 { 0 } else { k.div_ceil(bp.kc).min(3) }) },
        if mode < 2 && nblocks % spv != 0 { "-tail" } else { "" });
    let tag = if zb > 0 && nblocks > 0 { format!("{}-zeroblk", tag) } else { tag };
    let tag = if batch > 1 { format!("{}-batch{}", tag, if rows > 1 { "-multirow" } else { "" }) } else { tag };
    format!("{}\t{}\t{}", tag, line, term)
}

fn generate(seed: u64, n: usize, tier: &str, out: &mut impl Write) {
    let mut rng = SplitMix64(seed);
    let thorough = tier == "thorough";
    let bss = [16usize, 32, 64, 128, 256];
    let ab = [0i64, 1, -1, 2];
    // vector-matrix / BlockQuantizedGemm, Float and Int8 compute
    for mode in [0usize, 1] {
        for &bs in &bss {
            for nb in 0..=(if thorough { 19 } else { 9 }) {
                if bs * nb > 1024 { continue; }
                if mode == 1 && nb == 0 && bs != 16 { continue; }
                writeln!(out, "Q mode={} rows={} cols={} nb={} bs={} sl={} sq={} ss={} la=0", mode, if mode == 0 { 1 + rng.below(3) } else { 1 },
                    rng.pick(&[1usize, 2, 15, 16, 17, 33]), nb, bs, rng.below(1000), rng.below(1000), rng.below(1000)).unwrap();
            }
        }
        // several batch members x several rows per member (distinct rows: a permuted output is visible)
        for batch in [2usize, 3] {
            for m in [1usize, 2, 3, 5] {
                let bs = rng.pick(&bss);
                writeln!(out, "Q mode={} rows={} cols={} nb={} bs={} sl={} sq={} ss={} la=0 zb=0 batch={}", mode, m,
                    rng.pick(&[1usize, 3, 17]), rng.pick(&[1usize, 2, 3]), bs, rng.below(1000), rng.below(1000), rng.below(1000), batch).unwrap();
            }
        }
        // LHS rows with whole quantisation blocks equal to zero (first / middle / last / all)
        for &bs in &bss {
            for zb in 1..=4usize {
                let nb = if bs >= 128 { rng.pick(&[1usize, 2, 3]) } else { rng.pick(&[1usize, 3, 8, 9]) };
                writeln!(out, "Q mode={} rows=1 cols={} nb={} bs={} sl={} sq={} ss={} la=0 zb={}", mode,
                    rng.pick(&[1usize, 3, 17]), nb, bs, rng.below(1000), rng.below(1000), rng.below(1000), zb).unwrap();
            }
        }
        for _ in 0..n / 2 {
            let bs = rng.pick(&bss);
            let nb = rng.below((1024 / bs) as u64 + 1) as usize;
            writeln!(out, "Q mode={} rows={} cols={} nb={} bs={} sl={} sq={} ss={} la=0 zb={}", mode, if mode == 0 { rng.below(4) } else { 1 },
                rng.below(40), nb, bs, rng.below(1000), rng.below(1000), rng.below(1000), if rng.chance(1, 3) { 1 + rng.below(4) } else { 0 }).unwrap();
        }
    }
    // GEMM path for every f32 kernel
    for kern in hk::f32_kernel_names() {
        let g = hk::f32_executor(kern).unwrap();
        let bp = hk::block_params(&g, 300, 300, 300, None);
        // quantisation blocks as large as / larger than the default depth block (256): K = 1-2 blocks,
        // a few LHS rows (the multi-row route packs whole blocks per depth block), few columns
        for &bs in &[256usize, 512, 1024] {
            for nb in 1..=2usize {
                writeln!(out, "Q mode=2 kern={} rows={} cols={} nb={} bs={} alpha={} beta={} bias={} sl={} sq={} ss={} sc={} sbias={} la={} zb={}",
                    kern, rng.pick(&[2usize, 3, bp.mr + 1]), rng.pick(&[1usize, 2, 5]), nb, bs, rng.pick(&ab), rng.pick(&ab), rng.below(3),
                    rng.below(1000), rng.below(1000), rng.below(1000), rng.below(1000), rng.below(1000), rng.below(5), if nb == 2 { rng.below(4) } else { 0 }).unwrap();
            }
        }
        for _ in 0..n {
            let bs = rng.pick(&bss);
            let nb = if rng.chance(1, 4) { (rng.pick(&[256usize, 512, 768]) / bs).max(1) } else { rng.below(5) as usize };
            let big_k = nb * bs > 128;
            let rows = if big_k { rng.pick(&[0usize, 1, 2, bp.mr + 1]) } else { rng.pick(&[0usize, 1, 2, bp.mr - 1, bp.mr, bp.mr + 1, 2 * bp.mr + 1, 20]) };
            let cols = if big_k { rng.pick(&[1usize, bp.nr - 1, bp.nr + 1]) } else { rng.pick(&[0usize, 1, bp.nr - 1, bp.nr, bp.nr + 1, 2 * bp.nr + 3, 40]) };
            writeln!(out, "Q mode=2 kern={} rows={} cols={} nb={} bs={} alpha={} beta={} bias={} sl={} sq={} ss={} sc={} sbias={} la={}",
                kern, rows, cols.min(40), nb, bs, rng.pick(&ab), rng.pick(&ab), rng.below(3), rng.below(1000), rng.below(1000), rng.below(1000), rng.below(1000), rng.below(1000), rng.below(5)).unwrap();
        }
    }
}

fn main() {
    quiet_panics();
    let args: Vec<String> = std::env::args().collect();
    let stdout = std::io::stdout();
    let mut out = std::io::BufWriter::new(stdout.lock());
    match args.get(1).map(|s| s.as_str()) {
        Some("gen") => {
            let seed: u64 = args[2].parse().unwrap();
            let n: usize = args[3].parse().unwrap();
            generate(seed, n, &args[4], &mut out);
        }
        Some("exec") => {
            for line in std::io::stdin().lock().lines() {
                let line = line.unwrap();
                if line.trim().is_empty() { continue; }
                writeln!(out, "{}", exec_line(&line)).unwrap();
            }
        }
        _ => {
            eprintln!("usage: c37 gen <seed> <n> <tier> | c37 exec");
            std::process::exit(2);
        }
    }
}
