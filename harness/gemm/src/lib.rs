//! Shared helpers for the GEMM correspondence harness binaries (C16, C17, C37).
pub struct SplitMix64(pub u64);
impl SplitMix64 {
    pub fn next(&mut self) -> u64 {
        self.0 = self.0.wrapping_add(0x9E3779B97F4A7C15);
        let mut z = self.0;
        z = (z ^ (z >> 30)).wrapping_mul(0xBF58476D1CE4E5B9);
        z = (z ^ (z >> 27)).wrapping_mul(0x94D049BB133111EB);
        z ^ (z >> 31)
    }
    pub fn below(&mut self, n: u64) -> u64 {
        if n == 0 { 0 } else { self.next() % n }
    }
    pub fn pick<T: Copy>(&mut self, xs: &[T]) -> T {
        xs[self.below(xs.len() as u64) as usize]
    }
    pub fn chance(&mut self, num: u64, den: u64) -> bool {
        self.below(den) < num
    }
}

/// Run `f`, mapping a panic to None.
pub fn no_panic<T>(f: impl FnOnce() -> T + std::panic::UnwindSafe) -> Option<T> {
    std::panic::catch_unwind(f).ok()
}

pub fn quiet_panics() {
    std::panic::set_hook(Box::new(|_| {}));
}

pub fn coq_list_z(xs: &[i64]) -> String {
    let v: Vec<String> = xs.iter().map(|x| if *x < 0 { format!("({})", x) } else { x.to_string() }).collect();
    format!("[{}]", v.join(";"))
}
