//! Shared helpers for the GEMM correspondence harness binaries (C16, C17, C37).
pub struct SplitMix64(pub u64);
impl SplitMix64 {
    pub fn next(&mut self) -> u64 {
        self.0 = self.0.wrapping_add(0x9E3779B97F4A7C15);
        let mut z = self.0;
        z = (z ^ (z >> 30)).wrapping_mul(0xBF58476D1CE4E5B9);
        z = (z ^ (z >> 27)).wrapping_mul(0x94D049BB133111EB);
        z ^ (z >> 31)
    }
    pub fn below(&mut self, n: u64) -> u64 {
        if n == 0 { 0 } else { self.next() % n }
    }
    pub fn pick<T: Copy>(&mut self, xs: &[T]) -> T {
        xs[self.below(xs.len() as u64) as usize]
    }
    pub fn chance(&mut self, num: u64, den: u64) -> bool {
        self.below(den) < num
    }
}

/// Run `f`, mapping a panic to None.
pub fn no_panic<T>(f: impl FnOnce() -> T + std::panic::UnwindSafe) -> Option<T> {
    std::panic::catch_unwind(f).ok()
}

pub fn quiet_panics() {
    std::panic::set_hook(Box::new(|_| {}));
}

pub fn coq_list_z(xs: &[i64]) -> String {
    let v: Vec<String> = xs.iter().map(|x| if *x < 0 { format!("({})", x) } else { x.to_string() }).collect();
    format!("[{}]", v.join(";"))
}

/// Integer-valued test data in [-8, 7]; the same formula is `gen` in coq/gemm/ModelC16.v.
pub fn gen_val(s: u64, i: u64, j: u64) -> i64 {
    ((s + i * 5 + j * 3 + i * j * 7 + (i >> 4) * 3 + (j >> 4) * 5) & 15) as i64 - 8
}

/// Sentinel printed for an output value that is not an exactly representable integer (NaN,
/// infinity, fraction, out of range): never equal to a specified value.
pub const GARBAGE: i64 = 99_999_999_999;

pub fn f32_to_int(x: f32) -> i64 {
    if x.is_finite() && x.fract() == 0.0 && x.abs() <= 16_777_216.0 { x as i64 } else { GARBAGE }
}

/// Parse `key=value` tokens.
pub fn parse_kv(line: &str) -> std::collections::HashMap<String, String> {
    let mut m = std::collections::HashMap::new();
    for tok in line.split_whitespace() {
        if let Some((k, v)) = tok.split_once('=') {
            m.insert(k.to_string(), v.to_string());
        } else {
            m.insert("kind".to_string(), tok.to_string());
        }
    }
    m
}

pub fn get_u(m: &std::collections::HashMap<String, String>, k: &str) -> usize {
    m.get(k).map(|v| v.parse::<usize>().unwrap()).unwrap_or(0)
}
pub fn get_i(m: &std::collections::HashMap<String, String>, k: &str) -> i64 {
    m.get(k).map(|v| v.parse::<i64>().unwrap()).unwrap_or(0)
}

pub fn coq_z(x: i64) -> String {
    if x < 0 { format!("({})%Z", x) } else { format!("{}%Z", x) }
}

/// Strided storage for a `rows x cols` matrix. Layout codes:
/// 0 row-major contiguous; 1 column-major (row stride 1); 2 both strides non-unit;
/// 3 row-major with padded rows; 4 column-major with padded columns.
/// Cells that do not belong to the matrix hold `fill`.
pub struct Strided<T> {
    pub data: Vec<T>,
    pub offset: usize,
    pub rs: usize,
    pub cs: usize,
}

pub fn strides_for(layout: usize, rows: usize, cols: usize) -> (usize, usize) {
    match layout {
        0 => (cols.max(1), 1),
        1 => (1, rows.max(1)),
        2 => (2 * cols + 3, 2),
        3 => (cols + 5, 1),
        _ => (1, rows + 2),
    }
}

pub fn make_strided<T: Copy>(layout: usize, rows: usize, cols: usize, fill: T, f: impl Fn(usize, usize) -> T) -> Strided<T> {
    let (rs, cs) = strides_for(layout, rows, cols);
    let offset = if layout == 0 { 0 } else { 3 };
    let len = if rows == 0 || cols == 0 { 0 } else { (rows - 1) * rs + (cols - 1) * cs + 1 };
    let mut data = vec![fill; offset + len + if layout == 0 { 0 } else { 2 }];
    for i in 0..rows {
        for j in 0..cols {
            data[offset + i * rs + j * cs] = f(i, j);
        }
    }
    Strided { data, offset, rs, cs }
}
