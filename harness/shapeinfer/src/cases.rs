//! Case generators shared by the C10 and C12 harness binaries.
use rten_shape_inference::SymExpr;
use crate::*;

pub const UNARY_OPS: &[&str] = &[
    "Abs", "Acos", "Acosh", "Asin", "Asinh", "Atan", "Atanh", "Ceil", "Clip", "Cos", "Cosh", "Elu", "Erf", "Exp",
    "Floor", "Gelu", "HardSigmoid", "HardSwish", "IsInf", "IsNaN", "LeakyRelu", "Log", "Not", "Reciprocal", "Relu",
    "Round", "Sigmoid", "Sign", "Sin", "Sinh", "Softplus", "Sqrt", "Swish", "Tan", "Tanh", "Softmax", "LogSoftmax",
];
pub const BINARY_OPS: &[&str] = &["And", "Or", "Xor", "Greater", "GreaterOrEqual", "Less", "LessOrEqual", "Pow", "Mod"];
pub const REDUCE_OPS: &[&str] = &[
    "ReduceL1", "ReduceL2", "ReduceLogSum", "ReduceLogSumExp", "ReduceMax", "ReduceMean", "ReduceMin", "ReduceProd",
    "ReduceSum", "ReduceSumSquare",
];

// ------------------------------------------------------------------ gen
pub struct G { pub r: SplitMix64 }

fn v(n: i32) -> SymExpr { SymExpr::Value(n) }

impl G {
    fn sym(&mut self, pos: bool) -> SymExpr { let id = self.r.below(4) as usize; mk_var(id, pos) }
    /// a dimension size: mostly fixed small values and positive symbols
    pub fn dim(&mut self) -> SymExpr {
        match self.r.below(12) {
            0 => v(0),
            1 | 2 => v(1),
            3 => v(2),
            4 => v(3),
            5 => v(self.r.below(6) as i32),
            6..=9 => self.sym(true),
            10 => bin("+", self.sym(true), v(1 + self.r.below(2) as i32)),
            _ => bin("*", v(2), self.sym(true)),
        }
    }
    pub fn shape(&mut self, rank: usize) -> Vec<SymExpr> { (0..rank).map(|_| self.dim()).collect() }
    pub fn rank(&mut self) -> usize { self.r.pick(&[0usize, 1, 1, 2, 2, 2, 3, 3, 4]) }
    /// an element of a shape-carrying value
    fn elem(&mut self, depth: u32) -> SymExpr {
        match self.r.below(if depth == 0 { 8 } else { 13 }) {
            0 => v(0),
            1 => v(1),
            2 => v(self.r.below(9) as i32 - 3),
            3 => v(self.r.pick(&[-1, 2, 3, 4, 7, 2147483647, -2147483648i32 + 1])),
            4 | 5 => self.sym(true),
            6 => self.sym(false),
            7 => self.sym(true),
            8 => bin("+", self.elem(depth - 1), self.elem(depth - 1)),
            9 => bin("-", self.elem(depth - 1), self.elem(depth - 1)),
            10 => bin("*", self.elem(depth - 1), self.elem(depth - 1)),
            11 => SymExpr::Neg(self.elem(depth - 1).into()),
            _ => bin(self.r.pick(&["/", "max", "min", "dc"]), self.elem(depth - 1), self.elem(depth - 1)),
        }
    }
    fn small_elem(&mut self) -> SymExpr {
        match self.r.below(6) { 0 => v(0), 1 => v(1), 2 => v(self.r.below(7) as i32 - 2), 3 => self.sym(false), _ => self.sym(true) }
    }
    fn vec(&mut self, len: usize, depth: u32) -> Vec<SymExpr> { (0..len).map(|_| self.elem(depth)).collect() }
    fn ivals(&mut self, l: &[i32]) -> Vec<SymExpr> { l.iter().map(|x| v(*x)).collect() }
    pub fn inp(dt: char, sym: Sym) -> Input { Input { dt, sym, data: None } }
    pub fn inpd(dt: char, sym: Sym, data: Vec<i64>) -> Input { Input { dt, sym, data: Some(data) } }

    fn envs(&mut self) -> Vec<Vec<(usize, i32)>> {
        let all = |x: i32| (0..4).map(|k| (k, x)).collect::<Vec<_>>();
        let mut out = vec![all(0), all(1), all(2)];
        for _ in 0..2 {
            out.push((0..4).map(|k| (k, self.r.pick(&[0, 1, 1, 2, 3, 4, 5]))).collect());
        }
        // negative values for unconstrained symbols (positive symbols stay >= 0 only if they
        // are never declared positive in this case; the Coq side filters with pos_ok)
        out.push((0..4).map(|k| (k, self.r.pick(&[-3, -2, -1, 0, 1, 2]))).collect());
        out.push((0..4).map(|k| (k, self.r.pick(&[-1, 0, 1]))).collect());
        out
    }
    pub fn case(&mut self, op: &str, attrs: Vec<(&str, Attr)>, nout: usize, inputs: Vec<Input>) -> String {
        let (op, domain) = match op.split_once('@') { Some((o, d)) => (o, d), None => (op, "") };
        Case { op: op.to_string(), domain: domain.to_string(),
               attrs: attrs.into_iter().map(|(n, a)| (n.to_string(), a)).collect(),
               nout, inputs, envs: self.envs() }.to_line()
    }

    /// a symbolic value tensor: scalar or vector
    fn value_tensor(&mut self, depth: u32) -> Sym {
        if self.r.chance(1, 3) { Sym::Scalar(self.elem(depth)) } else { let n = self.r.below(4) as usize; Sym::Vector(self.vec(n, depth)) }
    }
    fn any_tensor(&mut self) -> Sym {
        match self.r.below(10) {
            0 => Sym::Unknown({ let rk = self.r.below(3) as usize; (0..rk).map(|_| 1 + self.r.below(3) as usize).collect() }),
            1..=3 => self.value_tensor(1),
            _ => { let rk = self.rank(); Sym::Shape(self.shape(rk)) }
        }
    }

    // ---------------- pooling / convolution output-size arithmetic: small-scope enumeration
    /// Cases with two symbolic spatial dims (H = a, W = b) instantiated to all sizes 1..9
    /// (a = n, b = 10 - n), each spatial dim with its own (kernel, stride, pad_start, pad_end,
    /// dilation / output_padding) tuple.  `thorough`: the whole scope; otherwise every tuple in which
    /// the ceil_mode cap or the start padding matters, plus a seeded sample of the rest.
    pub fn pool_conv_cases(&mut self, thorough: bool) -> Vec<String> {
        let envs: Vec<Vec<(usize, i32)>> = (1..=9).map(|n| vec![(0, n), (1, 10 - n), (2, 1), (3, 2)]).collect();
        let (a, b) = (mk_var(0, true), mk_var(1, true));
        let mut out = vec![];
        let mut mk = |op: &str, attrs: Vec<(&str, Attr)>, nout: usize, inputs: Vec<Input>| {
            out.push(Case { op: op.to_string(), domain: String::new(),
                            attrs: attrs.into_iter().map(|(n, a)| (n.to_string(), a)).collect(),
                            nout, inputs, envs: envs.clone() }.to_line());
        };
        let x = |ch: i32| Self::inp('f', Sym::Shape(vec![v(1), v(ch), a.clone(), b.clone()]));
        // ---- pooling: (kernel, stride, pad_start, pad_end)
        let mut all: Vec<(i64, i64, i64, i64)> = vec![];
        for k in 1..=4 { for s in 1..=3 { for ps in 0..=2 { for pe in 0..=2 { all.push((k, s, ps, pe)); } } } }
        let binding: Vec<(i64, i64, i64, i64)> = all.iter().cloned().filter(|t| t.1 >= 2 && t.2 >= 1).collect();
        for (vi, (op, cip)) in [("MaxPool", 0i64), ("AveragePool", 0), ("AveragePool", 1)].iter().enumerate() {
            for ceil in [1i64, 0] {
                let tuples: Vec<(i64, i64, i64, i64)> = if thorough { all.clone() }
                    else if ceil == 1 && vi < 2 { binding.clone() }
                    else { (0..8).map(|_| self.r.pick(&all)).collect() };
                // pair tuple i (H) with a tuple at a seed-dependent offset (W)
                let off = 1 + self.r.below(tuples.len() as u64 - 1) as usize;
                for i in (0..tuples.len()).step_by(if thorough { 1 } else { 2 }) {
                    let (h, w) = (tuples[i], tuples[(i + off) % tuples.len()]);
                    let mut attrs = vec![("kernel_shape", Attr::Ints(vec![h.0, w.0])), ("strides", Attr::Ints(vec![h.1, w.1])),
                                         ("pads", Attr::Ints(vec![h.2, w.2, h.3, w.3])), ("ceil_mode", Attr::Int(ceil))];
                    if *op == "AveragePool" { attrs.push(("count_include_pad", Attr::Int(*cip))); }
                    mk(op, attrs, 1, vec![x(2)]);
                }
            }
        }
        for op in ["MaxPool", "AveragePool"] { for ap in ["SAME_UPPER", "SAME_LOWER", "VALID"] { for ceil in [0i64, 1] {
            let n = if thorough { 6 } else { 1 };
            for _ in 0..n {
                let (kh, kw, sh, sw) = (1 + self.r.below(4) as i64, 1 + self.r.below(4) as i64, 1 + self.r.below(3) as i64, 1 + self.r.below(3) as i64);
                mk(op, vec![("kernel_shape", Attr::Ints(vec![kh, kw])), ("strides", Attr::Ints(vec![sh, sw])),
                            ("auto_pad", Attr::Str(ap.into())), ("ceil_mode", Attr::Int(ceil))], 1, vec![x(2)]);
            }
        } } }
        // ---- Conv: (kernel, stride, dilation, pad_start, pad_end)
        let mut call: Vec<(i64, i64, i64, i64, i64)> = vec![];
        for k in 1..=3 { for s in 1..=3 { for d in 1..=2 { for ps in 0..=2 { for pe in 0..=2 { call.push((k, s, d, ps, pe)); } } } } }
        let ctuples: Vec<(i64, i64, i64, i64, i64)> = if thorough { call.clone() } else { (0..24).map(|_| self.r.pick(&call)).collect() };
        let off = 1 + self.r.below(ctuples.len() as u64 - 1) as usize;
        for i in (0..ctuples.len()).step_by(if thorough { 1 } else { 2 }) {
            let (h, w) = (ctuples[i], ctuples[(i + off) % ctuples.len()]);
            let wt = Self::inp('f', Sym::Shape(vec![v(3), v(2), v(h.0 as i32), v(w.0 as i32)]));
            mk("Conv", vec![("kernel_shape", Attr::Ints(vec![h.0, w.0])), ("strides", Attr::Ints(vec![h.1, w.1])),
                            ("dilations", Attr::Ints(vec![h.2, w.2])), ("pads", Attr::Ints(vec![h.3, w.3, h.4, w.4]))], 1, vec![x(2), wt]);
        }
        for ap in ["SAME_UPPER", "SAME_LOWER", "VALID"] {
            for _ in 0..(if thorough { 8 } else { 2 }) {
                let (kh, kw, sh, sw, dh) = (1 + self.r.below(3) as i64, 1 + self.r.below(3) as i64, 1 + self.r.below(3) as i64, 1 + self.r.below(3) as i64, 1 + self.r.below(2) as i64);
                let wt = Self::inp('f', Sym::Shape(vec![v(3), v(2), v(kh as i32), v(kw as i32)]));
                mk("Conv", vec![("kernel_shape", Attr::Ints(vec![kh, kw])), ("strides", Attr::Ints(vec![sh, sw])),
                                ("dilations", Attr::Ints(vec![dh, 1])), ("auto_pad", Attr::Str(ap.into()))], 1, vec![x(2), wt]);
            }
        }
        // ---- ConvTranspose: (kernel, stride, pad_start, pad_end, output_padding)
        let mut tall: Vec<(i64, i64, i64, i64, i64)> = vec![];
        for k in 1..=3 { for s in 1..=3 { for ps in 0..=1 { for pe in 0..=1 { for op in 0..s { tall.push((k, s, ps, pe, op)); } } } } }
        let ttuples: Vec<(i64, i64, i64, i64, i64)> = if thorough { tall.clone() } else { (0..16).map(|_| self.r.pick(&tall)).collect() };
        let off = 1 + self.r.below(ttuples.len() as u64 - 1) as usize;
        for i in (0..ttuples.len()).step_by(if thorough { 1 } else { 2 }) {
            let (h, w) = (ttuples[i], ttuples[(i + off) % ttuples.len()]);
            let wt = Self::inp('f', Sym::Shape(vec![v(2), v(3), v(h.0 as i32), v(w.0 as i32)]));
            let mut attrs = vec![("kernel_shape", Attr::Ints(vec![h.0, w.0])), ("strides", Attr::Ints(vec![h.1, w.1])),
                                 ("pads", Attr::Ints(vec![h.2, w.2, h.3, w.3]))];
            if h.4 + w.4 > 0 { attrs.push(("output_padding", Attr::Ints(vec![h.4, w.4]))); }
            mk("ConvTranspose", attrs, 1, vec![x(2), wt]);
        }
        out
    }

    // ---------------- value-carrying layout operators: rank-0 <-> rank-1 transitions
    /// Inputs that carry symbolic VALUES (scalars, length-1 vectors, longer vectors, the empty
    /// vector) against target shapes / axes that change the rank between 0 and 1.  Reshape is always
    /// enumerated completely; the other operators completely in the thorough tier and as a seeded
    /// third in the quick tier.
    pub fn value_layout_cases(&mut self, thorough: bool) -> Vec<String> {
        let envs: Vec<Vec<(usize, i32)>> = vec![vec![(0, 2), (1, 3), (2, 0), (3, 1)], vec![(0, 1), (1, 1), (2, 1), (3, 1)],
                                                vec![(0, 0), (1, 5), (2, 2), (3, -1)]];
        let (a, b) = (mk_var(0, true), mk_var(1, true));
        let kinds: Vec<Sym> = vec![
            Sym::Scalar(a.clone()), Sym::Scalar(v(3)), Sym::Vector(vec![a.clone()]), Sym::Vector(vec![v(5)]),
            Sym::Vector(vec![a.clone(), v(3)]), Sym::Vector(vec![v(2), b.clone(), v(4)]), Sym::Vector(vec![]),
        ];
        let len = |k: &Sym| -> i32 { match k { Sym::Vector(l) => l.len() as i32, _ => 1 } };
        let iv = |l: &[i32]| Self::inp('i', Sym::Vector(l.iter().map(|x| v(*x)).collect()));
        let mut all: Vec<(bool, String)> = vec![];     // (always included, line)
        let mut mk = |always: bool, op: &str, attrs: Vec<(&str, Attr)>, inputs: Vec<Input>| {
            all.push((always, Case { op: op.to_string(), domain: String::new(),
                                     attrs: attrs.into_iter().map(|(n, a)| (n.to_string(), a)).collect(),
                                     nout: 1, inputs, envs: envs.clone() }.to_line()));
        };
        for k in &kinds {
            let d = || Self::inp('i', k.clone());
            let n = len(k);
            for shp in [vec![], vec![1], vec![-1], vec![1, 1], vec![n], vec![0]] { mk(true, "Reshape", vec![], vec![d(), iv(&shp)]); }
            mk(true, "Reshape", vec![], vec![d(), Self::inp('i', Sym::Vector(vec![b.clone()]))]);
            mk(true, "Reshape", vec![("allowzero", Attr::Int(1))], vec![d(), iv(&[n])]);
            for axes in [None, Some(vec![0]), Some(vec![-1]), Some(vec![])] {
                match axes { None => mk(false, "Squeeze", vec![], vec![d()]), Some(ax) => mk(false, "Squeeze", vec![], vec![d(), iv(&ax)]) }
            }
            for axes in [vec![0], vec![-1], vec![0, 1], vec![1]] { mk(false, "Unsqueeze", vec![], vec![d(), iv(&axes)]); }
            mk(false, "Unsqueeze", vec![], vec![d(), Self::inp('i', Sym::Scalar(v(0)))]);
            for ax in [0i64, 1, -1] { mk(false, "Flatten", vec![("axis", Attr::Int(ax))], vec![d()]); }
            for shp in [vec![], vec![1], vec![1, 1], vec![n], vec![2]] { mk(false, "Expand", vec![], vec![d(), iv(&shp)]); }
            mk(false, "Identity", vec![], vec![d()]);
            for to in [1i64, 6, 7] { mk(false, "Cast", vec![("to", Attr::Int(to))], vec![d()]); }
            mk(false, "Neg", vec![], vec![d()]);
            if matches!(k, Sym::Vector(_)) {
                for idx in [Sym::Scalar(v(0)), Sym::Scalar(v(-1)), Sym::Vector(vec![v(0)]), Sym::Vector(vec![]), Sym::Vector(vec![v(0), v(0)])] {
                    mk(false, "Gather", vec![("axis", Attr::Int(0))], vec![d(), Self::inp('i', idx)]);
                }
                for (st, en) in [(0, 1), (0, 0), (1, 2147483647), (-1, 2147483647), (0, 2147483647)] {
                    mk(false, "Slice", vec![], vec![d(), iv(&[st]), iv(&[en]), iv(&[0])]);
                }
            }
            for k2 in &kinds { mk(false, "Concat", vec![("axis", Attr::Int(0))], vec![d(), Self::inp('i', k2.clone())]); }
            mk(false, "Shape", vec![], vec![d()]);
            mk(false, "Size", vec![], vec![d()]);
        }
        let pick = self.r.below(3);
        all.into_iter().enumerate().filter(|(i, (always, _))| thorough || *always || (*i as u64) % 3 == pick).map(|(_, (_, l))| l).collect()
    }

    // ---------------- modelled operators: targeted generators
    pub fn gen_modelled(&mut self) -> String {
        match self.r.below(24) {
            0 => { // generic binary op on shapes
                let op = self.r.pick(BINARY_OPS);
                let dt = if ["And", "Or", "Xor", "Mod"].contains(&op) { 'i' } else { 'f' };
                let (a, b) = self.bcast_pair();
                let attrs = if op == "Mod" { vec![] } else { vec![] };
                self.case(op, attrs, 1, vec![Self::inp(dt, a), Self::inp(dt, b)])
            }
            1 | 2 | 3 => { // arithmetic on values / shapes
                let op = self.r.pick(&["Add", "Sub", "Mul", "Div", "Equal", "Equal"]);
                if self.r.chance(2, 3) {
                    let (a, b) = self.value_pair();
                    self.case(op, vec![], 1, vec![Self::inp('i', a), Self::inp('i', b)])
                } else {
                    let (a, b) = self.bcast_pair();
                    let dt = self.r.pick(&['f', 'i']);
                    self.case(op, vec![], 1, vec![Self::inp(dt, a), Self::inp(dt, b)])
                }
            }
            4 => { // Equal with range-sensitive operands
                let a = self.range_elem();
                let b = self.range_elem();
                let (a, b) = if self.r.chance(1, 2) { (Sym::Scalar(a), Sym::Scalar(b)) } else { (Sym::Vector(vec![a, self.range_elem()]), Sym::Vector(vec![b, self.range_elem()])) };
                self.case("Equal", vec![], 1, vec![Self::inp('i', a), Self::inp('i', b)])
            }
            5 => { // Where
                if self.r.chance(2, 3) {
                    let n = self.r.pick(&[1usize, 1, 2, 3]);
                    let c: Vec<SymExpr> = (0..self.r.pick(&[1usize, n])).map(|_| match self.r.below(5) { 0 | 1 => v(0), 2 | 3 => v(1), _ => self.sym(true) }).collect();
                    let cond = if c.len() == 1 && self.r.chance(1, 2) { Sym::Scalar(c[0].clone()) } else { Sym::Vector(c) };
                    let x = if self.r.chance(1, 3) { Sym::Scalar(self.elem(1)) } else { let k = self.r.pick(&[1usize, n]); Sym::Vector(self.vec(k, 1)) };
                    let y = if self.r.chance(1, 3) { Sym::Scalar(self.elem(1)) } else { let k = self.r.pick(&[1usize, n]); Sym::Vector(self.vec(k, 1)) };
                    self.case("Where", vec![], 1, vec![Self::inp('i', cond), Self::inp('i', x), Self::inp('i', y)])
                } else {
                    let (a, b) = self.bcast_pair();
                    let (_, c) = self.bcast_pair();
                    self.case("Where", vec![], 1, vec![Self::inpd('i', a, vec![1, 0]), Self::inp('f', b), Self::inp('f', c)])
                }
            }
            6 => { // Shape
                let mut attrs = vec![];
                if self.r.chance(1, 2) { attrs.push(("start", Attr::Int(self.r.below(9) as i64 - 4))); }
                if self.r.chance(1, 2) { attrs.push(("end", Attr::Int(self.r.below(9) as i64 - 4))); }
                let t = self.any_tensor();
                self.case("Shape", attrs, 1, vec![Self::inp('i', t)])
            }
            7 => { let t = self.any_tensor(); self.case("Size", vec![], 1, vec![Self::inp('i', t)]) }
            8 | 9 => { // Gather
                if self.r.chance(1, 2) {
                    let n = 1 + self.r.below(4) as usize;
                    let data = Sym::Vector(self.vec(n, 1));
                    let idx = |g: &mut G| g.r.below(2 * n as u64 + 3) as i32 - n as i32 - 1;
                    let ind = match self.r.below(4) {
                        0 => Sym::Scalar(v(idx(self))),
                        1 => { let k = self.r.below(3) as usize; Sym::Vector((0..k).map(|_| v(idx(self))).collect()) }
                        2 => Sym::Scalar(self.sym(true)),
                        _ => Sym::Shape(vec![v(2)]),
                    };
                    let axis = self.r.pick(&[0i64, 0, -1, 1]);
                    self.case("Gather", vec![("axis", Attr::Int(axis))], 1, vec![Self::inp('i', data), Self::inpd('i', ind, vec![0])])
                } else {
                    let rk = 1 + self.r.below(3) as usize;
                    let data = Sym::Shape(self.shape(rk));
                    let ind = match self.r.below(4) { 0 => Sym::Scalar(v(0)), 1 => Sym::Vector(self.ivals(&[0, 0])), 2 => Sym::Unknown(vec![2]), _ => { let k = self.r.below(3) as usize; Sym::Shape(self.shape(k)) } };
                    let axis = self.r.below(2 * rk as u64 + 2) as i64 - rk as i64 - 1;
                    self.case("Gather", vec![("axis", Attr::Int(axis))], 1, vec![Self::inp('f', data), Self::inpd('i', ind, vec![0])])
                }
            }
            10 | 11 => { // Concat
                let n = 1 + self.r.below(3) as usize;
                if self.r.chance(1, 2) {
                    let ins: Vec<Input> = (0..n).map(|_| { let k = self.r.below(3) as usize; let t = if self.r.chance(1, 8) { Sym::Scalar(self.elem(1)) } else { Sym::Vector(self.vec(k, 1)) }; Self::inp('i', t) }).collect();
                    let axis = self.r.pick(&[0i64, 0, 0, -1, 1]);
                    self.case("Concat", vec![("axis", Attr::Int(axis))], 1, ins)
                } else {
                    let rk = 1 + self.r.below(3) as usize;
                    let base = self.shape(rk);
                    let axis = self.r.below(2 * rk as u64 + 2) as i64 - rk as i64 - 1;
                    let ins: Vec<Input> = (0..n).map(|_| {
                        let mut s = base.clone();
                        let ax = ((axis + rk as i64) % rk as i64).max(0) as usize;
                        if ax < rk { s[ax] = self.dim(); }
                        let t = if self.r.chance(1, 10) { Sym::Unknown(vec![2; rk]) } else { Sym::Shape(s) };
                        Self::inp('f', t)
                    }).collect();
                    self.case("Concat", vec![("axis", Attr::Int(axis))], 1, ins)
                }
            }
            12 | 13 => { // Squeeze
                let data = match self.r.below(5) {
                    0 => Sym::Vector(self.vec(1, 1)),
                    1 => Sym::Vector(self.vec(2, 1)),
                    _ => { let rk = self.rank(); let mut s = self.shape(rk); for d in s.iter_mut() { if self.r.chance(1, 2) { *d = v(1); } } Sym::Shape(s) }
                };
                let rk = match &data { Sym::Shape(s) => s.len() as i64, _ => 1 };
                let axes = match self.r.below(6) {
                    0 => Sym::Missing,
                    1 | 2 => { let k = self.r.below(3) as usize; Sym::Vector((0..k).map(|_| v((self.r.below(2 * rk as u64 + 3) as i64 - rk - 1) as i32)).collect()) }
                    3 => Sym::Vector(vec![self.sym(true)]),
                    4 => Sym::Shape(vec![v(self.r.below(2) as i32)]),
                    _ => Sym::Scalar(v(0)),
                };
                let dt = if matches!(data, Sym::Vector(_)) { 'i' } else { 'f' };
                self.case("Squeeze", vec![], 1, vec![Self::inp(dt, data), Self::inpd('i', axes, vec![0])])
            }
            14 | 15 => { // Unsqueeze
                let data = match self.r.below(5) { 0 => Sym::Scalar(self.elem(1)), 1 => { let k = self.r.below(3) as usize; Sym::Vector(self.vec(k, 1)) } _ => { let rk = self.r.below(4) as usize; Sym::Shape(self.shape(rk)) } };
                let rk = match &data { Sym::Shape(s) => s.len() as i64, Sym::Vector(_) => 1, _ => 0 };
                let k = 1 + self.r.below(2) as i64;
                let axes = match self.r.below(6) {
                    0 => Sym::Scalar(v(0)),
                    1 => Sym::Vector(vec![self.sym(true)]),
                    2 => Sym::Shape(vec![v(1)]),
                    _ => Sym::Vector((0..k).map(|_| v((self.r.below(2 * (rk + k) as u64 + 2) as i64 - (rk + k) - 1) as i32)).collect()),
                };
                let dt = if matches!(data, Sym::Shape(_)) { 'f' } else { 'i' };
                self.case("Unsqueeze", vec![], 1, vec![Self::inp(dt, data), Self::inpd('i', axes, vec![0])])
            }
            16 => { // Transpose
                let rk = self.r.below(5) as usize;
                let t = if self.r.chance(1, 8) { Sym::Unknown(vec![2; rk]) } else { Sym::Shape(self.shape(rk)) };
                let mut attrs = vec![];
                if self.r.chance(2, 3) {
                    let mut p: Vec<i64> = (0..rk as i64).collect();
                    for i in (1..p.len()).rev() { let j = self.r.below(i as u64 + 1) as usize; p.swap(i, j); }
                    if self.r.chance(1, 8) && !p.is_empty() { p[0] = rk as i64; }
                    attrs.push(("perm", Attr::Ints(p)));
                }
                self.case("Transpose", attrs, 1, vec![Self::inp('f', t)])
            }
            17 | 18 => { // reductions
                let op = if self.r.chance(1, 4) { self.r.pick(&["ArgMax", "ArgMin"]) } else { self.r.pick(REDUCE_OPS) };
                let rk = self.r.below(4) as usize;
                let mut s = self.shape(rk);
                for d in s.iter_mut() { if *d == v(0) { *d = v(2); } }
                let data = if self.r.chance(1, 10) { Sym::Unknown(vec![2; rk]) } else { Sym::Shape(s) };
                let keep = self.r.below(2) as i64;
                let ax = |g: &mut G| g.r.below(2 * rk as u64 + 2) as i64 - rk as i64 - 1;
                if op.starts_with("Arg") {
                    let a = ax(self);
                    self.case(op, vec![("axis", Attr::Int(a)), ("keepdims", Attr::Int(keep))], 1, vec![Self::inp('f', data)])
                } else {
                    let mut attrs = vec![("keepdims", Attr::Int(keep))];
                    if self.r.chance(1, 4) { attrs.push(("noop_with_empty_axes", Attr::Int(1))); }
                    let mut ins = vec![Self::inp('f', data)];
                    match self.r.below(5) {
                        0 => {}
                        1 => ins.push(Self::inpd('i', Sym::Vector(vec![]), vec![])),
                        2 => ins.push(Self::inpd('i', Sym::Shape(vec![v(1)]), vec![0])),
                        _ => { let k = 1 + self.r.below(2) as usize; let l: Vec<SymExpr> = (0..k).map(|_| v(ax(self) as i32)).collect(); ins.push(Self::inp('i', Sym::Vector(l))) }
                    }
                    self.case(op, attrs, 1, ins)
                }
            }
            19 => { // MatMul / Gemm
                if self.r.chance(1, 2) {
                    let k = self.dim();
                    let ra = self.r.below(3) as usize; let rb = self.r.below(3) as usize;
                    let mut a = self.shape(ra); a.push(self.dim()); a.push(k.clone());
                    let mut b = self.shape(rb); b.push(if self.r.chance(5, 6) { k } else { self.dim() }); b.push(self.dim());
                    if ra > 0 && rb > 0 && self.r.chance(1, 2) { let n = ra.min(rb); for i in 0..n { b[rb - 1 - i] = a[ra - 1 - i].clone(); } }
                    let (a, b) = if self.r.chance(1, 10) { (vec![self.dim()], b) } else { (a, b) };
                    self.case("MatMul", vec![], 1, vec![Self::inp('f', Sym::Shape(a)), Self::inp('f', Sym::Shape(b))])
                } else {
                    let (ta, tb) = (self.r.below(2) as i64, self.r.below(2) as i64);
                    let (m, k, n) = (self.dim(), self.dim(), self.dim());
                    let a = if ta == 1 { vec![k.clone(), m] } else { vec![m, k.clone()] };
                    let b = if tb == 1 { vec![n, k] } else { vec![k, n] };
                    let a = if self.r.chance(1, 10) { Sym::Unknown(vec![2, 2]) } else { Sym::Shape(a) };
                    self.case("Gemm", vec![("transA", Attr::Int(ta)), ("transB", Attr::Int(tb))], 1, vec![Self::inp('f', a), Self::inp('f', Sym::Shape(b))])
                }
            }
            20 => { // ConstantOfShape
                let shape = match self.r.below(6) {
                    0 => Sym::Vector(vec![]),
                    1 => Sym::Vector(vec![v(self.r.below(5) as i32 - 1)]),
                    2 => Sym::Vector(vec![self.small_elem()]),
                    3 => { let k = 2 + self.r.below(2) as usize; Sym::Vector((0..k).map(|_| self.small_elem()).collect()) }
                    4 => Sym::Shape(vec![v(self.r.below(4) as i32)]),
                    _ => Sym::Unknown(vec![2]),
                };
                let mut attrs = vec![];
                match self.r.below(3) { 0 => {}, 1 => attrs.push(("value", Attr::Tensor('i', vec![1], vec![self.r.below(7) as i64 - 3]))), _ => attrs.push(("value", Attr::Tensor('f', vec![1], vec![2]))) }
                self.case("ConstantOfShape", attrs, 1, vec![Self::inpd('i', shape, vec![2])])
            }
            21 => { // Range
                let pat = self.r.below(6);
                let (s, l, d) = match pat {
                    0 => (v(self.r.below(7) as i32 - 3), v(self.r.below(12) as i32 - 4), v(self.r.pick(&[1, 1, 2, -1, -2, 3, 0]))),
                    1 => (v(0), self.small_elem(), v(1)),
                    2 => { let s = self.small_elem(); (s.clone(), bin("+", s, self.small_elem()), v(1)) }
                    3 => (self.small_elem(), self.small_elem(), v(1)),
                    4 => (v(0), v(2000 + self.r.below(100) as i32), v(1)),
                    _ => (self.small_elem(), self.small_elem(), self.small_elem()),
                };
                let wrap = |g: &mut G, e: SymExpr| if g.r.chance(1, 6) { Sym::Vector(vec![e]) } else { Sym::Scalar(e) };
                let (s, l, d) = (wrap(self, s), wrap(self, l), wrap(self, d));
                self.case("Range", vec![], 1, vec![Self::inp('i', s), Self::inp('i', l), Self::inp('i', d)])
            }
            22 => { // Cast / Identity / Neg
                let t = self.any_tensor();
                let dt = if matches!(t, Sym::Shape(_) | Sym::Unknown(_)) { self.r.pick(&['f', 'i']) } else { 'i' };
                match self.r.below(3) {
                    0 => { let to = self.r.pick(&[1i64, 6, 7]); self.case("Cast", vec![("to", Attr::Int(to))], 1, vec![Self::inp(dt, t)]) }
                    1 => self.case("Identity", vec![], 1, vec![Self::inp(dt, t)]),
                    _ => self.case("Neg", vec![], 1, vec![Self::inp(dt, t)]),
                }
            }
            _ => { // unary
                let op = self.r.pick(UNARY_OPS);
                let t = self.any_tensor();
                let dt = if op == "Not" { 'i' } else { 'f' };
                let t = match t { Sym::Scalar(_) | Sym::Vector(_) if dt == 'f' => Sym::Shape(self.shape(2)), t => t };
                self.case(op, vec![], 1, vec![Self::inp(dt, t)])
            }
        }
    }

    fn range_elem(&mut self) -> SymExpr {
        match self.r.below(10) {
            0 => SymExpr::Neg(self.sym(true).into()),
            1 => bin("*", v(-2), self.sym(true)),
            2 => bin("+", v(2), v(3)),
            3 => v(self.r.below(7) as i32 - 3),
            4 => self.sym(true),
            5 => self.sym(false),
            6 => bin("+", self.sym(true), v(1)),
            7 => bin("-", self.sym(true), self.sym(true)),
            8 => bin("/", v(-10), v(-2)),
            _ => self.elem(2),
        }
    }
    fn bcast_pair(&mut self) -> (Sym, Sym) {
        let ra = self.rank(); let rb = self.rank();
        let a = self.shape(ra);
        let mut b = self.shape(rb);
        // make most trailing dims compatible
        for i in 0..ra.min(rb) {
            if self.r.chance(3, 5) {
                b[rb - 1 - i] = match self.r.below(3) { 0 => v(1), _ => a[ra - 1 - i].clone() };
            }
        }
        let a = if self.r.chance(1, 15) { Sym::Unknown(vec![1; ra]) } else { Sym::Shape(a) };
        (a, Sym::Shape(b))
    }
    fn value_pair(&mut self) -> (Sym, Sym) {
        let n = self.r.pick(&[0usize, 1, 2, 2, 3]);
        let mk = |g: &mut G, n: usize| -> Sym {
            match g.r.below(6) { 0 => Sym::Scalar(g.elem(2)), 1 => Sym::Vector(g.vec(1, 2)), _ => Sym::Vector(g.vec(n, 2)) }
        };
        (mk(self, n), mk(self, n))
    }

    // ---------------- all operators offering inference: valid-ish instances with symbolic dims
    pub fn gen_any(&mut self) -> String {
        let f = |s: Vec<SymExpr>| Self::inp('f', Sym::Shape(s));
        let i32s = |l: &[i32]| Self::inp('i', Sym::Vector(l.iter().map(|x| v(*x)).collect()));
        let (a, b, c, d) = (mk_var(0, true), mk_var(1, true), mk_var(2, true), mk_var(3, true));
        match self.r.below(52) {
            0 => { let op = self.r.pick(&["Max", "Min", "Sum", "Mean"]); let n = 1 + self.r.below(3) as usize;
                   let (x, y) = self.bcast_pair(); let (_, z) = self.bcast_pair();
                   let mut ins = vec![Self::inp('f', x)]; if n > 1 { ins.push(Self::inp('f', y)); } if n > 2 { ins.push(Self::inp('f', z)); }
                   self.case(op, vec![], 1, ins) }
            1 => { let ax = self.r.pick(&[0i64, 1, -1, 2]); let s = { let rk = 1 + self.r.below(3) as usize; self.shape(rk) };
                   self.case("Flatten", vec![("axis", Attr::Int(ax))], 1, vec![f(s)]) }
            2 => { // Reshape with constant / symbolic shape
                   let data = { let rk = self.rank(); self.shape(rk) };
                   let shp = match self.r.below(6) {
                       0 => Sym::Vector(self.ivals(&[-1])),
                       1 => Sym::Vector(vec![v(0), v(-1)]),
                       2 => Sym::Vector(vec![self.small_elem(), v(-1)]),
                       3 => Sym::Vector(vec![v(2), self.small_elem()]),
                       4 => Sym::Shape(vec![v(2)]),
                       _ => { let k = self.r.below(3) as usize; Sym::Vector((0..k).map(|_| self.small_elem()).collect()) }
                   };
                   let az = self.r.below(2) as i64;
                   self.case("Reshape", vec![("allowzero", Attr::Int(az))], 1, vec![f(data), Self::inpd('i', shp, vec![1, -1])]) }
            3 => { // Reshape of value tensors
                   let data = self.value_tensor(1);
                   let shp = match self.r.below(4) { 0 => Sym::Vector(vec![]), 1 => Sym::Vector(self.ivals(&[-1])), 2 => Sym::Vector(self.ivals(&[1])), _ => Sym::Vector(vec![self.small_elem()]) };
                   self.case("Reshape", vec![], 1, vec![Self::inp('i', data), Self::inp('i', shp)]) }
            4 => { let data = { let rk = self.rank(); self.shape(rk) };
                   let shp = match self.r.below(4) { 0 => Sym::Shape(vec![v(self.r.below(4) as i32)]), 1 => Sym::Unknown(vec![2]),
                                                      _ => { let k = self.r.below(4) as usize; Sym::Vector((0..k).map(|_| self.small_elem()).collect()) } };
                   self.case("Expand", vec![], 1, vec![f(data), Self::inpd('i', shp, vec![1, 2])]) }
            5 => { let rk = self.r.below(4) as usize; let data = self.shape(rk);
                   let rep = match self.r.below(3) { 0 => Sym::Shape(vec![v(rk as i32)]), _ => Sym::Vector((0..rk).map(|_| self.small_elem()).collect()) };
                   self.case("Tile", vec![], 1, vec![f(data), Self::inpd('i', rep, vec![2])]) }
            6 => { // Slice, constant parameters
                   let rk = 1 + self.r.below(3) as usize; let data = self.shape(rk);
                   let k = 1 + self.r.below(rk as u64) as usize;
                   let st: Vec<i32> = (0..k).map(|_| self.r.below(7) as i32 - 3).collect();
                   let en: Vec<i32> = (0..k).map(|_| self.r.pick(&[0, 1, 2, 3, 5, -1, -2, 2147483647])).collect();
                   let mut ins = vec![f(data), i32s(&st), i32s(&en)];
                   if self.r.chance(2, 3) { let axes: Vec<i32> = (0..k as i32).map(|i| if self.r.chance(1, 4) { i - rk as i32 } else { i }).collect(); ins.push(i32s(&axes));
                       if self.r.chance(1, 2) { let steps: Vec<i32> = (0..k).map(|_| self.r.pick(&[1, 1, 2, -1, -2, 3])).collect(); ins.push(i32s(&steps)); } }
                   self.case("Slice", vec![], 1, ins) }
            7 => { // Slice, symbolic parameters
                   let data = vec![self.dim(), self.dim()];
                   let st = Sym::Vector(vec![self.small_elem()]); let en = Sym::Vector(vec![self.small_elem()]);
                   let mut ins = vec![f(data), Self::inp('i', st), Self::inp('i', en), i32s(&[self.r.pick(&[0, 1, -1])])];
                   if self.r.chance(1, 3) { ins.push(Self::inp('i', Sym::Vector(vec![self.small_elem()]))); }
                   self.case("Slice", vec![], 1, ins) }
            8 => { // Slice of a value vector
                   let n = 1 + self.r.below(4) as usize; let data = Sym::Vector(self.vec(n, 1));
                   let st = self.r.below(7) as i32 - 3; let en = self.r.pick(&[0, 1, 2, 3, 5, -1, 2147483647]);
                   let mut ins = vec![Self::inp('i', data), i32s(&[st]), i32s(&[en])];
                   if self.r.chance(1, 2) { ins.push(i32s(&[0])); if self.r.chance(1, 2) { ins.push(i32s(&[self.r.pick(&[1, 1, 2, -1])])); } }
                   self.case("Slice", vec![], 1, ins) }
            9 => { let rk = 1 + self.r.below(3) as usize; let data = self.shape(rk);
                   let ax = self.r.below(rk as u64) as i64; let n = 1 + self.r.below(3) as usize;
                   let mut ins = vec![f(data)];
                   let mut attrs = vec![("axis", Attr::Int(if self.r.chance(1, 3) { ax - rk as i64 } else { ax }))];
                   if self.r.chance(1, 2) { ins.push(Self::inp('i', Sym::Vector((0..n).map(|_| self.small_elem()).collect()))); } else { attrs.push(("num_outputs", Attr::Int(n as i64))); }
                   self.case("Split", attrs, n, ins) }
            10 => { let rk = 1 + self.r.below(3) as usize; let data = self.shape(rk);
                    let pads = match self.r.below(3) { 0 => Sym::Shape(vec![v(2 * rk as i32)]), _ => Sym::Vector((0..2 * rk).map(|_| if self.r.chance(1, 4) { self.small_elem() } else { v(self.r.below(3) as i32) }).collect()) };
                    self.case("Pad", vec![], 1, vec![f(data), Self::inpd('i', pads, vec![1])]) }
            11 => { let rk = self.r.below(3) as usize; let idx = self.shape(rk);
                    let depth = match self.r.below(3) { 0 => Sym::Scalar(v(3)), 1 => Sym::Scalar(self.sym(true)), _ => Sym::Vector(vec![v(2)]) };
                    let ax = self.r.below(2 * rk as u64 + 3) as i64 - rk as i64 - 1;
                    self.case("OneHot", vec![("axis", Attr::Int(ax))], 1, vec![Self::inpd('i', Sym::Shape(idx), vec![0, 1]), Self::inp('i', depth), Self::inpd('f', Sym::Shape(vec![v(2)]), vec![0, 1])]) }
            12 => { let s = { let rk = self.rank(); self.shape(rk) }; self.case("NonZero", vec![], 1, vec![Self::inpd('f', Sym::Shape(s), vec![0, 1, 2])]) }
            13 => { let rk = 1 + self.r.below(3) as usize; let mut s = self.shape(rk); let ax = self.r.below(rk as u64) as usize; s[ax] = v(3 + self.r.below(3) as i32);
                    let k = match self.r.below(3) { 0 => Sym::Vector(vec![v(2)]), 1 => Sym::Vector(vec![self.sym(true)]), _ => Sym::Shape(vec![v(1)]) };
                    self.case("TopK", vec![("axis", Attr::Int(ax as i64))], 2, vec![f(s), Self::inpd('i', k, vec![1])]) }
            14 => { let (n, ch, h, w) = (self.dim(), self.r.pick(&[v(1), v(2), c.clone()]), self.r.pick(&[v(4), v(5), a.clone()]), self.r.pick(&[v(4), b.clone()]));
                    let k = self.r.pick(&[1i64, 2, 3]); let oc = self.r.pick(&[v(1), v(3), d.clone()]);
                    let mut attrs = vec![("kernel_shape", Attr::Ints(vec![k, k]))];
                    match self.r.below(4) { 0 => attrs.push(("pads", Attr::Ints(vec![1, 1, 1, 1]))), 1 => attrs.push(("auto_pad", Attr::Str("SAME_UPPER".into()))), 2 => attrs.push(("strides", Attr::Ints(vec![2, 2]))), _ => {} }
                    if self.r.chance(1, 4) { attrs.push(("dilations", Attr::Ints(vec![2, 1]))); }
                    let mut ins = vec![f(vec![n, ch.clone(), h, w]), f(vec![oc.clone(), ch, v(k as i32), v(k as i32)])];
                    if self.r.chance(1, 2) { ins.push(f(vec![oc])); }
                    self.case("Conv", attrs, 1, ins) }
            15 => { let (n, ch, h, w) = (self.dim(), self.r.pick(&[v(2), c.clone()]), self.r.pick(&[v(3), a.clone()]), self.r.pick(&[v(4), b.clone()]));
                    let mut attrs = vec![("kernel_shape", Attr::Ints(vec![2, 2]))];
                    match self.r.below(4) { 0 => attrs.push(("strides", Attr::Ints(vec![2, 2]))), 1 => attrs.push(("pads", Attr::Ints(vec![1, 0, 1, 0]))), 2 => attrs.push(("output_padding", Attr::Ints(vec![1, 1]))), _ => {} }
                    if attrs.iter().any(|(n, _)| *n == "output_padding") { attrs.push(("strides", Attr::Ints(vec![2, 2]))); }
                    self.case("ConvTranspose", attrs, 1, vec![f(vec![n, ch.clone(), h, w]), f(vec![ch, v(3), v(2), v(2)])]) }
            16 => { let op = self.r.pick(&["MaxPool", "AveragePool"]);
                    let (n, ch, h, w) = (self.dim(), self.dim(), self.r.pick(&[v(4), v(5), a.clone()]), self.r.pick(&[v(6), b.clone()]));
                    let mut attrs = vec![("kernel_shape", Attr::Ints(vec![2, self.r.pick(&[2i64, 3])]))];
                    match self.r.below(4) { 0 => attrs.push(("strides", Attr::Ints(vec![2, 2]))), 1 => attrs.push(("pads", Attr::Ints(vec![1, 1, 1, 1]))), 2 => attrs.push(("auto_pad", Attr::Str("SAME_UPPER".into()))), _ => {} }
                    if self.r.chance(1, 4) { attrs.push(("ceil_mode", Attr::Int(1))); }
                    self.case(op, attrs, 1, vec![f(vec![n, ch, h, w])]) }
            17 => { let op = self.r.pick(&["GlobalAveragePool", "GlobalMaxPool"]); let s = vec![self.dim(), self.dim(), a.clone(), v(3)]; self.case(op, vec![], 1, vec![f(s)]) }
            18 => { let ch = self.r.pick(&[v(2), c.clone()]); let s = vec![self.dim(), ch.clone(), a.clone(), v(2)];
                    self.case("BatchNormalization", vec![], 1, vec![f(s), f(vec![ch.clone()]), f(vec![ch.clone()]), f(vec![ch.clone()]), f(vec![ch])]) }
            19 => { let ch = self.r.pick(&[v(2), c.clone()]); let s = vec![self.dim(), ch.clone(), a.clone(), v(2)];
                    self.case("InstanceNormalization", vec![], 1, vec![f(s), f(vec![ch.clone()]), f(vec![ch])]) }
            20 => { let last = self.r.pick(&[v(3), c.clone()]); let s = vec![self.dim(), a.clone(), last.clone()];
                    let op = self.r.pick(&["LayerNormalization", "RMSNormalization"]);
                    let mut ins = vec![f(s), f(vec![last.clone()])]; if op == "LayerNormalization" && self.r.chance(1, 2) { ins.push(f(vec![last])); }
                    self.case(op, vec![("axis", Attr::Int(-1))], 1, ins) }
            21 => { let s = vec![self.dim(), a.clone()]; let ax = self.r.pick(&[0i64, 1, -1]); self.case("LpNormalization", vec![("axis", Attr::Int(ax))], 1, vec![f(s)]) }
            22 => { let s = vec![v(1), v(2), self.r.pick(&[v(3), a.clone()]), self.r.pick(&[v(4), b.clone()])];
                    let mode = self.r.pick(&["nearest", "linear"]);
                    if self.r.chance(1, 2) {
                        let sc = Self::inpd('f', Sym::Shape(vec![v(4)]), vec![1, 1, 2, 2]);
                        self.case("Resize", vec![("mode", Attr::Str(mode.into()))], 1, vec![f(s), Self::inp('f', Sym::Missing), sc])
                    } else {
                        let sizes = match self.r.below(2) { 0 => Sym::Vector(vec![v(1), v(2), v(5), self.small_elem()]), _ => Sym::Vector(self.ivals(&[1, 2, 6, 3])) };
                        self.case("Resize", vec![("mode", Attr::Str(mode.into()))], 1, vec![f(s), Self::inp('f', Sym::Missing), Self::inp('f', Sym::Missing), Self::inp('i', sizes)])
                    } }
            23 => { let eq = self.r.pick(&["ij,jk->ik", "bij,bjk->bik", "ij->ji", "ii->i", "ij,j->i", "i,i->", "...ij,...jk->...ik"]);
                    let ins = match eq { "ij->ji" => vec![f(vec![a.clone(), self.dim()])], "ii->i" => vec![f(vec![a.clone(), a.clone()])],
                        "ij,j->i" => vec![f(vec![self.dim(), b.clone()]), f(vec![b.clone()])], "i,i->" => vec![f(vec![a.clone()]), f(vec![a.clone()])],
                        "bij,bjk->bik" | "...ij,...jk->...ik" => vec![f(vec![c.clone(), self.dim(), b.clone()]), f(vec![c.clone(), b.clone(), self.dim()])],
                        _ => vec![f(vec![self.dim(), b.clone()]), f(vec![b.clone(), self.dim()])] };
                    self.case("Einsum", vec![("equation", Attr::Str(eq.into()))], 1, ins) }
            24 => { let k = self.r.pick(&[v(2), b.clone()]);
                    let x = Self::inp('u', Sym::Shape(vec![self.dim(), k.clone()])); let y = Self::inp(self.r.pick(&['b', 'u']), Sym::Shape(vec![k, self.dim()]));
                    self.case("MatMulInteger", vec![], 1, vec![x, y]) }
            25 => { let s = { let rk = 1 + self.r.below(3) as usize; self.shape(rk) };
                    let dt = self.r.pick(&['b', 'u']);
                    self.case("DequantizeLinear", vec![], 1, vec![Self::inp(dt, Sym::Shape(s)), Self::inpd('f', Sym::Shape(vec![]), vec![2]), Self::inpd(dt, Sym::Shape(vec![]), vec![1])]) }
            26 => { let s = { let rk = 1 + self.r.below(3) as usize; self.shape(rk) };
                    let dt = self.r.pick(&['b', 'u']);
                    self.case("QuantizeLinear", vec![], 1, vec![f(s), Self::inpd('f', Sym::Shape(vec![]), vec![2]), Self::inpd(dt, Sym::Shape(vec![]), vec![1])]) }
            27 => { let mut s = { let rk = 1 + self.r.below(2) as usize; self.shape(rk) }; for x in s.iter_mut() { if *x == v(0) { *x = v(2); } }
                    self.case("DynamicQuantizeLinear", vec![], 3, vec![f(s)]) }
            28 => { let rk = 1 + self.r.below(3) as usize; let data = self.shape(rk); let idx = self.shape(rk);
                    let ax = self.r.below(rk as u64) as i64; self.case("GatherElements", vec![("axis", Attr::Int(ax))], 1, vec![f(data), Self::inpd('i', Sym::Shape(idx), vec![0])]) }
            29 => { let rk = 1 + self.r.below(3) as usize; let data = self.shape(rk); let t = 1 + self.r.below(rk as u64) as i32;
                    let mut idx = { let k = self.r.below(2) as usize; self.shape(k) }; idx.push(if self.r.chance(1, 6) { self.sym(true) } else { v(t) });
                    self.case("GatherND", vec![], 1, vec![f(data), Self::inpd('i', Sym::Shape(idx), vec![0])]) }
            30 => { let rk = 1 + self.r.below(3) as usize; let data = self.shape(rk); let idx = self.shape(rk);
                    let ax = self.r.below(rk as u64) as i64; self.case("ScatterElements", vec![("axis", Attr::Int(ax))], 1, vec![f(data), Self::inpd('i', Sym::Shape(idx.clone()), vec![0]), f(idx)]) }
            31 => { let data = vec![self.dim(), self.dim()]; let k = self.dim();
                    self.case("ScatterND", vec![], 1, vec![f(data.clone()), Self::inpd('i', Sym::Shape(vec![k.clone(), v(1)]), vec![0]), f(vec![k, data[1].clone()])]) }
            32 => { let s = vec![self.dim(), self.dim()]; let mut ins = vec![f(s)]; if self.r.chance(1, 2) { ins.push(Self::inp('i', Sym::Scalar(v(self.r.below(3) as i32 - 1)))); }
                    let up = self.r.below(2) as i64; self.case("Trilu", vec![("upper", Attr::Int(up))], 1, ins) }
            33 => { let s = { let rk = 1 + self.r.below(3) as usize; self.shape(rk) }; let ax = Self::inp('i', Sym::Scalar(v(0)));
                    self.case("CumSum", vec![], 1, vec![f(s), ax]) }
            34 => { let s = vec![self.dim(), self.dim()]; self.case("EyeLike", vec![], 1, vec![f(s)]) }
            35 => { let s = { let rk = self.rank(); self.shape(rk) }; let slope = match self.r.below(2) { 0 => vec![], _ => vec![v(1)] };
                    self.case("PRelu", vec![], 1, vec![f(s), f(slope)]) }
            36 => { let s = { let rk = self.rank(); self.shape(rk) }; let like = self.r.pick(&['f', 'i']);
                    self.case("CastLike", vec![], 1, vec![f(s), Self::inp(like, Sym::Shape(vec![]))]) }
            37 => { let s = vec![v(1), self.r.pick(&[v(4), v(8), c.clone()]), a.clone(), self.dim()];
                    let mode = self.r.pick(&["DCR", "CRD"]); self.case("DepthToSpace", vec![("blocksize", Attr::Int(2)), ("mode", Attr::Str(mode.into()))], 1, vec![f(s)]) }
            38 => { let s = { let rk = self.rank(); self.shape(rk) }; let mut ins = vec![f(s)];
                    if self.r.chance(1, 2) { ins.push(Self::inpd('f', Sym::Shape(vec![]), vec![0])); }
                    self.case("Dropout", vec![], 2, ins) }
            39 => { let s = vec![self.dim(), self.dim()]; let mut ins = vec![f(s)];
                    if self.r.chance(1, 2) { ins.push(Self::inpd('f', Sym::Shape(vec![]), vec![0])); ins.push(Self::inpd('f', Sym::Shape(vec![]), vec![5])); }
                    self.case("Clip", vec![], 1, ins) }
            40 => { let (seq, batch, inp, hid) = (self.r.pick(&[v(2), a.clone()]), self.r.pick(&[v(1), b.clone()]), v(3), 2);
                    let op = self.r.pick(&["LSTM", "GRU"]); let g = if op == "LSTM" { 4 } else { 3 };
                    let bidir = self.r.chance(1, 3); let nd = if bidir { 2 } else { 1 };
                    let mut attrs = vec![("hidden_size", Attr::Int(hid as i64))]; if bidir { attrs.push(("direction", Attr::Str("bidirectional".into()))); }
                    self.case(op, attrs, if op == "LSTM" { 3 } else { 2 }, vec![f(vec![seq, batch, inp]), f(vec![v(nd), v(g * hid), v(3)]), f(vec![v(nd), v(g * hid), v(hid)])]) }
            41 => { let s = vec![self.dim(), self.r.pick(&[v(3), c.clone()])]; let last = s[1].clone();
                    self.case("SkipLayerNormalization@com.microsoft", vec![("epsilon", Attr::Float(0.00001))], 4, vec![f(s.clone()), f(s), f(vec![last])]) }
            42 => { let k = self.r.pick(&[v(2), b.clone()]);
                    let x = Self::inp('u', Sym::Shape(vec![v(1), k.clone(), v(4), a.clone()])); let w = Self::inp('u', Sym::Shape(vec![v(2), k, v(2), v(2)]));
                    self.case("ConvInteger", vec![("kernel_shape", Attr::Ints(vec![2, 2]))], 1, vec![x, w]) }
            43 => { let s = vec![v(1), v(1), self.r.pick(&[v(3), a.clone()]), v(3)]; let sc = Self::inpd('f', Sym::Shape(vec![v(4)]), vec![1, 1, 2, 2]);
                    self.case("Upsample", vec![("mode", Attr::Str("nearest".into()))], 1, vec![f(s), sc]) }
            44 => { let x = f(vec![self.dim(), v(2), v(3), v(3)]); let grid = Self::inpd('f', Sym::Shape(vec![self.dim(), a.clone(), v(2), v(2)]), vec![0]);
                    self.case("GridSample", vec![], 1, vec![x, grid]) }
            46 => { let op = self.r.pick(&["RandomNormal", "RandomUniform"]); let sh: Vec<i64> = (0..1 + self.r.below(3)).map(|_| self.r.below(4) as i64).collect();
                    self.case(op, vec![("shape", Attr::Ints(sh))], 1, vec![]) }
            47 => { let op = self.r.pick(&["RandomNormalLike", "RandomUniformLike"]); let s = { let rk = self.rank(); self.shape(rk) }; self.case(op, vec![], 1, vec![f(s)]) }
            48 => { let s = vec![self.dim(), self.r.pick(&[v(3), c.clone()])]; let k = 1 + self.r.below(3) as i64;
                    self.case("Multinomial", vec![("sample_size", Attr::Int(k))], 1, vec![Self::inpd('f', Sym::Shape(s), vec![1])]) }
            49 => { let op = self.r.pick(&["BiasGelu@com.microsoft", "FastGelu@com.microsoft", "Gelu@com.microsoft", "QuickGelu@com.microsoft"]);
                    let last = self.r.pick(&[v(3), c.clone()]); let s = vec![self.dim(), last.clone()];
                    let ins = if op.starts_with("BiasGelu") { vec![f(s), f(vec![last])] } else { vec![f(s)] };
                    self.case(op, vec![], 1, ins) }
            50 => { let last = self.r.pick(&[v(3), c.clone()]); let s = vec![self.dim(), last.clone()];
                    if self.r.chance(1, 2) { self.case("SimplifiedLayerNormalization", vec![("epsilon", Attr::Float(0.00001))], 1, vec![f(s), f(vec![last])]) }
                    else { self.case("SkipSimplifiedLayerNormalization@com.microsoft", vec![("epsilon", Attr::Float(0.00001))], 1, vec![f(s.clone()), f(s), f(vec![last])]) } }
            51 => { if self.r.chance(1, 2) { let bt = self.r.pick(&[v(2), b.clone()]);
                        self.case("ReverseSequence", vec![], 1, vec![f(vec![v(3), bt.clone()]), Self::inpd('i', Sym::Shape(vec![bt]), vec![1, 2])]) }
                    else { let n = self.r.pick(&[v(3), a.clone()]); self.case("Scatter", vec![], 1, vec![f(vec![n, v(2)]), Self::inpd('i', Sym::Shape(vec![v(1), v(2)]), vec![0]), f(vec![v(1), v(2)])]) } }
            _ => { let nb = self.r.pick(&[v(1), a.clone()]); let n = self.r.pick(&[v(3), b.clone()]);
                   let boxes = Self::inpd('f', Sym::Shape(vec![nb.clone(), n.clone(), v(4)]), vec![0, 0, 1, 1]);
                   let scores = Self::inpd('f', Sym::Shape(vec![nb, v(1), n]), vec![1]);
                   self.case("NonMaxSuppression", vec![], 1, vec![boxes, scores, Self::inpd('i', Sym::Shape(vec![]), vec![2]), Self::inpd('f', Sym::Shape(vec![]), vec![1]), Self::inpd('f', Sym::Shape(vec![]), vec![0])]) }
        }
    }
}

