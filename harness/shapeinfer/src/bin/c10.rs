//! C10 harness.  `c10 gen <seed> <n> <tier>` prints case lines; `c10 exec` reads case lines and
//! prints `tag \t line \t coq-case`.  See lib.rs for the line format.
//!
//! For every case: the operator is deserialized from a one-node ONNX model by the real registry
//! (hook `rten::verif::shapeinfer::load_op`), its `as_infer_shapes()` rule is run on the symbolic
//! inputs, and for every assignment the symbolic inputs are instantiated to concrete tensors on
//! which the operator's `run` is executed.
use std::io::{BufRead, Write};

use rten_shape_inference::SymExpr;
use vh_shapeinfer::*;
use vh_shapeinfer::cases::*;

// ------------------------------------------------------------------ Coq operator term
fn opt_z(v: Option<i64>) -> String {
    match v { Some(x) => format!("(Some {})", coq_z(x)), None => "None".to_string() }
}

/// Coq `op` term for the operators that have a model, `OOther` otherwise.
fn coq_op(c: &Case) -> String {
    if !c.domain.is_empty() { return "OOther".to_string(); }
    let op = c.op.as_str();
    if UNARY_OPS.contains(&op) { return "OUnary".to_string(); }
    if BINARY_OPS.contains(&op) { return "OBinary".to_string(); }
    if REDUCE_OPS.contains(&op) {
        let axes = match c.attr_ints("axes") {
            Some(l) => format!("(Some {})", coq_list(&l, |x| coq_z(*x))),
            None => "None".to_string(),
        };
        let keep = c.attr_int("keepdims").unwrap_or(1) != 0;
        let noop = c.attr_int("noop_with_empty_axes").unwrap_or(0) != 0;
        return format!("(OReduce {} {} {})", axes, keep, noop);
    }
    match op {
        "ArgMax" | "ArgMin" => {
            let keep = c.attr_int("keepdims").unwrap_or(1) != 0;
            format!("(OReduce (Some [{}]) {} false)", coq_z(c.attr_int("axis").unwrap_or(0)), keep)
        }
        "Identity" => "OIdentity".to_string(),
        "Cast" => {
            let to = c.attr_int("to").unwrap_or(1);
            format!("(OCast {})", to == 6 || to == 7 || to == 9)
        }
        "Neg" => "ONeg".to_string(),
        "Add" => "OAdd".to_string(),
        "Sub" => "OSub".to_string(),
        "Mul" => "OMul".to_string(),
        "Div" => "ODiv".to_string(),
        "Equal" => "OEqual".to_string(),
        "Where" => "OWhere".to_string(),
        "Shape" => format!("(OShape {} {})", opt_z(c.attr_int("start")), opt_z(c.attr_int("end"))),
        "Size" => "OSize".to_string(),
        "Gather" => format!("(OGather {})", coq_z(c.attr_int("axis").unwrap_or(0))),
        "Concat" => format!("(OConcat {})", coq_z(c.attr_int("axis").unwrap_or(0))),
        "Squeeze" => "OSqueeze".to_string(),
        "Unsqueeze" => "OUnsqueeze".to_string(),
        "Transpose" => match c.attr_ints("perm") {
            Some(p) => format!("(OTranspose (Some {}))", coq_list(&p, |x| format!("{}%nat", x))),
            None => "(OTranspose None)".to_string(),
        },
        "MatMul" => "OMatMul".to_string(),
        "Gemm" => format!("(OGemm {} {})", c.attr_int("transA").unwrap_or(0) != 0, c.attr_int("transB").unwrap_or(0) != 0),
        "ConstantOfShape" => {
            let v = c.attrs.iter().find(|(n, _)| n == "value").map(|(_, a)| a.clone());
            match v {
                Some(Attr::Tensor('f', _, _)) => "(OConstantOfShape None)".to_string(),
                Some(Attr::Tensor(_, _, vals)) => format!("(OConstantOfShape (Some {}))", coq_z(vals[0])),
                _ => "(OConstantOfShape None)".to_string(),
            }
        }
        "Range" => "ORange".to_string(),
        "MaxPool" | "AveragePool" => {
            let ks = c.attr_ints("kernel_shape").unwrap_or_default();
            let zl = |l: &Vec<i64>| coq_list(l, |x| coq_z(*x));
            let auto = c.attrs.iter().find(|(n, _)| n == "auto_pad").and_then(|(_, a)| match a { Attr::Str(s) => Some(s.clone()), _ => None });
            let pads = match auto.as_deref() {
                Some("SAME_UPPER") | Some("SAME_LOWER") => "None".to_string(),
                _ => format!("(Some {})", zl(&c.attr_ints("pads").unwrap_or(vec![0; 2 * ks.len()]))),
            };
            let strides = c.attr_ints("strides").unwrap_or(vec![1; ks.len()]);
            format!("(OPool {} {} {} {})", zl(&ks), pads, zl(&strides), c.attr_int("ceil_mode").unwrap_or(0) != 0)
        }
        _ => "OOther".to_string(),
    }
}

// ------------------------------------------------------------------ exec
fn exec_line(line: &str) -> (String, String) {
    let c = Case::parse(line);
    let ins_coq = coq_list(&c.inputs, input_to_coq);
    let vop = match load_case_op(&c) {
        Ok(v) => v,
        Err(e) => {
            eprintln!("load failed for {}: {}", line, e);
            return (format!("trivial-loadfail:{}", c.op),
                    format!("{{| c_name := \"{}\"%string; c_op := OOther; c_in := {}; c_res := IErr EUnknownOutputs; c_insts := [] |}}", c.op, ins_coq));
        }
    };
    let syms: Vec<_> = c.inputs.iter().map(sym_tensor).collect();
    let res = no_panic(|| vop.infer(&syms));
    let (res_coq, kind) = match &res {
        None => ("IPanic".to_string(), "panic"),
        Some(None) => ("IOk []".to_string(), "noinfer"),
        Some(Some(Ok(outs))) => (format!("(IOk {})", coq_list(outs, symt_to_coq)), "ok"),
        Some(Some(Err(e))) => (format!("(IErr {})", ierr_to_coq(e)), "err"),
    };
    let op_coq = if kind == "noinfer" { "OOther".to_string() } else { coq_op(&c) };
    let mut insts = vec![];
    let mut ran = 0;
    for env in &c.envs {
        let mut conc = vec![];
        let mut ok = true;
        for i in &c.inputs {
            match concrete_input(i, env) {
                Ok(x) => conc.push(x),
                Err(()) => { ok = false; break; }
            }
        }
        if !ok { continue; }
        let values: Vec<Option<rten::Value>> = c.inputs.iter().zip(&conc)
            .map(|(i, x)| x.as_ref().map(|(s, d)| make_value(i.dt, s, d))).collect();
        let out = no_panic(|| vop.run(&values, c.nout));
        let out_coq = match out {
            Some(Ok(outs)) => { ran += 1; format!("Some {}", coq_list(&outs, value_to_coq)) }
            _ => "None".to_string(),
        };
        let in_coq = coq_list(&c.inputs.iter().zip(&conc).collect::<Vec<_>>(), |(i, x)| match x {
            Some((s, d)) => {
                let with_data = s.len() <= 1 && i.dt != 'f' && !matches!(i.sym, Sym::Shape(_) | Sym::Unknown(_))
                    || (s.len() <= 1 && i.dt != 'f' && i.data.is_some());
                format!("Some {}", ctensor_to_coq(s, if with_data { Some(d.as_slice()) } else { None }))
            }
            None => "None".to_string(),
        });
        insts.push(format!("{{| i_env := {}; i_in := {}; i_out := {} |}}", env_to_coq(env), in_coq, out_coq));
    }
    let modelled = op_coq != "OOther";
    let tag = if kind == "noinfer" {
        format!("trivial-noinfer:{}", c.op)
    } else {
        format!("{}:{}:{}{}", if modelled { "model" } else { "diff" }, c.op, kind, if ran > 0 { ":ran" } else { ":norun" })
    };
    // class of the finding F82: ceil_mode pooling whose end padding exceeds the kernel in some dim
    let mut cname = c.op.clone();
    if (c.op == "MaxPool" || c.op == "AveragePool") && c.attr_int("ceil_mode").unwrap_or(0) != 0 {
        if let (Some(k), Some(p)) = (c.attr_ints("kernel_shape"), c.attr_ints("pads")) {
            let n = k.len();
            if p.len() == 2 * n && (0..n).any(|d| p[n + d] > k[d]) { cname = "Pool:pad_end>kernel".to_string(); }
        }
    }
    (tag, format!("{{| c_name := \"{}\"%string; c_op := {}; c_in := {}; c_res := {}; c_insts := [{}] |}}", cname, op_coq, ins_coq, res_coq, insts.join("; ")))
}

// ------------------------------------------------------------------ graph-level cases
// `G#<dims of x; text exprs>#<op;op;...>#<envs>`: a chain of shape-computing operators starting
// at the float input x, run through the real graph driver `infer_shapes` (constants -> symbolic
// values, simplify, complexity limit) and `Graph::run`.  Encoded as one case whose "outputs" are
// all value nodes of the graph.
const GOPS: &[&str] = &["Shape", "Gather0", "Gather1", "GatherM1", "GatherV", "Unsq0", "Sq0", "Add1i", "Mul2i", "Sub1i", "Sub5i",
    "Div2i", "Div2f", "Mul15f", "Add1f", "CastI", "CastF", "Neg", "Equal0", "Equal3", "Where79", "ConcatS", "COS", "COSf", "Range0",
    "ReshapeX", "ExpandC", "SliceX", "Size", "Flatten", "Transpose", "ReduceSum0", "Identity", "Relu", "MatMulW"];

fn gnode_op(k: usize, name: &str, prev: &str, nodes: &mut Vec<rten::verif::shapeinfer::GNode>, names: &mut Vec<String>) -> Option<String> {
    use rten::verif::shapeinfer::GNode;
    let mut consts: Vec<(char, Vec<usize>, Vec<i64>)> = vec![];
    let mut attrs: Vec<(String, Attr)> = vec![];
    let a = |n: &str, v: Attr| vec![(n.to_string(), v)];
    // inputs: P = prev, X = graph input, C<j> = j-th constant
    let (op, ins): (&str, Vec<&str>) = match name {
        "Shape" => ("Shape", vec!["P"]),
        "Gather0" => { consts.push(('i', vec![], vec![0])); ("Gather", vec!["P", "C0"]) }
        "Gather1" => { consts.push(('i', vec![], vec![1])); ("Gather", vec!["P", "C0"]) }
        "GatherM1" => { consts.push(('i', vec![], vec![-1])); ("Gather", vec!["P", "C0"]) }
        "GatherV" => { consts.push(('i', vec![2], vec![0, 1])); ("Gather", vec!["P", "C0"]) }
        "Unsq0" => { consts.push(('i', vec![1], vec![0])); ("Unsqueeze", vec!["P", "C0"]) }
        "Sq0" => { consts.push(('i', vec![1], vec![0])); ("Squeeze", vec!["P", "C0"]) }
        "Add1i" => { consts.push(('i', vec![], vec![1])); ("Add", vec!["P", "C0"]) }
        "Mul2i" => { consts.push(('i', vec![], vec![2])); ("Mul", vec!["P", "C0"]) }
        "Sub1i" => { consts.push(('i', vec![], vec![1])); ("Sub", vec!["P", "C0"]) }
        "Sub5i" => { consts.push(('i', vec![], vec![5])); ("Sub", vec!["P", "C0"]) }
        "Div2i" => { consts.push(('i', vec![], vec![2])); ("Div", vec!["P", "C0"]) }
        "Div2f" => { consts.push(('f', vec![], vec![2])); ("Div", vec!["P", "C0"]) }
        "Mul15f" => { consts.push(('h', vec![], vec![3])); ("Mul", vec!["P", "C0"]) }   // 'h' = halves: 3 -> 1.5
        "Add1f" => { consts.push(('f', vec![], vec![1])); ("Add", vec!["P", "C0"]) }
        "CastI" => { attrs = a("to", Attr::Int(7)); ("Cast", vec!["P"]) }
        "CastF" => { attrs = a("to", Attr::Int(1)); ("Cast", vec!["P"]) }
        "Neg" => ("Neg", vec!["P"]),
        "Equal0" => { consts.push(('i', vec![], vec![0])); ("Equal", vec!["P", "C0"]) }
        "Equal3" => { consts.push(('i', vec![], vec![3])); ("Equal", vec!["P", "C0"]) }
        "Where79" => { consts.push(('i', vec![], vec![7])); consts.push(('i', vec![], vec![9])); ("Where", vec!["P", "C0", "C1"]) }
        "ConcatS" => { consts.push(('i', vec![1], vec![4])); attrs = a("axis", Attr::Int(0)); ("Concat", vec!["P", "C0"]) }
        "COS" => { attrs = a("value", Attr::Tensor('i', vec![1], vec![3])); ("ConstantOfShape", vec!["P"]) }
        "COSf" => ("ConstantOfShape", vec!["P"]),
        "Range0" => { consts.push(('i', vec![], vec![0])); consts.push(('i', vec![], vec![1])); ("Range", vec!["C0", "P", "C1"]) }
        "ReshapeX" => ("Reshape", vec!["X", "P"]),
        "ExpandC" => { consts.push(('f', vec![], vec![1])); ("Expand", vec!["C0", "P"]) }
        "SliceX" => { consts.push(('i', vec![1], vec![0])); consts.push(('i', vec![1], vec![0])); ("Slice", vec!["X", "C0", "P", "C1"]) }
        "Size" => ("Size", vec!["P"]),
        "Flatten" => ("Flatten", vec!["P"]),
        "Transpose" => ("Transpose", vec!["P"]),
        "ReduceSum0" => { consts.push(('i', vec![1], vec![0])); attrs = a("keepdims", Attr::Int(0)); ("ReduceSum", vec!["P", "C0"]) }
        "Identity" => ("Identity", vec!["P"]),
        "Relu" => ("Relu", vec!["P"]),
        "MatMulW" => { consts.push(('f', vec![4, 2], vec![1])); ("MatMul", vec!["P", "C0"]) }
        _ => return None,
    };
    let mut in_names = vec![];
    for i in &ins {
        in_names.push(Some(match *i {
            "P" => prev.to_string(),
            "X" => "v0".to_string(),
            c => {
                let j: usize = c[1..].parse().unwrap();
                let (dt, shape, vals) = &consts[j];
                let cname = format!("c{}_{}", k, j);
                let value = if *dt == 'h' {
                    rten::Value::from(rten_tensor::Tensor::from_data(shape, vals.iter().map(|v| *v as f32 / 2.0).collect::<Vec<f32>>()))
                } else { make_value(*dt, shape, vals) };
                nodes.push(GNode::Constant { name: cname.clone(), value });
                names.push(cname.clone());
                cname
            }
        }));
    }
    let oname = format!("v{}", k + 1);
    nodes.push(GNode::Value { name: oname.clone(), dtype: None, shape: None });
    names.push(oname.clone());
    let present: Vec<bool> = in_names.iter().map(|_| true).collect();
    let bytes = onnx_model(op, "", &attrs, &present, 1, OPSET);
    nodes.push(GNode::Op { name: format!("op{}", k), model_bytes: bytes, index: 0, inputs: in_names, outputs: vec![Some(oname.clone())] });
    Some(oname)
}

fn exec_graph_line(line: &str) -> (String, String) {
    use rten::verif::shapeinfer::{GNode, InferredShape, build_graph};
    use rten::{DataType, Dimension, ValueType};
    let f: Vec<&str> = line.split('#').collect();
    let dims: Vec<SymExpr> = f[1].split(';').filter(|s| !s.trim().is_empty()).map(|s| parse_expr(s)).collect();
    let ops: Vec<&str> = f[2].split(';').filter(|s| !s.is_empty()).collect();
    let envs = Case::parse(&format!("X#-#1##{}", f[3])).envs;
    let gdims: Vec<Dimension> = dims.iter().map(|d| match d {
        SymExpr::Value(v) => Dimension::Fixed(*v as usize),
        SymExpr::Var(s) => Dimension::Symbolic(s.name.clone()),
        _ => Dimension::Fixed(1),
    }).collect();
    let build = || -> Option<(rten::verif::shapeinfer::VGraph, Vec<String>)> {
        let mut nodes = vec![GNode::Value { name: "v0".into(), dtype: Some(ValueType::Tensor(DataType::Float)), shape: Some(gdims.clone()) }];
        let mut names = vec!["v0".to_string()];
        let mut prev = "v0".to_string();
        for (k, o) in ops.iter().enumerate() { prev = gnode_op(k, o, &prev, &mut nodes, &mut names)?; }
        let g = no_panic(|| build_graph(nodes, &["v0"], &[prev.as_str()]))?.ok()?;
        Some((g, names))
    };
    let bad = || ("trivial-badgraph".to_string(), "{| c_name := \"graph\"%string; c_op := OOther; c_in := []; c_res := IPanic; c_insts := [] |}".to_string());
    let (vg, names) = match build() { Some(x) => x, None => return bad() };
    let vals: Vec<String> = names.iter().filter(|n| n.starts_with('v') && *n != "v0").cloned().collect();
    let inferred = match no_panic(|| vg.infer(false, 10)) { Some(Ok(l)) => l, _ => return bad() };
    let synth = std::cell::Cell::new(0u64);
    let outs: Vec<String> = vals.iter().map(|n| {
        match inferred.iter().find(|(x, _, _)| x == n).and_then(|(_, s, _)| s.clone()) {
            Some(InferredShape::Constant(isvec, v)) => if isvec { format!("(TVector {})", coq_list(&v, |x| format!("(Value {})", coq_z(*x as i64)))) }
                                                       else { format!("(TScalar (Value {}))", coq_z(v[0] as i64)) },
            Some(InferredShape::Shape(ds)) => format!("(TShape {})", coq_list(&ds, |d| match d {
                Dimension::Fixed(n) => format!("(Value {})", n),
                Dimension::Symbolic(name) => match NAMES.iter().position(|x| x == name) {
                    Some(id) => format!("(Var {} true)", id),
                    // an expression or generated symbol, rendered as text by the driver: no claim
                    None => { synth.set(synth.get() + 1); format!("(Var {} true)", 100 + synth.get()) }
                },
            })),
            None => "TUnknown".to_string(),
        }
    }).collect();
    let xin = Input { dt: 'f', sym: Sym::Shape(dims.clone()), data: None };
    let mut insts = vec![];
    let mut ran = 0;
    for env in &envs {
        let (shape, data) = match concrete_input(&xin, env) { Ok(Some(x)) => x, _ => continue };
        // every value is requested separately; a value that cannot be computed gets an unknown-shaped
        // placeholder that no claim can hold of, so it is excluded by running only the computable prefix
        let mut couts = vec![];
        for n in &vals {
            let x = make_value('f', &shape, &data);
            match no_panic(|| vg.run(vec![("v0".to_string(), x)], &[n.as_str()])) {
                Some(Ok(v)) => couts.push(value_to_coq(&v[0])),
                _ => break,
            }
        }
        if !couts.is_empty() { ran += 1; }
        insts.push(format!("{{| i_env := {}; i_in := [Some {}]; i_out := Some [{}] |}}", env_to_coq(env), ctensor_to_coq(&shape, None), couts.join("; ")));
    }
    let tag = format!("diff:graph{}:ok:{}", ops.len().min(6), if ran > 0 { "ran" } else { "norun" });
    (tag, format!("{{| c_name := \"graph\"%string; c_op := OOther; c_in := [{}]; c_res := (IOk [{}]); c_insts := [{}] |}}",
                  input_to_coq(&xin), outs.join("; "), insts.join("; ")))
}

fn main() {
    quiet_panics();
    let args: Vec<String> = std::env::args().collect();
    match args.get(1).map(|s| s.as_str()) {
        Some("gen") => {
            let seed: u64 = args[2].parse().unwrap();
            let n: usize = args[3].parse().unwrap();
            let mut g = G { r: SplitMix64(seed ^ 0xC10) };
            let out = std::io::stdout();
            let mut out = out.lock();
            // deterministic prefix: one instance of every elementwise / reduction / variadic operator
            let mut fixed: Vec<String> = vec![];
            for op in UNARY_OPS { let t = g.shape(2); fixed.push(g.case(op, vec![], 1, vec![G::inp(if *op == "Not" { 'i' } else { 'f' }, Sym::Shape(t))])); }
            for op in BINARY_OPS.iter().chain(["Max", "Min", "Sum", "Mean"].iter()) {
                let dt = if ["And", "Or", "Xor", "Mod"].contains(op) { 'i' } else { 'f' };
                let a = g.shape(2); let b = vec![a[1].clone()];
                fixed.push(g.case(op, vec![], 1, vec![G::inp(dt, Sym::Shape(a)), G::inp(dt, Sym::Shape(b))]));
            }
            for op in REDUCE_OPS { let t = g.shape(2); fixed.push(g.case(op, vec![("keepdims", Attr::Int(0))], 1, vec![G::inp('f', Sym::Shape(t)), G::inp('i', Sym::Vector(vec![SymExpr::Value(-1)]))])); }
            let thorough = args.get(4).map(|t| t == "thorough").unwrap_or(false);
            fixed.extend(g.value_layout_cases(thorough));
            fixed.extend(g.pool_conv_cases(thorough));
            for l in fixed.iter().take(n) { writeln!(out, "{}", l).unwrap(); }
            for k in 0..n.saturating_sub(fixed.len()) {
                let line = if k % 7 == 6 {
                    // graph chain through the real driver
                    let rk = 1 + g.r.below(3) as usize;
                    let dims: Vec<String> = (0..rk).map(|_| match g.r.below(5) { 0 => "au".to_string(), 1 => "bu".to_string(), 2 => "4".to_string(), 3 => "1".to_string(), _ => (2 + g.r.below(3)).to_string() }).collect();
                    let n = 2 + g.r.below(5) as usize;
                    let mut ops = vec!["Shape"];
                    if g.r.chance(1, 4) { ops.clear(); }
                    for _ in 0..n {
                        let o = g.r.pick(GOPS);
                        // Where's condition must be boolean (0/1): it always follows a comparison
                        if o == "Where79" && !matches!(ops.last(), Some(&"Equal0") | Some(&"Equal3")) { ops.push(g.r.pick(&["Equal0", "Equal3"])); }
                        ops.push(o);
                    }
                    let envs = g.case("X", vec![], 1, vec![]);
                    format!("G#{}#{}#{}", dims.join(";"), ops.join(";"), envs.split('#').last().unwrap())
                } else if k % 3 == 2 { g.gen_any() } else { g.gen_modelled() };
                writeln!(out, "{}", line).unwrap();
            }
        }
        Some("exec") => {
            let stdin = std::io::stdin();
            let out = std::io::stdout();
            let mut out = out.lock();
            for line in stdin.lock().lines() {
                let line = line.unwrap();
                if line.trim().is_empty() { continue; }
                let (tag, coq) = match no_panic(|| if line.starts_with("G#") { exec_graph_line(&line) } else { exec_line(&line) }) {
                    Some(x) => x,
                    None => ("trivial-harness-panic".to_string(), "{| c_name := \"\"%string; c_op := OOther; c_in := []; c_res := IPanic; c_insts := [] |}".to_string()),
                };
                writeln!(out, "{}\t{}\t{}", tag, line, coq).unwrap();
            }
        }
        Some("hasinfer") => {
            // for each operator name: can it be loaded without attributes, and does it offer inference?
            for name in &args[2..] {
                let (op, domain) = match name.split_once('@') { Some((o, d)) => (o.to_string(), d.to_string()), None => (name.clone(), String::new()) };
                let c = Case { op, domain, attrs: vec![], nout: 1, inputs: vec![], envs: vec![] };
                match load_case_op(&c) {
                    Ok(v) => println!("{}\t{}", name, if v.has_infer() { "infer" } else { "noinfer" }),
                    Err(_) => println!("{}\tneeds-attrs", name),
                }
            }
        }
        _ => eprintln!("usage: c10 gen <seed> <n> <tier> | c10 exec | c10 hasinfer <op>.."),
    }
}
