//! C12 harness.
//!   `c12 gen <seed> <n> <tier>`  prints case lines (operator instances x input dtype vectors, and
//!                                graph cases `G#...`);
//!   `c12 rules`                  reads case lines, prints `key \t nout \t coq rules` for every
//!                                distinct operator instance (the declared rule list, dumped from
//!                                the live operator through the hook) -> OpTypeRules.v;
//!   `c12 exec`                   reads case lines, executes, prints `tag \t line \t coq case`.
use std::collections::BTreeSet;
use std::io::{BufRead, Write};

use rten::verif::shapeinfer::{GNode, TypeRule, build_graph};
use rten::{DataType, Dimension, Value, ValueType};
use rten_shape_inference::SymExpr;
use vh_shapeinfer::cases::*;
use vh_shapeinfer::*;

fn rule_to_coq(r: &TypeRule) -> String {
    match r {
        TypeRule::Fixed(t) => format!("Fixed {}", dtype_name(*t)),
        TypeRule::CopyFromInput(i) => format!("CopyFromInput {}", i),
        TypeRule::ElementTypeOfInputSequence(i) => format!("ElementTypeOfInputSequence {}", i),
        TypeRule::SequenceWithElementTypeOfInput(i) => format!("SequenceWithElementTypeOfInput {}", i),
    }
}
fn rules_to_coq(r: &Option<Vec<TypeRule>>) -> String {
    match r {
        Some(l) => format!("(Some {})", coq_list(l, rule_to_coq)),
        None => "None".to_string(),
    }
}
fn key_of(c: &Case) -> String {
    let line = c.to_line();
    let f: Vec<&str> = line.split('#').collect();
    format!("{}#{}", f[0], f[1])
}
fn vt_of(v: &Value) -> String { dtype_name(v.dtype()) }

fn dt_type(dt: char) -> ValueType {
    ValueType::Tensor(match dt { 'f' => DataType::Float, 'i' => DataType::Int32, 'b' => DataType::Int8, _ => DataType::UInt8 })
}

// ------------------------------------------------------------------ operator cases
fn exec_op_line(line: &str) -> (String, String) {
    let c = Case::parse(line);
    let key = key_of(&c);
    let vop = match load_case_op(&c) {
        Ok(v) => v,
        // the registry rejects this attribute combination: there is no operator, hence no claim
        Err(_) => return (format!("trivial-loadfail:{}", c.op), "CGraph {| g_plan := []; g_decl := []; g_labels := []; g_rt := [] |}".to_string()),
    };
    let env = c.envs.first().cloned().unwrap_or_default();
    let mut conc = vec![];
    let mut ok = true;
    for i in &c.inputs {
        match concrete_input(i, &env) { Ok(x) => conc.push(x), Err(()) => { ok = false; break; } }
    }
    let values: Vec<Option<Value>> = if ok {
        c.inputs.iter().zip(&conc).map(|(i, x)| x.as_ref().map(|(s, d)| make_value(i.dt, s, d))).collect()
    } else { vec![] };
    let out = if ok { no_panic(|| vop.run(&values, c.nout)) } else { None };
    let ins_coq = coq_list(&values, |v| match v { Some(v) => format!("Some {}", vt_of(v)), None => "None".to_string() });
    let (out_coq, ran) = match out {
        Some(Ok(outs)) => (format!("Some {}", coq_list(&outs, vt_of)), true),
        _ => ("None".to_string(), false),
    };
    let dts: String = c.inputs.iter().map(|i| if matches!(i.sym, Sym::Missing) { '-' } else { i.dt }).collect();
    let tag = if ran { format!("op:{}:{}", c.op, dts) } else { format!("trivial-norun:{}", c.op) };
    (tag, format!("COp {{| k_key := \"{}\"%string; k_nout := {}%nat; k_in := {}; k_out := {} |}}", key, c.nout, ins_coq, out_coq))
}

// ------------------------------------------------------------------ graph cases
// `G#<dtype of x>#<op;op;...>`: a chain x -> op1 -> op2 ...; every op consumes the previous value
// (plus constants where it needs more inputs).
struct GOp { op: &'static str, attrs: Vec<(String, Attr)>, extra: Vec<(char, Vec<usize>, Vec<i64>)>, first: bool }

fn gop(name: &str) -> Option<GOp> {
    let a = |n: &str, v: Attr| vec![(n.to_string(), v)];
    let simple = |op: &'static str| GOp { op, attrs: vec![], extra: vec![], first: true };
    Some(match name {
        "CastF" => GOp { op: "Cast", attrs: a("to", Attr::Int(1)), extra: vec![], first: true },
        "CastI" => GOp { op: "Cast", attrs: a("to", Attr::Int(6)), extra: vec![], first: true },
        "CastL" => GOp { op: "Cast", attrs: a("to", Attr::Int(7)), extra: vec![], first: true },
        "CastB" => GOp { op: "Cast", attrs: a("to", Attr::Int(9)), extra: vec![], first: true },
        "CastU" => GOp { op: "Cast", attrs: a("to", Attr::Int(2)), extra: vec![], first: true },
        "Shape" => simple("Shape"), "Size" => simple("Size"), "Neg" => simple("Neg"), "Abs" => simple("Abs"),
        "Relu" => simple("Relu"), "Identity" => simple("Identity"), "Not" => simple("Not"), "IsNaN" => simple("IsNaN"),
        "NonZero" => simple("NonZero"), "Sigmoid" => simple("Sigmoid"), "Flatten" => simple("Flatten"),
        "ArgMax" => GOp { op: "ArgMax", attrs: a("axis", Attr::Int(0)), extra: vec![], first: true },
        "EqualSelf" => GOp { op: "Equal", attrs: vec![], extra: vec![], first: true },
        "AddF" => GOp { op: "Add", attrs: vec![], extra: vec![('f', vec![], vec![1])], first: true },
        "AddI" => GOp { op: "Add", attrs: vec![], extra: vec![('i', vec![], vec![1])], first: true },
        "GreaterF" => GOp { op: "Greater", attrs: vec![], extra: vec![('f', vec![], vec![1])], first: true },
        "WhereCond" => GOp { op: "Where", attrs: vec![], extra: vec![('f', vec![], vec![1]), ('f', vec![], vec![2])], first: true },
        "Quant" => GOp { op: "QuantizeLinear", attrs: vec![], extra: vec![('f', vec![], vec![2]), ('u', vec![], vec![1])], first: true },
        "Dequant" => GOp { op: "DequantizeLinear", attrs: vec![], extra: vec![('f', vec![], vec![2])], first: true },
        "DynQuant" => GOp { op: "DynamicQuantizeLinear", attrs: vec![], extra: vec![], first: true },
        "ReduceSum" => simple("ReduceSum"),
        "SeqEmpty" => simple("SequenceEmpty"),
        "SeqEmptyF" => GOp { op: "SequenceEmpty", attrs: a("dtype", Attr::Int(1)), extra: vec![], first: true },
        "SeqEmptyI" => GOp { op: "SequenceEmpty", attrs: a("dtype", Attr::Int(6)), extra: vec![], first: true },
        "SeqEmptyU" => GOp { op: "SequenceEmpty", attrs: a("dtype", Attr::Int(2)), extra: vec![], first: true },
        "InsSide" => simple("SequenceInsert"),
        "SeqConstruct" => simple("SequenceConstruct"),
        "SeqInsF" => GOp { op: "SequenceInsert", attrs: vec![], extra: vec![('f', vec![2], vec![1])], first: true },
        "SeqInsI" => GOp { op: "SequenceInsert", attrs: vec![], extra: vec![('i', vec![2], vec![1])], first: true },
        "SeqAt" => GOp { op: "SequenceAt", attrs: vec![], extra: vec![('i', vec![], vec![0])], first: true },
        "SeqLen" => simple("SequenceLength"),
        "SeqErase" => simple("SequenceErase"),
        "SplitToSeq" => simple("SplitToSequence"),
        "ConcatSeq" => GOp { op: "ConcatFromSequence", attrs: a("axis", Attr::Int(0)), extra: vec![], first: true },
        "TopK" => GOp { op: "TopK", attrs: vec![], extra: vec![('i', vec![1], vec![1])], first: true },
        "Split2" => GOp { op: "Split", attrs: a("num_outputs", Attr::Int(2)), extra: vec![], first: true },
        "Dropout" => simple("Dropout"),
        "SkipLN" => GOp { op: "SkipLayerNormalization@com.microsoft", attrs: a("epsilon", Attr::Float(0.00001)), extra: vec![('f', vec![2, 3], vec![1]), ('f', vec![3], vec![1])], first: true },
        "ConstOfShape" => simple("ConstantOfShape"),
        _ => return None,
    })
}
const GOPS: &[&str] = &["CastF", "CastI", "CastL", "CastB", "CastU", "Shape", "Size", "Neg", "Abs", "Relu", "Identity", "Not", "IsNaN",
    "NonZero", "Sigmoid", "Flatten", "ArgMax", "EqualSelf", "AddF", "AddI", "GreaterF", "WhereCond", "Quant", "Dequant", "DynQuant",
    "ReduceSum", "ConstOfShape", "TopK", "Split2", "Dropout", "DynQuant", "TopK", "SkipLN",
    "SeqConstruct", "SeqInsF", "SeqInsI", "SeqAt", "SeqLen", "SeqErase", "SplitToSeq", "ConcatSeq", "SeqEmpty;InsSide", "SeqEmptyI;InsSide"];

/// number of outputs of a graph operator token
fn gop_nout(name: &str) -> usize {
    match name { "DynQuant" => 3, "TopK" | "Split2" | "Dropout" => 2, "SkipLN" => 4, _ => 1 }
}

fn vt_list_coq(l: &[(u64, ValueType)]) -> String { coq_list(l, |(k, t)| format!("({}%N, {})", k, dtype_name(*t))) }

fn exec_graph_line(line: &str) -> (String, String) {
    let f: Vec<&str> = line.split('#').collect();
    let xdt = f[1].chars().next().unwrap();
    let ops: Vec<&str> = f[2].split(';').filter(|s| !s.is_empty()).collect();
    let mut nodes: Vec<GNode> = vec![GNode::Value { name: "v0".into(), dtype: Some(dt_type(xdt)), shape: Some(vec![Dimension::Fixed(2), Dimension::Fixed(3)]) }];
    let mut names: Vec<String> = vec!["v0".into()];   // id k <-> names[k]
    let mut decl: Vec<(u64, ValueType)> = vec![(0, dt_type(xdt))];
    let mut plan = vec![];
    let mut prev = "v0".to_string();
    let mut side: Option<String> = None;
    for (k, tok) in ops.iter().enumerate() {
        // token = name[/mask[/next]]: mask = which outputs are connected ('1') or left unused ('0');
        // next = index of the output the chain continues from
        let parts: Vec<&str> = tok.split('/').collect();
        let o = &parts[0];
        let g = match gop(o) { Some(g) => g, None => return ("trivial-badgraph".into(), "COp {| k_key := \"\"%string; k_nout := 0%nat; k_in := []; k_out := None |}".into()) };
        // SeqEmpty* has no inputs and produces the "side" sequence; InsSide inserts the chain value into it
        let mut ins = if o.starts_with("SeqEmpty") { vec![] }
                      else if *o == "InsSide" { match &side { Some(sd) => vec![Some(sd.clone()), Some(prev.clone())], None => break } }
                      else { vec![Some(prev.clone())] };
        if *o == "EqualSelf" { ins.push(Some(prev.clone())); }
        for (j, (dt, shape, vals)) in g.extra.iter().enumerate() {
            let cname = format!("c{}_{}", k, j);
            nodes.push(GNode::Constant { name: cname.clone(), value: make_value(*dt, shape, vals) });
            decl.push((names.len() as u64, dt_type(*dt)));
            names.push(cname.clone());
            ins.push(Some(cname));
        }
        let nout = gop_nout(o);
        let mask: Vec<bool> = match parts.get(1) { Some(m) if m.len() == nout => m.chars().map(|c| c == '1').collect(), _ => vec![true; nout] };
        let mut outs = vec![];
        for j in 0..nout {
            if !mask[j] { outs.push(None); continue; }
            let oname = format!("v{}_{}", k + 1, j);
            nodes.push(GNode::Value { name: oname.clone(), dtype: None, shape: None });
            names.push(oname.clone());
            outs.push(Some(oname));
        }
        let next: usize = parts.get(2).and_then(|x| x.parse().ok()).filter(|j| *j < nout && mask[*j])
            .unwrap_or_else(|| mask.iter().position(|b| *b).unwrap_or(0));
        let present: Vec<bool> = ins.iter().map(|_| true).collect();
        let (opname, domain) = match g.op.split_once('@') { Some((a, b)) => (a, b), None => (g.op, "") };
        let bytes = onnx_model(opname, domain, &g.attrs, &present, nout, OPSET);
        let rules = match no_panic(|| rten::verif::shapeinfer::load_op(&bytes, 0)) { Some(Ok(v)) => v.output_types(nout), _ => None };
        let idx = |n: &Option<String>| -> String { match n { Some(n) => format!("Some {}%N", names.iter().position(|x| x == n).unwrap()), None => "None".into() } };
        plan.push(format!("{{| n_rules := {}; n_in := {}; n_out := {} |}}", rules_to_coq(&rules), coq_list(&ins, idx), coq_list(&outs, idx)));
        nodes.push(GNode::Op { name: format!("op{}", k), model_bytes: bytes, index: 0, inputs: ins, outputs: outs.clone() });
        if o.starts_with("SeqEmpty") { side = outs[0].clone(); continue; }
        prev = match outs[next].clone() { Some(p) => p, None => break };
    }
    let vg = match no_panic(|| build_graph(nodes, &["v0"], &[prev.as_str()])) { Some(Ok(g)) => g, _ => return ("trivial-badgraph".into(), "COp {| k_key := \"\"%string; k_nout := 0%nat; k_in := []; k_out := None |}".into()) };
    let labels: Vec<(u64, ValueType)> = match no_panic(|| vg.infer(false, 10)) {
        Some(Ok(l)) => l.into_iter().filter_map(|(n, _, t)| t.map(|t| (names.iter().position(|x| *x == n).unwrap() as u64, t))).collect(),
        _ => vec![],
    };
    // run-time types: request every value node separately (a failing operator hides only its successors)
    let mut rt: Vec<(u64, ValueType)> = vec![];
    for (id, n) in names.iter().enumerate() {
        if !n.starts_with('v') || n == "v0" { continue; }
        let x = make_value(xdt, &[2, 3], &[1, 0, 2, 3, 0, 1]);
        if let Some(Ok(vals)) = no_panic(|| vg.run(vec![("v0".to_string(), x)], &[n.as_str()])) {
            rt.push((id as u64, vals[0].dtype()));
        }
    }
    rt.push((0, dt_type(xdt)));
    let tag = format!("graph:{}:{}", ops.len(), if rt.len() > 1 { "ran" } else { "norun" });
    (tag, format!("CGraph {{| g_plan := [{}]; g_decl := {}; g_labels := {}; g_rt := {} |}}", plan.join("; "), vt_list_coq(&decl), vt_list_coq(&labels), vt_list_coq(&rt)))
}

// ------------------------------------------------------------------ gen
fn with_dtypes(c: &Case, dts: &[char]) -> Case {
    let mut c = c.clone();
    let mut k = 0;
    for i in c.inputs.iter_mut() {
        if matches!(i.sym, Sym::Missing) { continue; }
        i.dt = same_class(i.dt, dts[k]);
        // value-carrying inputs stay integer-valued; data is reused as is
        k += 1;
    }
    c.envs = vec![(0..4).map(|k| (k, 3)).collect()];   // all symbols = 3: non-empty tensors
    c
}

fn type_specs(g: &mut G) -> Vec<String> {
    let v = |n: i32| SymExpr::Value(n);
    let f = |s: Vec<SymExpr>| G::inp('f', Sym::Shape(s));
    let mut out = vec![];
    for to in [1i64, 2, 3, 6, 7, 9, 10, 11] {
        out.push(g.case("Cast", vec![("to", Attr::Int(to))], 1, vec![f(vec![v(2), v(3)])]));
    }
    for dt in ['f', 'i', 'b', 'u'] {
        out.push(g.case("ConstantOfShape", vec![("value", Attr::Tensor(dt, vec![1], vec![1]))], 1, vec![G::inp('i', Sym::Vector(vec![v(2)]))]));
        out.push(g.case("EyeLike", vec![("dtype", Attr::Int(onnx_dtype(dt) as i64))], 1, vec![f(vec![v(2), v(2)])]));
    }
    out.push(g.case("ConstantOfShape", vec![], 1, vec![G::inp('i', Sym::Vector(vec![v(2)]))]));
    out.push(g.case("EyeLike", vec![], 1, vec![f(vec![v(2), v(2)])]));
    for (op, n) in [("IsNaN", 1), ("IsInf", 1), ("Not", 1), ("Sign", 1), ("Round", 1), ("Shape", 1), ("Size", 1), ("NonZero", 1), ("Identity", 1)] {
        out.push(g.case(op, vec![], n, vec![f(vec![v(2), v(3)])]));
    }
    for op in ["ArgMax", "ArgMin"] { out.push(g.case(op, vec![("axis", Attr::Int(1))], 1, vec![f(vec![v(2), v(3)])])); }
    // one instance of every elementwise / reduction operator, independent of the random draws
    for op in UNARY_OPS { out.push(g.case(op, vec![], 1, vec![f(vec![v(2), v(3)])])); }
    for op in BINARY_OPS.iter().chain(["Add", "Sub", "Mul", "Div", "Equal", "Max", "Min", "Sum", "Mean"].iter()) {
        out.push(g.case(op, vec![], 1, vec![f(vec![v(2), v(3)]), f(vec![v(3)])]));
    }
    for op in REDUCE_OPS { out.push(g.case(op, vec![("keepdims", Attr::Int(0))], 1, vec![f(vec![v(2), v(3)])])); }
    out.push(g.case("Where", vec![], 1, vec![G::inpd('i', Sym::Shape(vec![v(3)]), vec![1, 0]), f(vec![v(3)]), f(vec![v(3)])]));
    out.push(g.case("Neg", vec![], 1, vec![f(vec![v(3)])]));
    out.push(g.case("MatMul", vec![], 1, vec![f(vec![v(2), v(3)]), f(vec![v(3), v(2)])]));
    out.push(g.case("Gemm", vec![], 1, vec![f(vec![v(2), v(3)]), f(vec![v(3), v(2)])]));
    out.push(g.case("Transpose", vec![], 1, vec![f(vec![v(2), v(3)])]));
    out.push(g.case("Flatten", vec![], 1, vec![f(vec![v(2), v(3)])]));
    out.push(g.case("Concat", vec![("axis", Attr::Int(0))], 1, vec![f(vec![v(2)]), f(vec![v(3)])]));
    out.push(g.case("Gather", vec![], 1, vec![f(vec![v(3)]), G::inpd('i', Sym::Shape(vec![v(2)]), vec![0, 1])]));
    out.push(g.case("Squeeze", vec![], 1, vec![f(vec![v(1), v(3)])]));
    out.push(g.case("Unsqueeze", vec![], 1, vec![f(vec![v(3)]), G::inp('i', Sym::Vector(vec![v(0)]))]));
    out.push(g.case("Reshape", vec![], 1, vec![f(vec![v(2), v(3)]), G::inp('i', Sym::Vector(vec![v(3), v(2)]))]));
    out.push(g.case("Expand", vec![], 1, vec![f(vec![v(3)]), G::inp('i', Sym::Vector(vec![v(2), v(3)]))]));
    out.push(g.case("Tile", vec![], 1, vec![f(vec![v(3)]), G::inp('i', Sym::Vector(vec![v(2)]))]));
    out.push(g.case("Split", vec![("num_outputs", Attr::Int(2))], 2, vec![f(vec![v(4)])]));
    out.push(g.case("Pad", vec![], 1, vec![f(vec![v(3)]), G::inp('i', Sym::Vector(vec![v(1), v(1)]))]));
    out.push(g.case("Slice", vec![], 1, vec![f(vec![v(4)]), G::inp('i', Sym::Vector(vec![v(1)])), G::inp('i', Sym::Vector(vec![v(3)]))]));
    out.push(g.case("TopK", vec![("axis", Attr::Int(1))], 2, vec![f(vec![v(2), v(3)]), G::inp('i', Sym::Vector(vec![v(2)]))]));
    out.push(g.case("Range", vec![], 1, vec![G::inp('i', Sym::Scalar(v(0))), G::inp('i', Sym::Scalar(v(4))), G::inp('i', Sym::Scalar(v(1)))]));
    out.push(g.case("OneHot", vec![], 1, vec![G::inpd('i', Sym::Shape(vec![v(2)]), vec![0, 1]), G::inp('i', Sym::Scalar(v(3))), G::inpd('f', Sym::Shape(vec![v(2)]), vec![0, 1])]));
    for dt in ['b', 'u'] {
        out.push(g.case("QuantizeLinear", vec![], 1, vec![f(vec![v(4)]), G::inpd('f', Sym::Shape(vec![]), vec![2]), G::inpd(dt, Sym::Shape(vec![]), vec![1])]));
        out.push(g.case("DequantizeLinear", vec![], 1, vec![G::inp(dt, Sym::Shape(vec![v(4)])), G::inpd('f', Sym::Shape(vec![]), vec![2]), G::inpd(dt, Sym::Shape(vec![]), vec![1])]));
    }
    // attributes that determine the declared type are drawn independently of the input dtypes (the
    // dtype product below then includes the combinations the current code rejects)
    for od in [2i64, 3] {
        out.push(g.case("QuantizeLinear", vec![("output_dtype", Attr::Int(od))], 1, vec![f(vec![v(4)]), G::inpd('f', Sym::Shape(vec![]), vec![2])]));
        for zp in ['b', 'u'] {
            out.push(g.case("QuantizeLinear", vec![("output_dtype", Attr::Int(od))], 1,
                            vec![f(vec![v(4)]), G::inpd('f', Sym::Shape(vec![]), vec![2]), G::inpd(zp, Sym::Shape(vec![]), vec![1])]));
        }
    }
    for dt in [1i64, 6, 2, 3] {
        out.push(g.case("RandomUniform", vec![("shape", Attr::Ints(vec![2, 2])), ("dtype", Attr::Int(dt))], 1, vec![]));
        out.push(g.case("RandomNormal", vec![("shape", Attr::Ints(vec![2, 2])), ("dtype", Attr::Int(dt))], 1, vec![]));
        out.push(g.case("RandomUniformLike", vec![("dtype", Attr::Int(dt))], 1, vec![f(vec![v(2)])]));
        out.push(g.case("RandomNormalLike", vec![("dtype", Attr::Int(dt))], 1, vec![f(vec![v(2)])]));
        out.push(g.case("SequenceEmpty", vec![("dtype", Attr::Int(dt))], 1, vec![]));
        out.push(g.case("Multinomial", vec![("sample_size", Attr::Int(2)), ("dtype", Attr::Int(dt))], 1, vec![G::inpd('f', Sym::Shape(vec![v(1), v(3)]), vec![1])]));
    }
    out.push(g.case("QuantizeLinear", vec![("output_dtype", Attr::Int(3))], 1, vec![f(vec![v(4)]), G::inpd('f', Sym::Shape(vec![]), vec![2])]));
    out.push(g.case("QuantizeLinear", vec![], 1, vec![f(vec![v(4)]), G::inpd('f', Sym::Shape(vec![]), vec![2])]));
    out.push(g.case("DynamicQuantizeLinear", vec![], 3, vec![f(vec![v(2), v(2)])]));
    // sequence operators: sequences (two elements, and EMPTY) of one element type against tensors of
    // every type (the dtype product varies the element types independently)
    let seq = |dt: char| G::inp(dt, Sym::Shape(vec![v(2)]));
    let pos = |p: i32| G::inp('i', Sym::Scalar(v(p)));
    for sdt in ['F', 'G'] {
        out.push(g.case("SequenceInsert", vec![], 1, vec![seq(sdt), f(vec![v(2)])]));
        out.push(g.case("SequenceInsert", vec![], 1, vec![seq(sdt), f(vec![v(2)]), pos(0)]));
        out.push(g.case("SequenceLength", vec![], 1, vec![seq(sdt)]));
    }
    out.push(g.case("SequenceErase", vec![], 1, vec![seq('F')]));
    out.push(g.case("SequenceErase", vec![], 1, vec![seq('F'), pos(0)]));
    out.push(g.case("SequenceAt", vec![], 1, vec![seq('F'), pos(0)]));
    out.push(g.case("SequenceAt", vec![], 1, vec![seq('F'), pos(-1)]));
    out.push(g.case("ConcatFromSequence", vec![("axis", Attr::Int(0))], 1, vec![seq('F')]));
    out.push(g.case("ConcatFromSequence", vec![("axis", Attr::Int(0)), ("new_axis", Attr::Int(1))], 1, vec![seq('F')]));
    out.push(g.case("SequenceConstruct", vec![], 1, vec![f(vec![v(2)])]));
    out.push(g.case("SequenceConstruct", vec![], 1, vec![f(vec![v(2)]), f(vec![v(3)]), f(vec![v(1)])]));
    out.push(g.case("SplitToSequence", vec![("axis", Attr::Int(0))], 1, vec![f(vec![v(4), v(2)]), G::inp('i', Sym::Vector(vec![v(1), v(3)]))]));
    out.push(g.case("SplitToSequence", vec![("keepdims", Attr::Int(0))], 1, vec![f(vec![v(4), v(2)])]));
    out.push(g.case("SequenceEmpty", vec![], 1, vec![]));
    out.push(g.case("SequenceEmpty", vec![("dtype", Attr::Int(6))], 1, vec![]));
    out.push(g.case("SequenceConstruct", vec![], 1, vec![f(vec![v(2)]), f(vec![v(3)])]));
    out.push(g.case("SplitToSequence", vec![], 1, vec![f(vec![v(4), v(2)])]));
    out.push(g.case("RandomUniform", vec![("shape", Attr::Ints(vec![2, 2]))], 1, vec![]));
    out.push(g.case("RandomNormal", vec![("shape", Attr::Ints(vec![2, 2]))], 1, vec![]));
    out.push(g.case("RandomUniformLike", vec![], 1, vec![f(vec![v(2)])]));
    out.push(g.case("RandomNormalLike", vec![], 1, vec![f(vec![v(2)])]));
    out.push(g.case("Multinomial", vec![("sample_size", Attr::Int(2))], 1, vec![G::inpd('f', Sym::Shape(vec![v(1), v(3)]), vec![1])]));
    out.push(g.case("Mod", vec![("fmod", Attr::Int(1))], 1, vec![f(vec![v(3)]), f(vec![v(3)])]));
    out.push(g.case("ReverseSequence", vec![], 1, vec![f(vec![v(3), v(2)]), G::inpd('i', Sym::Shape(vec![v(2)]), vec![1, 2])]));
    out.push(g.case("Scatter", vec![], 1, vec![f(vec![v(3)]), G::inpd('i', Sym::Shape(vec![v(2)]), vec![0, 1]), f(vec![v(2)])]));
    for op in ["BiasGelu@com.microsoft", "FastGelu@com.microsoft", "Gelu@com.microsoft", "QuickGelu@com.microsoft"] {
        let ins = if op.starts_with("BiasGelu") { vec![f(vec![v(2), v(3)]), f(vec![v(3)])] } else { vec![f(vec![v(2), v(3)])] };
        out.push(g.case(op, vec![], 1, ins));
    }
    for op in ["SimplifiedLayerNormalization", "SkipSimplifiedLayerNormalization@com.microsoft"] {
        let ins = if op.starts_with("Skip") { vec![f(vec![v(2), v(3)]), f(vec![v(2), v(3)]), f(vec![v(3)])] } else { vec![f(vec![v(2), v(3)]), f(vec![v(3)])] };
        out.push(g.case(op, vec![("epsilon", Attr::Float(0.00001))], 1, ins));
    }
    out
}

fn gen_lines(seed: u64, n: usize) -> Vec<String> {
    let mut g = G { r: SplitMix64(seed ^ 0xC12) };
    let mut base: Vec<String> = type_specs(&mut g);
    for k in 0..n { base.push(if k % 2 == 0 { g.gen_any() } else { g.gen_modelled() }); }
    let mut seen = BTreeSet::new();
    let mut out = vec![];
    let all = ['f', 'i', 'b', 'u'];
    for line in base {
        let c = Case::parse(&line);
        let nin = c.inputs.iter().filter(|i| !matches!(i.sym, Sym::Missing)).count();
        let orig: Vec<char> = c.inputs.iter().filter(|i| !matches!(i.sym, Sym::Missing)).map(|i| i.dt).collect();
        let mut vecs: Vec<Vec<char>> = vec![orig.clone()];
        if nin > 0 && nin <= 3 {
            // full product
            let total = 4usize.pow(nin as u32);
            for m in 0..total { let mut x = m; vecs.push((0..nin).map(|_| { let d = all[x % 4]; x /= 4; d }).collect()); }
        } else if nin > 3 {
            for d in all { vecs.push(vec![d; nin]); }
            for k in 0..nin { for d in all { let mut v2 = orig.clone(); v2[k] = d; vecs.push(v2); } }
        }
        for v in vecs {
            let cv = with_dtypes(&c, &v);
            let l = cv.to_line();
            let dts: String = cv.inputs.iter().map(|i| if matches!(i.sym, Sym::Missing) { '-' } else { i.dt }).collect();
            let key = { let f: Vec<&str> = l.split('#').collect(); format!("{}#{}#{}#{}", f[0], f[1], f[2], dts) };
            // one representative per (operator instance, dtype vector, input structure class)
            if seen.insert(key) { out.push(l); }
        }
    }
    // graph chains
    // every multi-output operator with every non-empty subset of its outputs connected, the chain
    // continuing from each connected output (unused LEADING outputs shift a buggy zip)
    for (op, nout) in [("TopK", 2usize), ("Split2", 2), ("Dropout", 2), ("DynQuant", 3), ("SkipLN", 4)] {
        for m in 1..(1u32 << nout) {
            let mask: String = (0..nout).map(|j| if m & (1 << j) != 0 { '1' } else { '0' }).collect();
            for j in 0..nout {
                if m & (1 << j) == 0 { continue; }
                let tail = g.r.pick(&["Identity", "CastI", "CastF", "Shape", "Neg"]);
                out.push(format!("G#f#{}/{}/{};{}", op, mask, j, tail));
            }
        }
    }
    // sequences built from an EMPTY sequence of every declared type (incl. no dtype attribute) or by
    // SequenceConstruct, receiving the chain tensor (f32 or i32) or a constant of either type
    for xdt in ['f', 'i'] {
        for e in ["SeqEmpty", "SeqEmptyF", "SeqEmptyI", "SeqEmptyU"] {
            for tail in ["SeqAt;CastF", "SeqAt;CastI", "SeqLen", "SeqInsF;SeqAt", "SeqInsI;SeqAt", "ConcatSeq", "SeqErase;SeqLen"] {
                out.push(format!("G#{}#{};InsSide;{}", xdt, e, tail));
            }
        }
        for tail in ["SeqInsF;SeqAt;CastI", "SeqInsI;SeqAt;CastF", "SeqErase;SeqInsI;SeqAt", "SeqErase;SeqInsF;SeqAt", "ConcatSeq;CastF", "SeqLen"] {
            out.push(format!("G#{}#SeqConstruct;{}", xdt, tail));
            out.push(format!("G#{}#SplitToSeq;{}", xdt, tail));
        }
    }
    for _ in 0..(n / 2 + 40) {
        let k = 1 + g.r.below(4) as usize;
        let ops: Vec<String> = (0..k).map(|_| {
            let o = g.r.pick(GOPS);
            let nout = gop_nout(o);
            if nout == 1 { return o.to_string(); }
            let m = 1 + g.r.below((1u64 << nout) - 1) as u32;
            let mask: String = (0..nout).map(|j| if m & (1 << j) != 0 { '1' } else { '0' }).collect();
            let used: Vec<usize> = (0..nout).filter(|j| m & (1 << j) != 0).collect();
            format!("{}/{}/{}", o, mask, g.r.pick(&used))
        }).collect();
        out.push(format!("G#{}#{}", g.r.pick(&['f', 'i']), ops.join(";")));
    }
    out
}

fn main() {
    quiet_panics();
    let args: Vec<String> = std::env::args().collect();
    let stdin = std::io::stdin();
    let out = std::io::stdout();
    let mut out = out.lock();
    match args.get(1).map(|s| s.as_str()) {
        Some("gen") => {
            let seed: u64 = args[2].parse().unwrap();
            let n: usize = args[3].parse().unwrap();
            for l in gen_lines(seed, n) { writeln!(out, "{}", l).unwrap(); }
        }
        Some("rules") => {
            let mut seen = BTreeSet::new();
            for line in stdin.lock().lines() {
                let line = line.unwrap();
                if line.trim().is_empty() || line.starts_with("G#") { continue; }
                let c = Case::parse(&line);
                let key = key_of(&c);
                if !seen.insert((key.clone(), c.nout)) { continue; }
                if let Ok(v) = load_case_op(&c) {
                    writeln!(out, "{}\t{}\t{}\t{}", key, c.nout, rules_to_coq(&v.output_types(c.nout)), v.name()).unwrap();
                }
            }
        }
        Some("exec") => {
            for line in stdin.lock().lines() {
                let line = line.unwrap();
                if line.trim().is_empty() { continue; }
                let r = if line.starts_with("G#") { no_panic(|| exec_graph_line(&line)) } else { no_panic(|| exec_op_line(&line)) };
                let (tag, coq) = r.unwrap_or(("trivial-harness-panic".to_string(), "COp {| k_key := \"\"%string; k_nout := 0%nat; k_in := []; k_out := None |}".to_string()));
                writeln!(out, "{}\t{}\t{}", tag, line, coq).unwrap();
            }
        }
        _ => eprintln!("usage: c12 gen <seed> <n> <tier> | c12 rules | c12 exec"),
    }
}
