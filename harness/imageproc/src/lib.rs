//! Shared helpers for the imageproc correspondence harness binaries (C35, C36).
pub struct SplitMix64(pub u64);
impl SplitMix64 {
    pub fn next(&mut self) -> u64 {
        self.0 = self.0.wrapping_add(0x9E3779B97F4A7C15);
        let mut z = self.0;
        z = (z ^ (z >> 30)).wrapping_mul(0xBF58476D1CE4E5B9);
        z = (z ^ (z >> 27)).wrapping_mul(0x94D049BB133111EB);
        z ^ (z >> 31)
    }
    pub fn below(&mut self, n: u64) -> u64 {
        if n == 0 { 0 } else { self.next() % n }
    }
    /// Uniform integer in [lo, hi] (inclusive).
    pub fn range(&mut self, lo: i64, hi: i64) -> i64 {
        lo + self.below((hi - lo + 1) as u64) as i64
    }
    pub fn pick<T: Copy>(&mut self, xs: &[T]) -> T {
        xs[self.below(xs.len() as u64) as usize]
    }
    pub fn chance(&mut self, num: u64, den: u64) -> bool {
        self.below(den) < num
    }
}

/// Run `f`, mapping a panic to None.
pub fn no_panic<T>(f: impl FnOnce() -> T + std::panic::UnwindSafe) -> Option<T> {
    std::panic::catch_unwind(f).ok()
}

pub fn quiet_panics() {
    std::panic::set_hook(Box::new(|_| {}));
}

/// Coq `Z` literal (negative numbers parenthesised).
pub fn z(v: i64) -> String {
    if v < 0 { format!("({})", v) } else { v.to_string() }
}

/// Coq list of (y, x) pairs of Z.
pub fn coq_points(ps: &[(i64, i64)]) -> String {
    let v: Vec<String> = ps.iter().map(|&(y, x)| format!("({},{})", z(y), z(x))).collect();
    format!("[{}]", v.join(";"))
}

pub fn parse_ints(s: &str) -> Vec<i64> {
    s.split(',').filter(|t| !t.trim().is_empty()).map(|t| t.trim().parse::<i64>().unwrap()).collect()
}
