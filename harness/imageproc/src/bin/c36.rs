//! C36 correspondence: contour tracing and drawing primitives of rten-imageproc (public API).
//!
//!   c36 gen <seed> <n> <tier>     print input lines
//!   c36 exec                      read input lines, print `tag \t input \t coq-case`
//!
//! Input lines:
//!   C|<E|L>|h|w|<h*w chars 0/1>            find_contours(mask, External|List)
//!   D|h|w|F|t,l,b,r                        fill_rect
//!   D|h|w|S|t,l,b,r,width                  stroke_rect
//!   D|h|w|L|sy,sx,ey,ex,width              draw_line
//!   D|h|w|P|width,y0,x0,y1,x1,...          draw_polygon
//!   D|h|w|A|width,y0,x0,y1,x1,...          Painter::draw_polygon on a 4-channel surface
//!
//! Drawing calls get a view that is the centre of a larger zeroed tensor (guard band of 2
//! pixels on every side); the outcome is the set of pixels of the view that changed, and
//! whether anything outside the view changed.
use rten_imageproc::{
    draw_line, draw_polygon, fill_rect, find_contours, stroke_rect, Line, Painter, Point, Rect,
    RetrievalMode,
};
use rten_tensor::prelude::*;
use rten_tensor::{NdTensor, NdTensorView};
use std::io::{BufRead, Write};
use std::sync::mpsc;
use std::time::Duration;
use vh_imageproc::*;

const GUARD: usize = 2;

// ---------------------------------------------------------------- contours
enum CImpl {
    Done(Vec<Vec<(i64, i64)>>),
    Panic,
    Timeout,
}

fn run_contours(h: usize, w: usize, bits: Vec<bool>, external: bool) -> CImpl {
    let (tx, rx) = mpsc::channel();
    std::thread::spawn(move || {
        let r = no_panic(move || {
            let mask = NdTensor::<bool, 2>::from_data([h, w], bits);
            let view: NdTensorView<bool, 2> = mask.view();
            let mode = if external { RetrievalMode::External } else { RetrievalMode::List };
            let polys = find_contours(view, mode);
            let mut out = Vec::new();
            for poly in polys.iter() {
                out.push(poly.iter().map(|p| (p.y as i64, p.x as i64)).collect::<Vec<_>>());
            }
            out
        });
        let _ = tx.send(r);
    });
    match rx.recv_timeout(Duration::from_secs(3)) {
        Ok(Some(cs)) => CImpl::Done(cs),
        Ok(None) => CImpl::Panic,
        Err(_) => CImpl::Timeout,
    }
}

#[allow(dead_code)]
fn coq_mask(h: usize, w: usize, bits: &[bool]) -> String {
    let rows: Vec<String> = (0..h)
        .map(|y| {
            let r: Vec<&str> = (0..w).map(|x| if bits[y * w + x] { "true" } else { "false" }).collect();
            format!("[{}]", r.join(";"))
        })
        .collect();
    format!("[{}]", rows.join(";"))
}

static TIMEOUTS: std::sync::atomic::AtomicUsize = std::sync::atomic::AtomicUsize::new(0);

fn exec_contours(line: &str) -> String {
    // Bound the run time when the implementation hangs: after 10 watchdog timeouts (each of
    // which is already reported as a failing case) the remaining contour inputs are not run.
    if TIMEOUTS.load(std::sync::atomic::Ordering::Relaxed) >= 10 {
        return format!("trivial-skipped-after-10-timeouts\t{}\t{{| c_mask := []; c_mode := ListMode; c_impl := CDone [] |}}", line);
    }
    let f: Vec<&str> = line.split('|').collect();
    let external = f[1] == "E";
    let h: usize = f[2].parse().unwrap();
    let w: usize = f[3].parse().unwrap();
    let bits: Vec<bool> = f[4].chars().map(|c| c == '1').collect();
    assert_eq!(bits.len(), h * w);
    let nfg = bits.iter().filter(|&&b| b).count();
    let r = run_contours(h, w, bits.clone(), external);
    let ncont = match &r {
        CImpl::Done(cs) => cs.len() as i64,
        CImpl::Panic => -1,
        CImpl::Timeout => {
            TIMEOUTS.fetch_add(1, std::sync::atomic::Ordering::Relaxed);
            -2
        }
    };
    let size = if h * w <= 12 { "small" } else if h * w <= 36 { "mid" } else { "large" };
    let tag = if nfg == 0 {
        "trivial-empty-mask".to_string()
    } else {
        let nc = match ncont { -2 => "timeout", -1 => "panic", 0 => "c0", 1 => "c1", 2..=3 => "c2-3", _ => "c4+" };
        format!("contours-{}-{}-{}", if external { "ext" } else { "list" }, size, nc)
    };
    let md = if external { "External" } else { "ListMode" };
    let mbits = hex_bits(&bits);
    let term = match &r {
        CImpl::Done(cs) => {
            let compact = cs.iter().all(|c| c.iter().all(|&(y, x)| (0..16).contains(&y) && (0..16).contains(&x)));
            if compact {
                // one number per contour: sentinel 1, then a byte y*16+x per point
                let v: Vec<String> = cs
                    .iter()
                    .map(|c| {
                        let mut t = String::from("0x1");
                        for &(y, x) in c {
                            t.push_str(&format!("{:x}{:x}", y, x));
                        }
                        t
                    })
                    .collect();
                format!("mkc {} {} {} {} [{}]", h, w, mbits, md, v.join(";"))
            } else {
                let v: Vec<String> = cs.iter().map(|c| coq_points(c)).collect();
                format!("mkc_plain {} {} {} {} (CDone [{}])", h, w, mbits, md, v.join(";"))
            }
        }
        CImpl::Panic => format!("mkc_plain {} {} {} {} CPanic", h, w, mbits, md),
        CImpl::Timeout => format!("mkc_plain {} {} {} {} CTimeout", h, w, mbits, md),
    };
    format!("{}\t{}\t{}", tag, line, term)
}

// ---------------------------------------------------------------- drawing
/// Hex literal whose bit i is bits[i].
fn hex_bits(bits: &[bool]) -> String {
    if !bits.iter().any(|&b| b) {
        return "0".to_string();
    }
    let n = (bits.len() + 3) / 4;
    let mut s = String::from("0x");
    for d in (0..n).rev() {
        let mut v = 0u32;
        for k in 0..4 {
            let i = d * 4 + k;
            if i < bits.len() && bits[i] {
                v |= 1 << k;
            }
        }
        s.push(std::char::from_digit(v, 16).unwrap());
    }
    s
}

fn pt(y: i64, x: i64) -> Point {
    Point::from_yx(y as i32, x as i32)
}

/// Returns (changed pixels of the view, guard untouched) or None on panic.
fn run_draw(h: usize, w: usize, kind: &str, a: &[i64]) -> Option<(Vec<bool>, bool)> {
    let kind = kind.to_string();
    let a = a.to_vec();
    no_panic(move || {
        let (hh, ww) = (h + 2 * GUARD, w + 2 * GUARD);
        if kind == "A" {
            let mut store = NdTensor::<u8, 3>::zeros([4, hh, ww]);
            {
                let surface = store.slice_mut((.., GUARD..GUARD + h, GUARD..GUARD + w));
                let mut painter = Painter::new(surface);
                painter.set_stroke([1, 2, 3]);
                painter.set_stroke_width(a[0] as u32);
                let pts: Vec<Point> = a[1..].chunks(2).map(|c| pt(c[0], c[1])).collect();
                painter.draw_polygon(&pts);
            }
            let mut bits = vec![false; h * w];
            let mut guard = true;
            for c in 0..4 {
                for y in 0..hh {
                    for x in 0..ww {
                        let v = store[[c, y, x]];
                        if v == 0 {
                            continue;
                        }
                        let inside = y >= GUARD && y < GUARD + h && x >= GUARD && x < GUARD + w;
                        // colour channels must receive their own stroke value; channel 3 is not drawn
                        if !inside || c == 3 || v != (c as u8 + 1) {
                            guard = false;
                        } else {
                            bits[(y - GUARD) * w + (x - GUARD)] = true;
                        }
                    }
                }
            }
            return (bits, guard);
        }
        let mut store = NdTensor::<u8, 2>::zeros([hh, ww]);
        {
            let view = store.slice_mut((GUARD..GUARD + h, GUARD..GUARD + w));
            match kind.as_str() {
                "F" => fill_rect(view, Rect::from_tlbr(a[0] as i32, a[1] as i32, a[2] as i32, a[3] as i32), 1),
                "S" => stroke_rect(view, Rect::from_tlbr(a[0] as i32, a[1] as i32, a[2] as i32, a[3] as i32), 1, a[4] as u32),
                "L" => draw_line(view, Line::from_endpoints(pt(a[0], a[1]), pt(a[2], a[3])), 1, a[4] as u32),
                "P" => {
                    let pts: Vec<Point> = a[1..].chunks(2).map(|c| pt(c[0], c[1])).collect();
                    draw_polygon(view, &pts, 1, a[0] as u32)
                }
                _ => panic!("bad kind"),
            }
        }
        let mut bits = vec![false; h * w];
        let mut guard = true;
        for y in 0..hh {
            for x in 0..ww {
                if store[[y, x]] != 0 {
                    let inside = y >= GUARD && y < GUARD + h && x >= GUARD && x < GUARD + w;
                    if inside {
                        bits[(y - GUARD) * w + (x - GUARD)] = true;
                    } else {
                        guard = false;
                    }
                }
            }
        }
        (bits, guard)
    })
}

fn coq_pts_flat(a: &[i64]) -> String {
    let v: Vec<(i64, i64)> = a.chunks(2).map(|c| (c[0], c[1])).collect();
    coq_points(&v)
}

fn exec_draw(line: &str) -> String {
    let f: Vec<&str> = line.split('|').collect();
    let h: usize = f[1].parse().unwrap();
    let w: usize = f[2].parse().unwrap();
    let kind = f[3];
    let a = parse_ints(f[4]);
    let prim = match kind {
        "F" => format!("PFillRect (from_tlbr {} {} {} {})", z(a[0]), z(a[1]), z(a[2]), z(a[3])),
        "S" => format!("PStrokeRect (from_tlbr {} {} {} {}) {}", z(a[0]), z(a[1]), z(a[2]), z(a[3]), z(a[4])),
        "L" => format!("PLine ({},{}) ({},{}) {}", z(a[0]), z(a[1]), z(a[2]), z(a[3]), z(a[4])),
        "P" => format!("PPolygon {} {}", coq_pts_flat(&a[1..]), z(a[0])),
        "A" => format!("PPainter {} {}", coq_pts_flat(&a[1..]), z(a[0])),
        _ => panic!("bad kind"),
    };
    let r = run_draw(h, w, kind, &a);
    // classify the input: where does the shape's bounding box lie relative to the image?
    let (ys, xs): (Vec<i64>, Vec<i64>) = match kind {
        "F" | "S" => (vec![a[0], a[2] - 1], vec![a[1], a[3] - 1]),
        "L" => (vec![a[0], a[2]], vec![a[1], a[3]]),
        _ => (a.iter().skip(1).step_by(2).cloned().collect(), a.iter().skip(2).step_by(2).cloned().collect()),
    };
    let place = if ys.is_empty() {
        "noverts"
    } else {
        let (y0, y1) = (*ys.iter().min().unwrap(), *ys.iter().max().unwrap());
        let (x0, x1) = (*xs.iter().min().unwrap(), *xs.iter().max().unwrap());
        let degenerate = match kind { "F" | "S" => a[2] <= a[0] || a[3] <= a[1], "L" => a[0] == a[2] && a[1] == a[3], _ => ys.len() < 2 };
        if degenerate {
            "degenerate"
        } else if ys.iter().chain(xs.iter()).any(|v| v.abs() >= 100_000) {
            "huge"
        } else if y0 >= 0 && x0 >= 0 && y1 < h as i64 && x1 < w as i64 {
            "inside"
        } else if y1 < 0 || x1 < 0 || y0 >= h as i64 || x0 >= w as i64 {
            "outside"
        } else {
            "partly"
        }
    };
    let width = match kind { "F" => 1, "S" | "L" => a[4], _ => a[0] };
    let wcls = match width { 0 => "w0", 1 => "w1", _ => "wide" };
    let tag = format!(
        "draw-{}-{}-{}{}",
        match kind { "F" => "fill", "S" => "stroke", "L" => "line", "P" => "polygon", _ => "painter" },
        place,
        wcls,
        if h == 0 || w == 0 { "-emptyimg" } else { "" }
    );
    let term = match &r {
        Some((bits, g)) => format!("mkd {} {} ({}) {} {}", h, w, prim, hex_bits(bits), g),
        None => format!("mkd_panic {} {} ({})", h, w, prim),
    };
    format!("{}\t{}\t{}", tag, line, term)
}

// ---------------------------------------------------------------- generators
fn mask_line(external: bool, h: usize, w: usize, bits: &[bool]) -> String {
    let s: String = bits.iter().map(|&b| if b { '1' } else { '0' }).collect();
    format!("C|{}|{}|{}|{}", if external { "E" } else { "L" }, h, w, s)
}

fn gen_contours(rng: &mut SplitMix64, n: usize, tier: &str, out: &mut impl Write) {
    // 1. exhaustive small scope
    let thorough = tier == "thorough";
    for h in 0..=4usize {
        for w in 0..=4usize {
            let cells = h * w;
            let full = if thorough { cells <= 12 } else { cells <= 9 };
            if !full {
                continue;
            }
            for code in 0..(1u32 << cells) {
                let bits: Vec<bool> = (0..cells).map(|i| (code >> i) & 1 == 1).collect();
                for ext in [false, true] {
                    writeln!(out, "{}", mask_line(ext, h, w, &bits)).unwrap();
                }
            }
        }
    }
    // 2. random sample of the 3x4 / 4x3 / 4x4 masks (quick tier samples what thorough enumerates)
    for _ in 0..n / 4 {
        let (h, w) = rng.pick(&[(3usize, 4usize), (4, 3), (4, 4), (2, 6), (6, 2)]);
        let code = rng.next();
        let bits: Vec<bool> = (0..h * w).map(|i| (code >> i) & 1 == 1).collect();
        writeln!(out, "{}", mask_line(rng.chance(1, 2), h, w, &bits)).unwrap();
    }
    // 3. random and structured masks up to 12x12
    for _ in 0..n {
        let h = 1 + rng.below(12) as usize;
        let w = 1 + rng.below(12) as usize;
        let mut bits = vec![false; h * w];
        match rng.below(8) {
            0..=3 => {
                let dens = 15 + rng.below(75);
                for b in bits.iter_mut() {
                    *b = rng.below(100) < dens;
                }
            }
            4 => {
                // nested rectangles outlines (components inside holes)
                let mut k = 0;
                while 2 * k < h.min(w) {
                    if rng.chance(2, 3) {
                        for y in k..h - k {
                            for x in k..w - k {
                                if y == k || y == h - 1 - k || x == k || x == w - 1 - k {
                                    bits[y * w + x] = true;
                                }
                            }
                        }
                    }
                    k += 1 + rng.below(2) as usize;
                }
            }
            5 => {
                // a few filled blobs
                for _ in 0..1 + rng.below(4) {
                    let (y0, x0) = (rng.below(h as u64) as usize, rng.below(w as u64) as usize);
                    let (bh, bw) = (1 + rng.below(4) as usize, 1 + rng.below(4) as usize);
                    for y in y0..(y0 + bh).min(h) {
                        for x in x0..(x0 + bw).min(w) {
                            bits[y * w + x] = true;
                        }
                    }
                }
                // punch holes
                for _ in 0..rng.below(4) {
                    let i = rng.below((h * w) as u64) as usize;
                    bits[i] = false;
                }
            }
            6 => {
                // diagonals / checkerboard: 8-connected but not 4-connected
                let phase = rng.below(2) as usize;
                let step = 1 + rng.below(3) as usize;
                for y in 0..h {
                    for x in 0..w {
                        bits[y * w + x] = (x + y * step) % (step + 1) == phase;
                    }
                }
            }
            _ => {
                // dense with a few holes
                for b in bits.iter_mut() {
                    *b = true;
                }
                for _ in 0..1 + rng.below(6) {
                    let i = rng.below((h * w) as u64) as usize;
                    bits[i] = false;
                }
            }
        }
        writeln!(out, "{}", mask_line(rng.chance(1, 2), h, w, &bits)).unwrap();
    }
}

/// `allow_huge`: 0 = all coordinates inside the image, 1 = near/far outside too, 2 = also huge values.
fn coord(rng: &mut SplitMix64, dim: usize, allow_huge: u8) -> i64 {
    let d = dim as i64;
    if allow_huge == 0 {
        return rng.range(0, d.max(1) - 1);
    }
    match rng.below(if allow_huge == 2 { 12 } else { 10 }) {
        0..=3 => rng.range(0, d.max(1) - 1),
        4..=6 => rng.range(-4, d + 4),
        7 => rng.pick(&[-1, 0, d - 1, d, d + 1]),
        8..=9 => rng.range(-40, d + 40),
        _ => rng.pick(&[-(1i64 << 30), 1i64 << 30, -1_000_000, 1_000_000, 65_536, -65_537, (1i64 << 30) - 1]),
    }
}

fn join(a: &[i64]) -> String {
    a.iter().map(|v| v.to_string()).collect::<Vec<_>>().join(",")
}

fn gen_draw(rng: &mut SplitMix64, n: usize, out: &mut impl Write) {
    // fixed edge cases first
    for l in [
        "D|5|5|F|2,2,8,8", "D|5|5|F|-1,0,2,2", "D|5|5|F|0,-1,2,2", "D|5|5|F|10,10,12,12", "D|0|5|F|0,0,3,3",
        "D|8|8|S|1,1,4,4,5", "D|8|8|S|-2,-2,3,3,1", "D|12|12|S|2,2,5,5,6", "D|10|10|L|-5,3,-1,7,1",
        "D|0|5|L|0,0,0,4,1", "D|0|5|L|-1,0,1,4,1", "D|5|0|L|0,0,3,0,1", "D|10|10|L|-3,-3,4,4,3",
        "D|10|10|L|0,0,100,10,1", "D|6|6|P|1,-2,-2,3,8,8,3", "D|6|6|A|1,-2,-2,3,8,8,3", "D|6|6|A|3,-2,-2,3,8,8,3",
    ] {
        writeln!(out, "{}", l).unwrap();
    }
    for _ in 0..n {
        let h = match rng.below(10) { 0 => 0, 1 => 1, _ => 1 + rng.below(12) as usize };
        let w = match rng.below(10) { 0 => 0, 1 => 1, _ => 1 + rng.below(12) as usize };
        let kind = rng.below(10);
        // a quarter of the shapes lie fully inside the image
        let inside_only = rng.chance(1, 4);
        let pl = |huge: bool| -> u8 { if inside_only { 0 } else if huge { 2 } else { 1 } };
        match kind {
            0..=1 => {
                let (t, l) = (coord(rng, h, pl(true)), coord(rng, w, pl(true)));
                let (b, r) = if rng.chance(3, 4) { (t + rng.range(0, 8), l + rng.range(0, 8)) } else { (coord(rng, h, pl(true)), coord(rng, w, pl(true))) };
                let (b, r) = if inside_only { (b.min(h as i64), r.min(w as i64)) } else { (b, r) };
                writeln!(out, "D|{}|{}|F|{}", h, w, join(&[t, l, b, r])).unwrap();
            }
            2..=3 => {
                let (t, l) = (coord(rng, h, pl(true)), coord(rng, w, pl(true)));
                let (b, r) = if rng.chance(3, 4) { (t + rng.range(0, 9), l + rng.range(0, 9)) } else { (coord(rng, h, pl(true)), coord(rng, w, pl(true))) };
                let (b, r) = if inside_only { (b.min(h as i64), r.min(w as i64)) } else { (b, r) };
                let wd = match rng.below(8) { 0 => 0, 1..=3 => 1, 4 => 2, 5 => 3, 6 => rng.range(4, 12), _ => 65_536 };
                writeln!(out, "D|{}|{}|S|{}", h, w, join(&[t, l, b, r, wd])).unwrap();
            }
            4..=6 => {
                let wd = match rng.below(8) { 0 => 0, 1..=4 => 1, 5 => 2, 6 => 3, _ => rng.range(4, 7) };
                let huge = wd <= 1;
                let (sy, sx) = (coord(rng, h, pl(huge)), coord(rng, w, pl(huge)));
                let (ey, ex) = match rng.below(8) {
                    0 => (sy, sx),
                    1 => (sy, coord(rng, w, pl(huge))),
                    2 => (coord(rng, h, pl(huge)), sx),
                    _ => (coord(rng, h, pl(huge)), coord(rng, w, pl(huge))),
                };
                writeln!(out, "D|{}|{}|L|{}", h, w, join(&[sy, sx, ey, ex, wd])).unwrap();
            }
            _ => {
                let wd = match rng.below(8) { 0 => 0, 1..=5 => 1, 6 => 2, _ => 3 };
                let huge = wd <= 1;
                let nv = match rng.below(8) { 0 => 0, 1 => 1, 2 => 2, _ => 3 + rng.below(4) as usize };
                let mut a = vec![wd];
                for _ in 0..nv {
                    a.push(coord(rng, h, pl(huge)));
                    a.push(coord(rng, w, pl(huge)));
                }
                writeln!(out, "D|{}|{}|{}|{}", h, w, if kind == 9 { "A" } else { "P" }, join(&a)).unwrap();
            }
        }
    }
}

fn main() {
    quiet_panics();
    let args: Vec<String> = std::env::args().collect();
    let stdout = std::io::stdout();
    let mut out = std::io::BufWriter::new(stdout.lock());
    match args.get(1).map(|s| s.as_str()) {
        Some("gen") => {
            let seed: u64 = args[2].parse().unwrap();
            let n: usize = args[3].parse().unwrap();
            let mut rng = SplitMix64(seed);
            gen_draw(&mut rng, n, &mut out);
            gen_contours(&mut rng, n, &args[4], &mut out);
        }
        Some("exec") => {
            for line in std::io::stdin().lock().lines() {
                let line = line.unwrap();
                if line.trim().is_empty() {
                    continue;
                }
                let r = if line.starts_with("C|") { exec_contours(&line) } else { exec_draw(&line) };
                writeln!(out, "{}", r).unwrap();
            }
            out.flush().unwrap();
            // leaked watchdog threads (timeouts) must not keep the process alive
            std::process::exit(0);
        }
        _ => {
            eprintln!("usage: c36 gen <seed> <n> <tier> | c36 exec");
            std::process::exit(2);
        }
    }
}
