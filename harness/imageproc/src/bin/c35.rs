//! C35 correspondence: convex_hull, simplify_polyline/simplify_polygon, min_area_rect
//! (rten-imageproc public API) on integer-coordinate point sets.
//!
//!   c35 gen <seed> <n> <tier>     print input lines
//!   c35 exec                      read input lines, print `tag \t input \t coq-case`
//!
//! Input lines (coordinates are integers, given as x0,y0,x1,y1,...):
//!   H|x0,y0,...                 convex_hull
//!   S|<P|L>|eps4|x0,y0,...      simplify_polygon / simplify_polyline with epsilon = eps4/4
//!   R|x0,y0,...                 min_area_rect
//!
//! Every line may end with a field `|@k,ox,oy` (SCALED family): the coordinates handed to the
//! implementation are (x+ox)*2^k, (y+oy)*2^k, epsilon is (eps4/4)*2^k.  These are exactly
//! representable, and so are all coordinate differences and their pairwise products, so the
//! f32 orientation tests stay exact at every scale; the results are mapped back (divided by 2^k)
//! and the exact oracle runs on the integer pre-images x+ox, y+oy.
//!
//! Floats are never printed as decimals: distances and sort keys go out as order-preserving
//! integer encodings of their f32 bit patterns, rectangle parameters as exact dyadics (m, e).
use rten_imageproc::{convex_hull, min_area_rect, simplify_polygon, simplify_polyline, Line, PointF, Vec2};
use std::io::{BufRead, Write};
use vh_imageproc::*;

#[derive(Clone, Copy)]
struct Scale {
    k: i32,
    ox: i64,
    oy: i64,
}

impl Scale {
    fn f(&self) -> f32 {
        2f32.powi(self.k)
    }
    fn tag(&self) -> String {
        if self.k == 0 && self.ox == 0 && self.oy == 0 {
            String::new()
        } else {
            format!("-s{}{}", self.k, if self.ox != 0 || self.oy != 0 { if self.ox.abs() > 1000 || self.oy.abs() > 1000 { "-faroff" } else { "-off" } } else { "" })
        }
    }
}

/// Split a trailing `@k,ox,oy` field off the input line's fields.
fn split_scale<'a>(f: &mut Vec<&'a str>) -> Scale {
    if let Some(last) = f.last() {
        if let Some(rest) = last.strip_prefix('@') {
            let v = parse_ints(rest);
            f.pop();
            return Scale { k: v[0] as i32, ox: v[1], oy: v[2] };
        }
    }
    Scale { k: 0, ox: 0, oy: 0 }
}

/// Integer pre-images (x+ox, y+oy).
fn pre_images(a: &[i64], sc: Scale) -> Vec<(i64, i64)> {
    a.chunks(2).map(|c| (c[0] + sc.ox, c[1] + sc.oy)).collect()
}

fn pts_of(a: &[i64], sc: Scale) -> Vec<PointF> {
    // (c + o) is an integer below 2^24, the multiplication by a power of two is exact
    pre_images(a, sc).iter().map(|&(x, y)| PointF::from_yx(y as f32 * sc.f(), x as f32 * sc.f())).collect()
}

fn coq_pts_xy(ps: &[(i64, i64)]) -> String {
    // (x, y) pairs; coq_points prints pairs in the given order
    coq_points(ps)
}

fn as_int(v: f32) -> Option<i64> {
    if v.is_finite() && v == v.trunc() && v.abs() < 1e9 { Some(v as i64) } else { None }
}

/// Order-preserving integer key of an f32 under total_cmp (with -0.0 mapped to +0.0).
fn key(v: f32) -> i64 {
    let v = if v == 0.0 { 0.0f32 } else { v };
    let b = v.to_bits();
    (if b & 0x8000_0000 != 0 { !b } else { b | 0x8000_0000 }) as i64
}

/// Exact dyadic (m, e) with value m * 2^e; non-finite values get e = 1000000.
fn dyadic(v: f32, shift: i32) -> String {
    if !v.is_finite() {
        return "(0, 1000000)".to_string();
    }
    let b = v.to_bits();
    let sign = if b >> 31 != 0 { -1i64 } else { 1 };
    let exp = ((b >> 23) & 0xff) as i64;
    let man = (b & 0x7f_ffff) as i64;
    let (m, e) = if exp == 0 { (man, -149) } else { (man | 0x80_0000, exp - 150) };
    format!("({}, {})", z(sign * m), z(e - shift as i64))
}

/// Map output points back to the integer pre-images (exact division by 2^k); None if some
/// output coordinate is not one of those integers.
fn out_points(v: &[PointF], sc: Scale) -> Option<Vec<(i64, i64)>> {
    v.iter().map(|p| Some((as_int(p.x / sc.f())?, as_int(p.y / sc.f())?))).collect()
}

fn exec_hull(line: &str, a: &[i64], sc: Scale) -> String {
    let pts = pts_of(a, sc);
    let xy = pre_images(a, sc);
    // sort keys exactly as convex_hull computes them (public Vec2/PointF methods)
    let min_point = pts.iter().min_by(|a, b| {
        if a.y != b.y { (-a.y).total_cmp(&-b.y) } else { a.x.total_cmp(&b.x) }
    }).copied();
    let keys: Vec<String> = pts.iter().map(|&p| {
        let mp = min_point.unwrap();
        let ang = if p == mp { f32::MIN } else { mp.vec_to(p).normalized().dot(Vec2::from_yx(0., 1.)) };
        let dist = mp.vec_to(p).length();
        format!("({},{})", z(key(ang)), z(key(dist)))
    }).collect();
    let p2 = pts.clone();
    let r = no_panic(move || convex_hull(&p2));
    let imp = match r.as_ref().and_then(|h| out_points(h, sc)) {
        Some(h) => format!("Some {}", coq_pts_xy(&h)),
        None => "None".to_string(),
    };
    let mut distinct = xy.clone();
    distinct.sort();
    distinct.dedup();
    let collinear = distinct.len() >= 3 && {
        let (a0, b0) = (distinct[0], distinct[1]);
        distinct.iter().all(|&c| (b0.0 - a0.0) * (c.1 - a0.1) - (b0.1 - a0.1) * (c.0 - a0.0) == 0)
    };
    let tag = if xy.is_empty() {
        "trivial-hull-empty".to_string()
    } else {
        format!("hull{}-n{}{}{}-h{}", sc.tag(), match distinct.len() { 1 => "1", 2 => "2", 3..=5 => "3-5", _ => "6+" },
            if distinct.len() < xy.len() { "-dups" } else { "" },
            if collinear { "-collinear" } else { "" },
            match r.as_ref().map(|h| h.len()) { None => "panic".to_string(), Some(k) if k <= 2 => k.to_string(), Some(k) if k <= 4 => "3-4".to_string(), Some(_) => "5+".to_string() })
    };
    format!("{}\t{}\tCHull {} [{}] ({})", tag, line, coq_pts_xy(&xy), keys.join(";"), imp)
}

fn exec_simp(line: &str, closed: bool, eps4: i64, a: &[i64], sc: Scale) -> String {
    let pts = pts_of(a, sc);
    let xy = pre_images(a, sc);
    let eps = eps4 as f32 / 4.0 * sc.f();
    // distance table over point ids; the closing point of a polygon is point 0 again
    let mut ids: Vec<usize> = (0..pts.len()).collect();
    if closed && !pts.is_empty() {
        ids.push(0);
    }
    let mut seen = std::collections::BTreeSet::new();
    let mut tbl = Vec::new();
    for i in 0..ids.len() {
        for j in i + 1..ids.len() {
            for k in i + 1..j {
                let kk = (ids[i], ids[j], ids[k]);
                if seen.insert(kk) {
                    let d = Line::from_endpoints(pts[ids[i]], pts[ids[j]]).distance(pts[ids[k]]);
                    // NaN distances cannot occur on finite integer coordinates
                    tbl.push(format!("(({},{},{}),{})", kk.0, kk.1, kk.2, z(key(d))));
                }
            }
        }
    }
    let p2 = pts.clone();
    let r = no_panic(move || if closed { simplify_polygon(&p2, eps) } else { simplify_polyline(&p2, eps) });
    let imp = match r.as_ref().and_then(|h| out_points(h, sc)) {
        Some(h) => format!("Some {}", coq_pts_xy(&h)),
        None => "None".to_string(),
    };
    let tag = if xy.is_empty() {
        format!("trivial-simp-empty-{}", if closed { "polygon" } else { "polyline" })
    } else {
        let kept = r.as_ref().map(|h| h.len()).unwrap_or(0);
        format!("simp{}-{}-n{}-{}", sc.tag(), if closed { "polygon" } else { "polyline" },
            match xy.len() { 1 => "1", 2 => "2", 3..=5 => "3-5", _ => "6+" },
            if r.is_none() { "panic" } else if kept == xy.len() { "keptall" } else if kept <= 2 { "kept<=2" } else { "keptsome" })
    };
    format!("{}\t{}\tCSimp {} {} {} {} [{}] ({})", tag, line, closed, coq_pts_xy(&xy), z(eps4), z(key(eps)), tbl.join(";"), imp)
}

fn exec_rect(line: &str, a: &[i64], sc: Scale) -> String {
    let pts = pts_of(a, sc);
    let xy = pre_images(a, sc);
    let p2 = pts.clone();
    let r = no_panic(move || min_area_rect(&p2));
    let imp = match &r {
        None => "None".to_string(),
        Some(None) => "(Some None)".to_string(),
        Some(Some(rr)) => format!(
            "(Some (Some {{| rr_cx := {}; rr_cy := {}; rr_ux := {}; rr_uy := {}; rr_w := {}; rr_h := {} |}}))",
            // centre and extents in pre-image units (exact: exponent shifted by -k); the up axis is a unit vector
            dyadic(rr.center().x, sc.k), dyadic(rr.center().y, sc.k), dyadic(rr.up_axis().x, 0), dyadic(rr.up_axis().y, 0),
            dyadic(rr.width(), sc.k), dyadic(rr.height(), sc.k)),
    };
    let tag = if xy.is_empty() {
        "trivial-rect-empty".to_string()
    } else {
        let rot = match &r { Some(Some(rr)) => if rr.up_axis().x != 0.0 && rr.up_axis().y != 0.0 { "rotated" } else { "axis" }, _ => "none" };
        format!("rect{}-n{}-{}", sc.tag(), match xy.len() { 1 => "1", 2 => "2", 3..=5 => "3-5", _ => "6+" }, rot)
    };
    format!("{}\t{}\tCRect {} {}", tag, line, coq_pts_xy(&xy), imp)
}

fn exec_line(line: &str) -> String {
    let mut f: Vec<&str> = line.split('|').collect();
    let sc = split_scale(&mut f);
    match f[0] {
        "H" => exec_hull(line, &parse_ints(f[1]), sc),
        "S" => exec_simp(line, f[1] == "P", f[2].parse().unwrap(), &parse_ints(f[3]), sc),
        "R" => exec_rect(line, &parse_ints(f[1]), sc),
        _ => panic!("bad line {}", line),
    }
}

// ---------------------------------------------------------------- generators
fn join(a: &[i64]) -> String {
    a.iter().map(|v| v.to_string()).collect::<Vec<_>>().join(",")
}

fn point_set(rng: &mut SplitMix64) -> Vec<i64> {
    let n = match rng.below(12) { 0 => 0, 1 => 1, 2 => 2, 3 => 3, _ => 3 + rng.below(10) as usize };
    let r = rng.pick(&[2i64, 3, 5, 8, 8, 8]);
    let mut a: Vec<i64> = Vec::new();
    let kind = rng.below(10);
    for i in 0..n {
        let (x, y) = match kind {
            // collinear runs: points on a common line through a base point, any slope
            0..=1 => {
                let (dx, dy) = (rng.range(-2, 2), rng.range(-2, 2));
                let t = rng.range(-3, 3);
                if i % 3 == 2 { (rng.range(-r, r), rng.range(-r, r)) } else { (t * dx, t * dy) }
            }
            // points on a coarse lattice: many collinear triples and equal angles
            2..=3 => (rng.range(-2, 2) * (r / 2).max(1), rng.range(-2, 2) * (r / 2).max(1)),
            // duplicates
            4 => {
                if i > 0 && rng.chance(1, 2) {
                    let j = rng.below(i as u64) as usize;
                    (a[2 * j], a[2 * j + 1])
                } else {
                    (rng.range(-r, r), rng.range(-r, r))
                }
            }
            // rays from the bottom-left point (first ray / last ray of the Graham scan)
            5 => {
                let k = rng.range(0, 4);
                match rng.below(4) { 0 => (-r + k, r - k), 1 => (-r + k, r), 2 => (-r, r - k), _ => (rng.range(-r, r), rng.range(-r, r)) }
            }
            _ => (rng.range(-r, r), rng.range(-r, r)),
        };
        a.push(x);
        a.push(y);
    }
    a
}

fn generate(seed: u64, n: usize, tier: &str, out: &mut impl Write) {
    let mut rng = SplitMix64(seed);
    // small-scope exhaustive: all point triples/quadruples on a 3x3 lattice for the hull (order matters)
    let lattice: Vec<(i64, i64)> = (-1..=1).flat_map(|x| (-1..=1).map(move |y| (x, y))).collect();
    let k = if tier == "thorough" { 4 } else { 3 };
    let total = 9usize.pow(k as u32);
    for code in 0..total {
        let mut c = code;
        let mut a = Vec::new();
        for _ in 0..k {
            let p = lattice[c % 9];
            c /= 9;
            a.push(p.0);
            a.push(p.1);
        }
        // a quarter of the lattice sets at tiny extent, a quarter tiny and far from the origin
        match code % 4 {
            1 => writeln!(out, "H|{}|@-14,0,0", join(&a)).unwrap(),
            3 => writeln!(out, "H|{}|@-18,1048576,-4096", join(&a)).unwrap(),
            _ => writeln!(out, "H|{}", join(&a)).unwrap(),
        }
        if code % 7 == 0 {
            writeln!(out, "S|{}|{}|{}", if code % 2 == 0 { "P" } else { "L" }, code % 5, join(&a)).unwrap();
        }
    }
    for _ in 0..n {
        let a = point_set(&mut rng);
        // SCALED families: half of the cases are multiplied by 2^k (tiny and large extents) and
        // translated by a dyadic offset; everything stays exactly representable
        let k: i64 = if rng.chance(1, 2) { 0 } else { rng.pick(&[-18i64, -14, -14, -10, -4, 8, 14]) };
        let small_off = |rng: &mut SplitMix64| if rng.chance(1, 2) { (0, 0) } else { (rng.range(-64, 64), rng.range(-64, 64)) };
        match rng.below(10) {
            0..=3 => {
                // only coordinate differences enter convex_hull: far offsets stay exact too
                let (ox, oy) = match rng.below(4) {
                    0 => (0, 0),
                    1 => (rng.range(-64, 64), rng.range(-64, 64)),
                    _ => (rng.pick(&[1i64 << 20, -(1i64 << 20), 4096, 999_983]), rng.pick(&[1i64 << 20, -(1i64 << 19), -4096, 65_537])),
                };
                if k == 0 && ox == 0 && oy == 0 {
                    writeln!(out, "H|{}", join(&a)).unwrap()
                } else {
                    writeln!(out, "H|{}|@{},{},{}", join(&a), k, ox, oy).unwrap()
                }
            }
            4..=7 => {
                let eps4 = match rng.below(6) { 0 => 0, 1 => 1, 2 => 2, 3 => 4, _ => rng.range(0, 40) };
                let (ox, oy) = small_off(&mut rng);
                let kind = if rng.chance(1, 2) { "P" } else { "L" };
                if k == 0 && ox == 0 && oy == 0 {
                    writeln!(out, "S|{}|{}|{}", kind, eps4, join(&a)).unwrap()
                } else {
                    writeln!(out, "S|{}|{}|{}|@{},{},{}", kind, eps4, join(&a), k, ox, oy).unwrap()
                }
            }
            _ => {
                let (ox, oy) = small_off(&mut rng);
                if k == 0 && ox == 0 && oy == 0 {
                    writeln!(out, "R|{}", join(&a)).unwrap()
                } else {
                    writeln!(out, "R|{}|@{},{},{}", join(&a), k, ox, oy).unwrap()
                }
            }
        }
    }
}

fn main() {
    quiet_panics();
    let args: Vec<String> = std::env::args().collect();
    let stdout = std::io::stdout();
    let mut out = std::io::BufWriter::new(stdout.lock());
    match args.get(1).map(|s| s.as_str()) {
        Some("gen") => {
            let seed: u64 = args[2].parse().unwrap();
            let n: usize = args[3].parse().unwrap();
            generate(seed, n, &args[4], &mut out);
        }
        Some("exec") => {
            for line in std::io::stdin().lock().lines() {
                let line = line.unwrap();
                if line.trim().is_empty() {
                    continue;
                }
                writeln!(out, "{}", exec_line(&line)).unwrap();
            }
        }
        _ => {
            eprintln!("usage: c35 gen <seed> <n> <tier> | c35 exec");
            std::process::exit(2);
        }
    }
}
