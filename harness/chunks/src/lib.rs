//! Shared helpers for the `chunks` correspondence harness (C29).
use rten_text::TokenId;
use rten_text::models::{DecodeError, EncodeError, Model};

pub struct SplitMix64(pub u64);
impl SplitMix64 {
    pub fn next(&mut self) -> u64 {
        self.0 = self.0.wrapping_add(0x9E3779B97F4A7C15);
        let mut z = self.0;
        z = (z ^ (z >> 30)).wrapping_mul(0xBF58476D1CE4E5B9);
        z = (z ^ (z >> 27)).wrapping_mul(0x94D049BB133111EB);
        z ^ (z >> 31)
    }
    pub fn below(&mut self, n: u64) -> u64 {
        if n == 0 { 0 } else { self.next() % n }
    }
    pub fn pick<T: Copy>(&mut self, xs: &[T]) -> T {
        xs[self.below(xs.len() as u64) as usize]
    }
    pub fn chance(&mut self, num: u64, den: u64) -> bool {
        self.below(den) < num
    }
}

pub const CLS_ID: TokenId = 1;
pub const SEP_ID: TokenId = 2;
/// A character that the model refuses to encode.
pub const BAD_CHAR: char = '!';

/// The simplest possible public `Model`: every `char` of the input is one token whose id is
/// the char's scalar value.  `[CLS]` and `[SEP]` are the only named tokens.  This makes the
/// "full encoding" of a text predictable, so that the chunking logic of
/// `Tokenizer::encode_chunks` is the only thing under test.
pub struct CharModel;

impl Model for CharModel {
    fn get_token_id(&self, token: &str) -> Option<TokenId> {
        match token {
            "[CLS]" => Some(CLS_ID),
            "[SEP]" => Some(SEP_ID),
            _ => None,
        }
    }
    fn get_token_str(&self, id: TokenId) -> Option<String> {
        match id {
            CLS_ID => Some("[CLS]".into()),
            SEP_ID => Some("[SEP]".into()),
            _ => char::from_u32(id).map(|c| c.to_string()),
        }
    }
    fn encode_with_offsets(
        &self,
        text: &str,
        on_token: &mut dyn FnMut(usize, TokenId),
    ) -> Result<(), EncodeError> {
        for (i, c) in text.char_indices() {
            if c == BAD_CHAR {
                return Err(EncodeError::TokenIdNotFound(c.to_string()));
            }
            on_token(i, c as u32);
        }
        Ok(())
    }
    fn decode(&self, ids: &[TokenId]) -> Result<String, DecodeError> {
        ids.iter()
            .map(|&id| self.get_token_str(id).ok_or(DecodeError::InvalidTokenId(id)))
            .collect()
    }
}

pub fn quiet_panics() {
    std::panic::set_hook(Box::new(|_| {}));
}
