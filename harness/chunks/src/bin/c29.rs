//! C29 correspondence: `Tokenizer::encode_chunks` for single and paired inputs, reached only
//! through the public API of rten-text (`chunks_with_overlap` is private to the crate, so it is
//! exercised through the tokenizer).
//!
//!   c29 gen <seed> <n> <tier>     print input lines
//!   c29 exec                      read input lines, print `tag \t input \t coq-case`
//!
//! Input line: `K|n1|n2|limit|overlap|cls|sep|bad`
//!   K       I = EncoderInput::Item(first), P = EncoderInput::Pair((first, second))
//!   n1,n2   number of tokens (= chars) of the first / second sequence
//!   limit   `-` = max_chunk_len None, otherwise the usize value
//!   cls,sep 0 = not configured, 1 = configured and in the vocabulary, 2 = configured but unknown
//!   bad     0 = both sequences encode, 1 = the model fails on the first, 2 = on the second
//!
//! Token ids are predictable: token i of the first sequence has id 256+i, token j of the
//! second has id 4096+j, [CLS] = 1, [SEP] = 2.
use rten_text::tokenizer::{EncodeOptions, EncoderInput, Tokenizer, TokenizerOptions};
use std::io::{BufRead, Write};
use vh_chunks::*;

const FIRST_BASE: u32 = 256;
const SECOND_BASE: u32 = 4096;

#[derive(Clone, Debug)]
struct Input {
    pair: bool,
    n1: usize,
    n2: usize,
    limit: Option<usize>,
    overlap: usize,
    cls: u8,
    sep: u8,
    bad: u8,
}

fn parse(line: &str) -> Input {
    let f: Vec<&str> = line.trim().split('|').collect();
    assert!(f.len() == 8, "malformed input line {line:?}");
    Input {
        pair: f[0] == "P",
        n1: f[1].parse().unwrap(),
        n2: f[2].parse().unwrap(),
        limit: if f[3] == "-" { None } else { Some(f[3].parse().unwrap()) },
        overlap: f[4].parse().unwrap(),
        cls: f[5].parse().unwrap(),
        sep: f[6].parse().unwrap(),
        bad: f[7].parse().unwrap(),
    }
}

fn fmt_input(i: &Input) -> String {
    format!(
        "{}|{}|{}|{}|{}|{}|{}|{}",
        if i.pair { "P" } else { "I" },
        i.n1,
        i.n2,
        i.limit.map(|l| l.to_string()).unwrap_or("-".into()),
        i.overlap,
        i.cls,
        i.sep,
        i.bad
    )
}

fn text(base: u32, n: usize, bad: bool) -> String {
    let mut s: String = (0..n).map(|i| char::from_u32(base + i as u32).unwrap()).collect();
    if bad {
        s.push(BAD_CHAR);
    }
    s
}

enum Outcome {
    /// (token ids, number of tokens with token_type_id 0) per chunk
    Chunks(Vec<(Vec<u32>, usize)>),
    Err,
    Panic,
}

fn run(i: &Input) -> Outcome {
    let first = text(FIRST_BASE, i.n1, i.bad == 1);
    let second = text(SECOND_BASE, i.n2, i.bad == 2);
    let special = |k: u8, known: &'static str| match k {
        0 => None,
        1 => Some(known),
        _ => Some("[NOPE]"),
    };
    let tokenizer = Tokenizer::new(
        CharModel,
        TokenizerOptions { cls_token: special(i.cls, "[CLS]"), sep_token: special(i.sep, "[SEP]") },
    );
    let opts = EncodeOptions { max_chunk_len: i.limit, overlap: i.overlap };
    let pair = i.pair;
    let r = std::panic::catch_unwind(std::panic::AssertUnwindSafe(|| {
        let input = if pair {
            EncoderInput::Pair((first.as_str(), second.as_str()))
        } else {
            EncoderInput::Item(first.as_str())
        };
        tokenizer.encode_chunks(input, opts).map(|chunks| {
            chunks
                .iter()
                .map(|c| (c.token_ids().to_vec(), c.token_type_ids().filter(|&t| t == 0).count()))
                .collect::<Vec<_>>()
        })
    }));
    match r {
        Err(_) => Outcome::Panic,
        Ok(Err(_)) => Outcome::Err,
        Ok(Ok(chunks)) => Outcome::Chunks(chunks),
    }
}

/// Run-length form of a token id list: `(a,n)` stands for a, a+1, .., a+n-1 (Coq: `ck`).
fn coq_runs(ids: &[u32]) -> String {
    let mut runs: Vec<(u32, u32)> = vec![];
    for &x in ids {
        match runs.last_mut() {
            Some((a, n)) if *a + *n == x => *n += 1,
            _ => runs.push((x, 1)),
        }
    }
    let v: Vec<String> = runs.iter().map(|(a, n)| format!("({},{})", a, n)).collect();
    v.join(";")
}

fn coq_special(k: u8, id: u32) -> String {
    match k {
        0 => "SpNone".into(),
        1 => format!("SpTok {}", id),
        _ => "SpUnknown".into(),
    }
}

fn exec_line(line: &str) -> String {
    let i = parse(line);
    let out = run(&i);
    let (tag, impl_term) = match &out {
        Outcome::Panic => ("panic".to_string(), "PanicOut".to_string()),
        Outcome::Err => ("err".to_string(), "ErrOut".to_string()),
        Outcome::Chunks(chs) => {
            let cs: Vec<String> = chs
                .iter()
                .map(|(ids, n0)| format!("ck [{}] {}", coq_runs(ids), n0))
                .collect();
            let overhead = (i.cls == 1) as usize + (i.sep == 1) as usize * if i.pair { 2 } else { 1 };
            let fixed = overhead + if i.pair { i.n1 } else { 0 };
            let shape = match chs.len() {
                0 => "trivial-nochunks".to_string(),
                1 => "single".to_string(),
                n => {
                    let last = chs[n - 1].0.len();
                    let prev = chs[n - 2].0.len();
                    let rem = last < prev;
                    format!(
                        "multi{}{}",
                        if i.overlap > 0 { "-ov" } else { "" },
                        if rem { "-rem" } else { "" }
                    )
                }
            };
            let _ = fixed;
            (shape, format!("Chunks [{}]", cs.join(";")))
        }
    };
    let kind = if i.pair { "pair" } else { "item" };
    let sp = match (i.cls, i.sep) {
        (0, 0) => "plain",
        (1, 0) => "cls",
        (0, 1) => "sep",
        (1, 1) => "clssep",
        _ => "unk",
    };
    let optn = |bad: bool, n: usize| if bad { "None".to_string() } else { format!("(Some {})", n) };
    let term = format!(
        "mkc {} {} {} {} {} ({}) ({}) ({})",
        i.pair,
        optn(i.bad == 1, i.n1),
        optn(i.bad == 2, i.n2),
        match i.limit {
            None => "None".to_string(),
            Some(l) => format!("(Some {})", l),
        },
        i.overlap,
        coq_special(i.cls, CLS_ID),
        coq_special(i.sep, SEP_ID),
        impl_term
    );
    let tag = if tag.starts_with("trivial") {
        format!("trivial-{}-{}-nochunks", kind, sp)
    } else {
        format!("{}-{}-{}", kind, sp, tag)
    };
    format!("{}\t{}\t{}", tag, fmt_input(&i), term)
}

fn generate(seed: u64, n: usize, tier: &str, out: &mut impl Write) {
    let thorough = tier == "thorough";
    let mut emit = |i: &Input| writeln!(out, "{}", fmt_input(i)).unwrap();
    // 0. regression anchors: the F15 witness from split.rs's own unit test
    //    ([3,4,5,6,7,8], size 3, overlap 1) through Item and through Pair, and the
    //    short-second-sequence pair (overlap >= number of second-sequence tokens).
    for (pair, n1, n2, limit, overlap, cls, sep) in [
        (false, 6, 0, Some(3), 1, 0, 0),
        (false, 6, 0, Some(5), 1, 1, 1),
        (true, 2, 6, Some(5), 1, 0, 0),
        (true, 2, 6, Some(8), 1, 1, 1),
        (true, 1, 2, Some(100), 2, 1, 1),
        (true, 1, 2, None, 2, 1, 1),
        (false, 2, 0, None, 2, 1, 1),
    ] {
        emit(&Input { pair, n1, n2, limit, overlap, cls, sep, bad: 0 });
    }
    // 1. exhaustive small scope.
    //    Single inputs: all lengths <= 12 x limits {None, 0..=L} x overlaps <= O x {CLS, SEP}
    //    present/absent, (L, O) = (8, 5) quick / (12, 8) thorough.
    let flags = [(0u8, 0u8), (1, 0), (0, 1), (1, 1)];
    let limits = |max: usize| -> Vec<Option<usize>> {
        let mut v: Vec<Option<usize>> = (0..=max).map(Some).collect();
        v.push(None);
        v
    };
    let (il, io) = if thorough { (12, 8) } else { (8, 5) };
    for n1 in 0..=12 {
        for limit in limits(il) {
            for overlap in 0..=io {
                for (cls, sep) in flags {
                    emit(&Input { pair: false, n1, n2: 0, limit, overlap, cls, sep, bad: 0 });
                }
            }
        }
    }
    //    Pairs.  Limits are taken relative to the part of the budget that is fixed for the
    //    pair (special tokens + first sequence): None, 0, fixed-1 (no room), fixed+d for
    //    d = 0..=D -- absolute limits <= 8 would leave no room for the second sequence as soon
    //    as the first has a few tokens.
    //    quick: first in {0,1,2}, second <= 8, D = 6, overlaps <= 3, mixed CLS/SEP thinned;
    //    thorough: first in {0,1,2,3,5,8,12}, second <= 12, D = 9, overlaps <= 8, all CLS/SEP.
    let firsts: &[usize] = if thorough { &[0, 1, 2, 3, 5, 8, 12] } else { &[0, 1, 2] };
    let (m2, md, mo) = if thorough { (12, 9, 8) } else { (8, 6, 3) };
    for &n1 in firsts {
        for n2 in 0..=m2 {
            for (cls, sep) in flags {
                let fixed = n1 + cls as usize + 2 * sep as usize;
                let mut lims: Vec<Option<usize>> = vec![None, Some(0)];
                if fixed >= 2 {
                    lims.push(Some(fixed - 1));
                }
                for d in 0..=md {
                    if fixed + d > 0 {
                        lims.push(Some(fixed + d));
                    }
                }
                for limit in lims {
                    for overlap in 0..=mo {
                        if !thorough && cls != sep && (n1 + n2 + overlap) % 2 == 1 {
                            continue;
                        }
                        emit(&Input { pair: true, n1, n2, limit, overlap, cls, sep, bad: 0 });
                    }
                }
            }
        }
    }
    // 2. seeded random: longer sequences, limits around the special-token overhead and around
    //    the sequence lengths, extreme usize values, unknown special tokens, encoding failures.
    let mut rng = SplitMix64(seed);
    let big: [usize; 6] = [usize::MAX, usize::MAX - 1, usize::MAX - 2, usize::MAX - 3, usize::MAX - 4, 1 << 63];
    for _ in 0..n {
        let pair = rng.chance(1, 2);
        let n1 = if pair { rng.below(20) as usize } else { rng.below(60) as usize };
        let n2 = if pair { rng.below(60) as usize } else { 0 };
        let cls = if rng.chance(1, 25) { 2 } else { rng.below(2) as u8 };
        let sep = if rng.chance(1, 25) { 2 } else { rng.below(2) as u8 };
        let bad = if rng.chance(1, 25) { 1 + rng.below(2) as u8 } else { 0 };
        let overhead = (cls == 1) as usize + (sep == 1) as usize * if pair { 2 } else { 1 };
        let fixed = overhead + if pair { n1 } else { 0 };
        let content = if pair { n2 } else { n1 };
        let limit = match rng.below(12) {
            0 => None,
            1 => Some(rng.pick(&big)),
            2 => Some(rng.below(4) as usize),                       // below the overhead
            3 => Some(fixed + rng.below(2) as usize),               // no room / one token
            4 => Some(fixed + content + rng.below(3) as usize),     // everything fits (just)
            5 => Some((fixed + content).saturating_sub(1)),         // one token too many
            _ => Some(fixed + 1 + rng.below(16) as usize),
        };
        let window = limit.map(|l| l.saturating_sub(fixed)).unwrap_or(content);
        let overlap = match rng.below(10) {
            0 => 0,
            1 => window,                                            // overlap == window
            2 => window.saturating_sub(1),                          // stride 1
            3 => window.saturating_add(1 + rng.below(3) as usize),  // overlap > window
            4 => rng.pick(&big),
            5 => content,                                           // overlap == #tokens
            _ => rng.below(window.min(20) as u64 + 1) as usize,
        };
        emit(&Input { pair, n1, n2, limit, overlap, cls, sep, bad });
    }
}

fn main() {
    quiet_panics();
    let args: Vec<String> = std::env::args().collect();
    let stdout = std::io::stdout();
    let mut out = std::io::BufWriter::new(stdout.lock());
    match args.get(1).map(|s| s.as_str()) {
        Some("gen") => {
            let seed: u64 = args[2].parse().unwrap();
            let n: usize = args[3].parse().unwrap();
            generate(seed, n, &args[4], &mut out);
        }
        Some("exec") => {
            for line in std::io::stdin().lock().lines() {
                let line = line.unwrap();
                if line.trim().is_empty() {
                    continue;
                }
                writeln!(out, "{}", exec_line(&line)).unwrap();
            }
        }
        _ => {
            eprintln!("usage: c29 gen <seed> <n> <tier> | c29 exec");
            std::process::exit(2);
        }
    }
}
