//! C07 correspondence: drive the real rten-tensor iterators with consumption histories.
//!
//!   c07 gen <seed> <n> <tier>   print input lines `kind;variant;shape;strides;a,b;history`
//!   c07 exec                    read input lines, print `tag \t input \t coq-case`
//!
//! Every test view is built directly from (shape, strides) over storage `data[i] = i`, so the
//! value of an element IS its storage offset relative to the view.  Mutable kinds add MARK to
//! every element they are handed through `&mut`; a second hand-out of the same element then
//! shows up as a value >= MARK in the observation (and in `c_mut_ok`).
use rten_tensor::prelude::*;
use rten_tensor::{TensorView, TensorViewMut};
use std::io::{BufRead, Write};
use vh_iter::*;

const MARK: u64 = 1 << 32;

fn view_elems(v: &TensorView<E>) -> Vec<usize> {
    all_indices(v.shape()).iter().map(|idx| *v.get(idx.as_slice()).unwrap() as usize).collect()
}

fn view_elems_mut(v: &mut TensorViewMut<E>) -> Vec<usize> {
    let shape: Vec<usize> = v.shape().to_vec();
    all_indices(&shape)
        .iter()
        .map(|idx| {
            let x = v.get_mut(idx.as_slice()).unwrap();
            let o = *x;
            *x = o + MARK;
            o as usize
        })
        .collect()
}

fn min_data_len(shape: &[usize], strides: &[usize]) -> usize {
    if shape.iter().any(|&s| s == 0) {
        return 0;
    }
    shape.iter().zip(strides).map(|(&n, &s)| (n - 1) * s).sum::<usize>() + 1
}

fn product(shape: &[usize]) -> usize {
    shape.iter().product()
}

/// Number of items the spec says a fresh iterator of this kind yields.
fn spec_len(kind: &str, shape: &[usize], a: usize, b: usize) -> usize {
    match kind {
        "iter" | "itermut" => product(shape),
        "lanes" | "lanesmut" => {
            if product(shape) == 0 { 0 } else { product(shape) / shape[a] }
        }
        "lane" | "lanemut" => shape[a],
        "inner" | "innermut" => product(&shape[..shape.len() - a]),
        "axisiter" | "axisitermut" => shape[a],
        "chunks" | "chunksmut" | "rchunks" => shape[a].div_ceil(b.max(1)),
        _ => panic!("unknown kind {}", kind),
    }
}

fn is_mut(kind: &str) -> bool {
    kind.ends_with("mut")
}

struct Outcome {
    obs: Obs,
    mut_ok: bool,
}

fn exec_case(kind: &str, variant: &str, shape: &[usize], strides: &[usize], a: usize, b: usize, h: &Hist) -> Outcome {
    let n = min_data_len(shape, strides);
    let mut data: Vec<E> = (0..n as u64).collect();
    let nd = variant == "nd";
    let rank = shape.len();

    let show_ref = |x: &E| vec![*x as usize];
    let show_mut = |x: &mut E| {
        let o = *x;
        *x = o + MARK;
        vec![o as usize]
    };
    let show_view = |v: TensorView<E>| view_elems(&v);
    let show_view_mut = |mut v: TensorViewMut<E>| view_elems_mut(&mut v);

    macro_rules! nd_dispatch {
        ($n:expr, $m:ident) => {
            match $n {
                1 => $m!(1),
                2 => $m!(2),
                3 => $m!(3),
                4 => $m!(4),
                _ => panic!("nd variant needs rank 1..4"),
            }
        };
    }

    let obs = if kind == "rchunks" {
        // rten_base::iter::range_chunks(0..n, chunk): same contract as AxisChunks over a 1-D axis
        run(rten_base::iter::range_chunks(0..shape[0], b), h, &|r: std::ops::Range<usize>| r.collect())
    } else if !is_mut(kind) {
        let v = TensorView::<E>::from_slice_with_strides(shape, &data, strides).expect("cannot build view");
        match kind {
            "iter" => run(v.iter(), h, &show_ref),
            "lanes" => run(v.lanes(a), h, &|l: rten_tensor::iterators::Lane<E>| {
                let mut out = vec![];
                let mut i = 0;
                while let Some(x) = l.get(i) {
                    out.push(*x as usize);
                    i += 1;
                }
                out
            }),
            "lane" => {
                let lane = v.lanes(a).nth(b).expect("no such lane");
                run(lane, h, &show_ref)
            }
            "inner" => {
                if nd {
                    match a {
                        1 => run(v.inner_iter::<1>(), h, &|x: rten_tensor::NdTensorView<E, 1>| view_elems(&x.as_dyn())),
                        2 => run(v.inner_iter::<2>(), h, &|x: rten_tensor::NdTensorView<E, 2>| view_elems(&x.as_dyn())),
                        _ => panic!("nd inner needs a in 1..2"),
                    }
                } else {
                    run(v.inner_iter_dyn(a), h, &show_view)
                }
            }
            "axisiter" => {
                if nd {
                    macro_rules! go {
                        ($n:literal) => {{
                            let w = v.nd_view::<$n>();
                            run(w.axis_iter(a), h, &|x: rten_tensor::NdTensorView<E, { $n - 1 }>| view_elems(&x.as_dyn()))
                        }};
                    }
                    nd_dispatch!(rank, go)
                } else {
                    run(v.axis_iter(a), h, &show_view)
                }
            }
            "chunks" => {
                if nd {
                    macro_rules! go {
                        ($n:literal) => {{
                            let w = v.nd_view::<$n>();
                            run(w.axis_chunks(a, b), h, &|x: rten_tensor::NdTensorView<E, $n>| view_elems(&x.as_dyn()))
                        }};
                    }
                    nd_dispatch!(rank, go)
                } else {
                    run(v.axis_chunks(a, b), h, &show_view)
                }
            }
            _ => panic!("unknown kind {}", kind),
        }
    } else {
        let mut v = TensorViewMut::<E>::from_data_with_strides(shape, &mut data[..], strides)
            .expect("cannot build mutable view (overlapping layout?)");
        match kind {
            "itermut" => run(v.iter_mut(), h, &show_mut),
            "lanesmut" => run(v.lanes_mut(a), h, &|l: rten_tensor::iterators::LaneMut<E>| {
                let mut w = l.into_view();
                (0..w.size(0))
                    .map(|i| {
                        let x = &mut w[[i]];
                        let o = *x;
                        *x = o + MARK;
                        o as usize
                    })
                    .collect()
            }),
            "lanemut" => {
                let lane = v.lanes_mut(a).nth(b).expect("no such lane");
                run(lane, h, &show_mut)
            }
            "innermut" => {
                if nd {
                    match a {
                        1 => run(v.inner_iter_mut::<1>(), h, &|mut x: rten_tensor::NdTensorViewMut<E, 1>| {
                            view_elems_mut(&mut x.as_dyn_mut())
                        }),
                        2 => run(v.inner_iter_mut::<2>(), h, &|mut x: rten_tensor::NdTensorViewMut<E, 2>| {
                            view_elems_mut(&mut x.as_dyn_mut())
                        }),
                        _ => panic!("nd inner needs a in 1..2"),
                    }
                } else {
                    run(v.inner_iter_dyn_mut(a), h, &show_view_mut)
                }
            }
            "axisitermut" => {
                if nd {
                    macro_rules! go {
                        ($n:literal) => {{
                            let mut w = v.nd_view_mut::<$n>();
                            run(w.axis_iter_mut(a), h, &|mut x: rten_tensor::NdTensorViewMut<E, { $n - 1 }>| {
                                view_elems_mut(&mut x.as_dyn_mut())
                            })
                        }};
                    }
                    nd_dispatch!(rank, go)
                } else {
                    run(v.axis_iter_mut(a), h, &show_view_mut)
                }
            }
            "chunksmut" => {
                if nd {
                    macro_rules! go {
                        ($n:literal) => {{
                            let mut w = v.nd_view_mut::<$n>();
                            run(w.axis_chunks_mut(a, b), h, &|mut x: rten_tensor::NdTensorViewMut<E, $n>| {
                                view_elems_mut(&mut x.as_dyn_mut())
                            })
                        }};
                    }
                    nd_dispatch!(rank, go)
                } else {
                    run(v.axis_chunks_mut(a, b), h, &show_view_mut)
                }
            }
            _ => panic!("unknown kind {}", kind),
        }
    };
    // every element is either untouched or was handed out exactly once
    let mut_ok = data.iter().enumerate().all(|(i, &x)| x == i as u64 || x == i as u64 + MARK);
    Outcome { obs, mut_ok }
}

fn coq_kind(kind: &str) -> &'static str {
    match kind {
        "iter" | "itermut" => "KIter",
        "lanes" | "lanesmut" => "KLanes",
        "lane" | "lanemut" => "KLane",
        "inner" | "innermut" => "KInner",
        "axisiter" | "axisitermut" => "KAxisIter",
        "chunks" | "chunksmut" | "rchunks" => "KChunks",
        _ => panic!("unknown kind {}", kind),
    }
}

fn is_contig(shape: &[usize], strides: &[usize]) -> bool {
    let mut p = 1;
    for i in (0..shape.len()).rev() {
        if shape[i] == 1 {
            continue;
        }
        if strides[i] != p {
            return false;
        }
        p *= shape[i];
    }
    true
}

fn exec_line(line: &str) -> String {
    let f: Vec<&str> = line.split(';').collect();
    assert!(f.len() == 6, "malformed input line {:?}", line);
    let (kind, variant) = (f[0], f[1]);
    let shape = parse_list(f[2]);
    let strides = parse_list(f[3]);
    assert!(shape.len() == strides.len());
    let ab = parse_list(f[4]);
    let (a, b) = (ab.first().copied().unwrap_or(0), ab.get(1).copied().unwrap_or(0));
    let h = Hist::parse(f[5]);
    // a panic outside the guarded iterator calls (constructor, Lanes::nth, ...) is an outcome too
    let out = std::panic::catch_unwind(|| exec_case(kind, variant, &shape, &strides, a, b, &h))
        .unwrap_or(Outcome { obs: Obs::Panic, mut_ok: false });

    let empty = product(&shape) == 0;
    let path = if empty {
        "empty"
    } else if is_contig(&shape, &strides) {
        "contig"
    } else if strides.iter().zip(&shape).any(|(&s, &n)| s == 0 && n > 1) {
        "bcast"
    } else {
        "strided"
    };
    let nitems = spec_len(kind, &shape, a, b);
    let triv = if nitems <= 1 || h.n_ops() == 0 { "trivial-" } else { "" };
    let tag = format!(
        "{}{}{}-{}-r{}{}{}",
        triv,
        kind,
        if variant == "nd" { "-nd" } else { "" },
        path,
        shape.len(),
        if h.has_split() { "-split" } else { "" },
        if h.has_back() { "-back" } else { "" }
    );
    let term = format!(
        "{{| c_kind := {}; c_mut := {}; c_shape := {}; c_strides := {}; c_a := {}; c_b := {}; c_hist := {}; c_obs := {}; c_mut_ok := {} |}}",
        coq_kind(kind),
        is_mut(kind),
        coq_list_n(&shape),
        coq_list_n(&strides),
        a,
        b,
        h.coq(),
        out.obs.coq(),
        out.mut_ok
    );
    format!("{}\t{}\t{}", tag, line, term)
}

// ------------------------------------------------------------------ generators

fn contiguous_strides(shape: &[usize]) -> Vec<usize> {
    let mut st = vec![0usize; shape.len()];
    let mut p = 1usize;
    for i in (0..shape.len()).rev() {
        st[i] = p;
        p *= shape[i].max(1);
    }
    st
}

/// Random layout derived from a contiguous one: stepped slices, permutation, inserted unit
/// axes with arbitrary strides, broadcast (stride 0) axes when `allow_bcast`.
fn gen_layout(rng: &mut SplitMix64, allow_bcast: bool, min_rank: usize) -> (Vec<usize>, Vec<usize>) {
    loop {
        let rank = rng.pick(&[0usize, 1, 1, 2, 2, 2, 2, 3, 3, 3, 3, 3, 4, 4, 4, 5, 5]).max(min_rank);
        let mut shape: Vec<usize> = (0..rank)
            .map(|_| match rng.below(16) {
                0 => 0,
                1 | 2 => 1,
                _ => 2 + rng.below(4) as usize,
            })
            .collect();
        let mut strides = contiguous_strides(&shape);
        let style = rng.below(12);
        if style >= 3 {
            // stepped slices: size shrinks, stride grows
            for d in 0..rank {
                let only_outer = style == 3; // leaves the inner axes mergeable
                if shape[d] > 0 && ((only_outer && d == 0) || (!only_outer && rng.chance(1, 2))) {
                    let step = 1 + rng.below(3) as usize;
                    let len = 1 + rng.below(shape[d] as u64) as usize;
                    shape[d] = len.div_ceil(step);
                    strides[d] *= step;
                }
            }
            if style >= 5 {
                for d in (1..rank).rev() {
                    let j = rng.below(d as u64 + 1) as usize;
                    shape.swap(d, j);
                    strides.swap(d, j);
                }
            }
            if style >= 8 {
                // unit axes may carry any stride
                for d in 0..rank {
                    if shape[d] == 1 && rng.chance(1, 2) {
                        // (stride 0 counts as broadcasting even on a unit axis: the *Mut constructors reject it)
                        strides[d] = if allow_bcast { rng.pick(&[0usize, 1, 7, 100]) } else { rng.pick(&[1usize, 7, 100]) };
                    }
                }
            }
            if allow_bcast && style >= 10 {
                for d in 0..rank {
                    if rng.chance(1, 3) {
                        strides[d] = 0;
                        if rng.chance(1, 2) {
                            shape[d] = 1 + rng.below(4) as usize;
                        }
                    }
                }
            }
        }
        if product(&shape) <= 160 {
            return (shape, strides);
        }
    }
}

fn gen_hist(rng: &mut SplitMix64, len: usize, budget: &mut usize, can_split: bool, depth: usize) -> Hist {
    if *budget == 0 {
        return match rng.below(4) {
            0 => Hist::End,
            1 => Hist::RFold,
            2 if can_split && depth == 0 => Hist::Par,
            _ => Hist::Fold,
        };
    }
    *budget -= 1;
    let roll = rng.below(100);
    match roll {
        0..=29 => Hist::Next(Box::new(gen_hist(rng, len.saturating_sub(1), budget, can_split, depth))),
        30..=54 => Hist::Back(Box::new(gen_hist(rng, len.saturating_sub(1), budget, can_split, depth))),
        55..=69 => {
            let k = if rng.chance(1, 8) { len + rng.below(3) as usize } else { rng.below(len as u64 + 1) as usize };
            let k = if rng.chance(1, 40) { usize::MAX } else { k };
            Hist::Nth(k, Box::new(gen_hist(rng, len.saturating_sub(k.saturating_add(1)), budget, can_split, depth)))
        }
        70..=84 if can_split && depth < 3 => {
            let k = if rng.chance(1, 25) { len + 1 + rng.below(2) as usize } else { rng.below(len as u64 + 1) as usize };
            let k = if rng.chance(1, 6) { rng.pick(&[0, len]) } else { k };
            let mut bl = (*budget).div_ceil(2);
            let mut br = *budget / 2;
            *budget = 0;
            let l = gen_hist(rng, k.min(len), &mut bl, can_split, depth + 1);
            let r = gen_hist(rng, len.saturating_sub(k), &mut br, can_split, depth + 1);
            Hist::Split(k, Box::new(l), Box::new(r))
        }
        85..=89 => Hist::Fold,
        90..=93 => Hist::RFold,
        94..=96 if can_split => Hist::Par,
        97 => Hist::End,
        _ => Hist::Next(Box::new(gen_hist(rng, len.saturating_sub(1), budget, can_split, depth))),
    }
}

const KINDS: [&str; 12] = [
    "iter", "iter", "itermut", "itermut", "lanes", "lanesmut", "lane", "lanemut", "inner", "innermut", "axisiter",
    "axisitermut",
];

fn gen_case(rng: &mut SplitMix64, out: &mut impl Write) {
    if rng.chance(1, 40) {
        // RangeChunks (rten-base): a 1-D contiguous axis
        let n = rng.below(14) as usize;
        let cs = 1 + rng.below(5) as usize;
        let len = n.div_ceil(cs);
        let mut budget = rng.below(len as u64 + 4).min(9) as usize;
        let h = gen_hist(rng, len, &mut budget, true, 0);
        writeln!(out, "rchunks;dyn;{};1;0,{};{}", n, cs, h.text()).unwrap();
        return;
    }
    let kind = if rng.chance(1, 5) { rng.pick(&["chunks", "chunksmut"]) } else { rng.pick(&KINDS) };
    let needs_axis = !matches!(kind, "iter" | "itermut" | "inner" | "innermut");
    let (shape, strides) = gen_layout(rng, !is_mut(kind), if needs_axis { 1 } else { 0 });
    let rank = shape.len();
    let (a, b) = match kind {
        "iter" | "itermut" => (0, 0),
        "lanes" | "lanesmut" | "axisiter" | "axisitermut" => (rng.below(rank as u64) as usize, 0),
        "lane" | "lanemut" => {
            let d = rng.below(rank as u64) as usize;
            let nl = spec_len("lanes", &shape, d, 0);
            if nl == 0 {
                return; // no lane to take
            }
            (d, rng.below(nl as u64) as usize)
        }
        "inner" | "innermut" => (rng.below(rank as u64 + 1) as usize, 0),
        _ => (rng.below(rank as u64) as usize, 1 + rng.below(4) as usize),
    };
    let variant = match kind {
        "axisiter" | "axisitermut" | "chunks" | "chunksmut" if rank <= 4 && rng.chance(1, 3) => "nd",
        "inner" | "innermut" if (a == 1 || a == 2) && rng.chance(1, 3) => "nd",
        _ => "dyn",
    };
    let len = spec_len(kind, &shape, a, b);
    let mut budget = rng.below(len as u64 + 4).min(9) as usize;
    let can_split = !matches!(kind, "lane" | "lanemut");
    let h = gen_hist(rng, len, &mut budget, can_split, 0);
    writeln!(out, "{};{};{};{};{},{};{}", kind, variant, fmt_list(&shape), fmt_list(&strides), a, b, h.text()).unwrap();
}

/// Small-scope sweep: every op sequence of length <= depth over {n, b, t0, t1, t2} followed by
/// every terminal in a fixed list, on a fixed family of layouts.
fn systematic(out: &mut impl Write, depth: usize) {
    let layouts: [(&str, &str); 7] = [
        ("4,2,3", "1,12,4"), // arange(24).reshape([2,3,4]).permuted([2,0,1])
        ("2,3,4", "12,4,1"), // contiguous
        ("3,2,2", "8,2,1"),  // inner axes merge, outer does not
        ("2,2,2,2", "1,2,4,8"), // fully transposed rank 4 (two outer positions)
        ("5", "3"),
        ("3,1,2", "2,7,1"),
        ("2,3", "0,1"), // broadcast (immutable kinds only)
    ];
    let steps = ["n", "b", "t0", "t1", "t2"];
    let terminals = ["", "f", "r", "p", "s0(f)(r)", "s1(nf)(br)", "s2(bnf)(t1r)", "s3(r)(nbf)"];
    let mut seqs: Vec<String> = vec![String::new()];
    let mut frontier = vec![String::new()];
    for _ in 0..depth {
        let mut next = vec![];
        for p in &frontier {
            for s in &steps {
                next.push(format!("{}{}", p, s));
            }
        }
        seqs.extend(next.iter().cloned());
        frontier = next;
    }
    for (li, (sh, st)) in layouts.iter().enumerate() {
        let bcast = st.split(',').any(|s| s == "0");
        for kind in ["iter", "itermut", "lanes", "axisitermut", "chunks", "inner"] {
            if bcast && is_mut(kind) {
                continue;
            }
            // the deep sweep only for the element iterators; one level less for the others
            let d = if kind.starts_with("iter") { depth } else { depth.saturating_sub(1) };
            if li >= 4 && !kind.starts_with("iter") {
                continue;
            }
            let ab = match kind {
                "lanes" => "1,0",
                "chunks" => "0,2",
                "inner" => "1,0",
                _ => "0,0",
            };
            for p in seqs.iter().filter(|p| p.matches(|c: char| c.is_ascii_alphabetic()).count() <= d) {
                for t in &terminals {
                    writeln!(out, "{};dyn;{};{};{};{}{}", kind, sh, st, ab, p, t).unwrap();
                }
            }
        }
    }
}

fn generate(seed: u64, n: usize, tier: &str, out: &mut impl Write) {
    systematic(out, if tier == "thorough" { 3 } else { 2 });
    let mut rng = SplitMix64(seed);
    for _ in 0..n {
        gen_case(&mut rng, out);
    }
}

fn main() {
    quiet_panics();
    let args: Vec<String> = std::env::args().collect();
    let stdout = std::io::stdout();
    let mut out = std::io::BufWriter::new(stdout.lock());
    match args.get(1).map(|s| s.as_str()) {
        Some("gen") => {
            let seed: u64 = args[2].parse().unwrap();
            let n: usize = args[3].parse().unwrap();
            generate(seed, n, &args[4], &mut out);
        }
        Some("exec") => {
            for line in std::io::stdin().lock().lines() {
                let line = line.unwrap();
                if line.trim().is_empty() {
                    continue;
                }
                writeln!(out, "{}", exec_line(&line)).unwrap();
            }
        }
        _ => {
            eprintln!("usage: c07 gen <seed> <n> <tier> | c07 exec");
            std::process::exit(2);
        }
    }
}
