//! Shared helpers for the C07 correspondence harness: seeded RNG, consumption histories
//! (a tree, because `split_at` forks the iterator), the observation tree and the generic
//! driver that runs a history against any real rten iterator.
use std::panic::{AssertUnwindSafe, catch_unwind};

pub struct SplitMix64(pub u64);
impl SplitMix64 {
    pub fn next(&mut self) -> u64 {
        self.0 = self.0.wrapping_add(0x9E3779B97F4A7C15);
        let mut z = self.0;
        z = (z ^ (z >> 30)).wrapping_mul(0xBF58476D1CE4E5B9);
        z = (z ^ (z >> 27)).wrapping_mul(0x94D049BB133111EB);
        z ^ (z >> 31)
    }
    pub fn below(&mut self, n: u64) -> u64 {
        if n == 0 { 0 } else { self.next() % n }
    }
    pub fn pick<T: Copy>(&mut self, xs: &[T]) -> T {
        xs[self.below(xs.len() as u64) as usize]
    }
    pub fn chance(&mut self, num: u64, den: u64) -> bool {
        self.below(den) < num
    }
}

pub fn coq_list_n(xs: &[usize]) -> String {
    let v: Vec<String> = xs.iter().map(|x| x.to_string()).collect();
    format!("[{}]", v.join(";"))
}

pub fn parse_list(s: &str) -> Vec<usize> {
    if s.trim().is_empty() {
        return vec![];
    }
    s.split(',').map(|x| x.trim().parse::<usize>().unwrap()).collect()
}

pub fn fmt_list(xs: &[usize]) -> String {
    let v: Vec<String> = xs.iter().map(|x| x.to_string()).collect();
    v.join(",")
}

pub fn quiet_panics() {
    std::panic::set_hook(Box::new(|_| {}));
}

/// A consumption history.  Text form (no spaces):
///   n = next, b = next_back, t<k> = nth(k), s<k>(<left>)(<right>) = split_at(k) then continue on
///   both halves, f = fold/for_each the remainder, r = drain from the back (`rev().for_each`),
///   p = consume through rayon (`into_par_iter().map().collect()`), end of text = drop.
#[derive(Clone, Debug)]
pub enum Hist {
    End,
    Next(Box<Hist>),
    Back(Box<Hist>),
    Nth(usize, Box<Hist>),
    Fold,
    RFold,
    Par,
    Split(usize, Box<Hist>, Box<Hist>),
}

impl Hist {
    pub fn parse(s: &str) -> Hist {
        let b = s.as_bytes();
        let mut pos = 0;
        let h = Self::parse_at(b, &mut pos);
        assert!(pos == b.len(), "trailing input in history {:?} at {}", s, pos);
        h
    }

    fn num(b: &[u8], pos: &mut usize) -> usize {
        let st = *pos;
        while *pos < b.len() && b[*pos].is_ascii_digit() {
            *pos += 1;
        }
        std::str::from_utf8(&b[st..*pos]).unwrap().parse().unwrap()
    }

    fn parse_at(b: &[u8], pos: &mut usize) -> Hist {
        if *pos >= b.len() || b[*pos] == b')' {
            return Hist::End;
        }
        let c = b[*pos];
        *pos += 1;
        match c {
            b'n' => Hist::Next(Box::new(Self::parse_at(b, pos))),
            b'b' => Hist::Back(Box::new(Self::parse_at(b, pos))),
            b't' => {
                let k = Self::num(b, pos);
                Hist::Nth(k, Box::new(Self::parse_at(b, pos)))
            }
            b'f' => Hist::Fold,
            b'r' => Hist::RFold,
            b'p' => Hist::Par,
            b's' => {
                let k = Self::num(b, pos);
                assert!(b[*pos] == b'(');
                *pos += 1;
                let l = Self::parse_at(b, pos);
                assert!(b[*pos] == b')');
                *pos += 1;
                assert!(b[*pos] == b'(');
                *pos += 1;
                let r = Self::parse_at(b, pos);
                assert!(b[*pos] == b')');
                *pos += 1;
                Hist::Split(k, Box::new(l), Box::new(r))
            }
            _ => panic!("bad history char {}", c as char),
        }
    }

    pub fn text(&self) -> String {
        match self {
            Hist::End => String::new(),
            Hist::Next(r) => format!("n{}", r.text()),
            Hist::Back(r) => format!("b{}", r.text()),
            Hist::Nth(k, r) => {
                // a digit may not follow directly: histories never start with a digit
                format!("t{}{}", k, r.text())
            }
            Hist::Fold => "f".into(),
            Hist::RFold => "r".into(),
            Hist::Par => "p".into(),
            Hist::Split(k, l, r) => format!("s{}({})({})", k, l.text(), r.text()),
        }
    }

    pub fn coq(&self) -> String {
        match self {
            Hist::End => "HEnd".into(),
            Hist::Next(r) => format!("(HNext {})", r.coq()),
            Hist::Back(r) => format!("(HBack {})", r.coq()),
            Hist::Nth(k, r) => format!("(HNth {} {})", k, r.coq()),
            Hist::Fold => "HFold".into(),
            Hist::RFold => "HRFold".into(),
            Hist::Par => "HPar".into(),
            Hist::Split(k, l, r) => format!("(HSplit {} {} {})", k, l.coq(), r.coq()),
        }
    }

    pub fn has_back(&self) -> bool {
        match self {
            Hist::End | Hist::Fold | Hist::Par => false,
            Hist::RFold | Hist::Back(_) => true,
            Hist::Next(r) | Hist::Nth(_, r) => r.has_back(),
            Hist::Split(_, l, r) => l.has_back() || r.has_back(),
        }
    }
    pub fn has_split(&self) -> bool {
        match self {
            Hist::End | Hist::Fold | Hist::Par | Hist::RFold => false,
            Hist::Back(r) | Hist::Next(r) | Hist::Nth(_, r) => r.has_split(),
            Hist::Split(..) => true,
        }
    }
    pub fn n_ops(&self) -> usize {
        match self {
            Hist::End => 0,
            Hist::Fold | Hist::Par | Hist::RFold => 1,
            Hist::Back(r) | Hist::Next(r) | Hist::Nth(_, r) => 1 + r.n_ops(),
            Hist::Split(_, l, r) => 1 + l.n_ops() + r.n_ops(),
        }
    }
}

/// What the implementation was seen to do.  Items are lists of element values (= storage
/// offsets, because every test tensor stores `data[i] = i`): one value for element
/// iterators, the row-major contents of the sub-view for lane / inner / axis iterators.
#[derive(Clone, Debug)]
pub enum Obs {
    /// history ended; `len()` of the dropped iterator
    End(usize),
    /// yielded item (or None) and `len()` right after the call
    Step(Option<Vec<usize>>, usize, Box<Obs>),
    /// items produced by fold / rev().for_each / rayon collect, in the order produced
    Fold(Vec<Vec<usize>>),
    Split(Box<Obs>, Box<Obs>),
    Panic,
}

impl Obs {
    pub fn coq(&self) -> String {
        match self {
            Obs::End(l) => format!("(OEnd {})", l),
            Obs::Step(it, l, r) => {
                let i = match it {
                    Some(v) => format!("(Some {})", coq_list_n(v)),
                    None => "None".into(),
                };
                format!("(OStep {} {} {})", i, l, r.coq())
            }
            Obs::Fold(v) => {
                let items: Vec<String> = v.iter().map(|x| coq_list_n(x)).collect();
                format!("(OFold [{}])", items.join(";"))
            }
            Obs::Split(l, r) => format!("(OSplit {} {})", l.coq(), r.coq()),
            Obs::Panic => "OPanic".into(),
        }
    }
}

/// The operations a history may use.  `sp` / `par` return `None` for iterator types that do
/// not implement them (Lane, LaneMut): generators never emit those ops for such kinds.
pub trait Drv: DoubleEndedIterator + ExactSizeIterator + Sized {
    fn sp(self, _k: usize) -> Option<(Self, Self)> {
        None
    }
    fn par<F: Fn(Self::Item) -> Vec<usize> + Sync + Send>(self, _f: &F) -> Option<Vec<Vec<usize>>> {
        None
    }
}

fn guard<T>(f: impl FnOnce() -> T) -> Option<T> {
    catch_unwind(AssertUnwindSafe(f)).ok()
}

pub fn run<I: Drv, F: Fn(I::Item) -> Vec<usize> + Sync + Send>(mut it: I, h: &Hist, show: &F) -> Obs {
    match h {
        Hist::End => match guard(|| it.len()) {
            Some(l) => Obs::End(l),
            None => Obs::Panic,
        },
        Hist::Next(r) => match guard(|| {
            let x = it.next().map(show);
            (x, it.len())
        }) {
            Some((x, l)) => Obs::Step(x, l, Box::new(run(it, r, show))),
            None => Obs::Panic,
        },
        Hist::Back(r) => match guard(|| {
            let x = it.next_back().map(show);
            (x, it.len())
        }) {
            Some((x, l)) => Obs::Step(x, l, Box::new(run(it, r, show))),
            None => Obs::Panic,
        },
        Hist::Nth(k, r) => match guard(|| {
            let x = it.nth(*k).map(show);
            (x, it.len())
        }) {
            Some((x, l)) => Obs::Step(x, l, Box::new(run(it, r, show))),
            None => Obs::Panic,
        },
        Hist::Fold => {
            let mut v = vec![];
            match guard(|| it.for_each(|x| v.push(show(x)))) {
                Some(()) => Obs::Fold(v),
                None => Obs::Panic,
            }
        }
        Hist::RFold => {
            let mut v = vec![];
            match guard(|| it.rev().for_each(|x| v.push(show(x)))) {
                Some(()) => Obs::Fold(v),
                None => Obs::Panic,
            }
        }
        Hist::Par => match guard(|| it.par(show)) {
            Some(Some(v)) => Obs::Fold(v),
            _ => Obs::Panic,
        },
        Hist::Split(k, l, r) => match guard(|| it.sp(*k)) {
            Some(Some((a, b))) => Obs::Split(Box::new(run(a, l, show)), Box::new(run(b, r, show))),
            _ => Obs::Panic,
        },
    }
}

/// Row-major list of all indices of `shape` (independent of rten's iterators).
pub fn all_indices(shape: &[usize]) -> Vec<Vec<usize>> {
    let mut out = vec![vec![]];
    for &n in shape {
        let mut next = Vec::with_capacity(out.len() * n);
        for p in &out {
            for i in 0..n {
                let mut q = p.clone();
                q.push(i);
                next.push(q);
            }
        }
        out = next;
    }
    out
}

// ---------------------------------------------------------------- the real iterators
use rayon::prelude::*;
use rten_base::iter::SplitIterator;
use rten_tensor::iterators::{
    AxisChunks, AxisChunksMut, AxisIter, AxisIterMut, InnerIter, InnerIterMut, Iter, IterMut, Lane,
    LaneMut, Lanes, LanesMut,
};
use rten_tensor::{DynLayout, NdLayout};

macro_rules! drv_split_par {
    ($t:ty $(, $g:tt)*) => {
        impl<$($g),*> Drv for $t {
            fn sp(self, k: usize) -> Option<(Self, Self)> {
                Some(SplitIterator::split_at(self, k))
            }
            fn par<F: Fn(Self::Item) -> Vec<usize> + Sync + Send>(self, f: &F) -> Option<Vec<Vec<usize>>> {
                Some(self.into_par_iter().map(|x| f(x)).collect())
            }
        }
    };
}

pub type E = u64;
drv_split_par!(Iter<'a, E>, 'a);
drv_split_par!(IterMut<'a, E>, 'a);
drv_split_par!(Lanes<'a, E>, 'a);
drv_split_par!(LanesMut<'a, E>, 'a);
drv_split_par!(InnerIter<'a, E, DynLayout>, 'a);
drv_split_par!(InnerIterMut<'a, E, DynLayout>, 'a);
drv_split_par!(AxisIter<'a, E, DynLayout>, 'a);
drv_split_par!(AxisIterMut<'a, E, DynLayout>, 'a);
drv_split_par!(AxisChunks<'a, E, DynLayout>, 'a);
drv_split_par!(AxisChunksMut<'a, E, DynLayout>, 'a);
impl<'a> Drv for Lane<'a, E> {}

// rten-base's RangeChunks: SplitIterator, but parallel only through ParIter::from
impl Drv for rten_base::iter::RangeChunks {
    fn sp(self, k: usize) -> Option<(Self, Self)> {
        Some(SplitIterator::split_at(self, k))
    }
    fn par<F: Fn(Self::Item) -> Vec<usize> + Sync + Send>(self, f: &F) -> Option<Vec<Vec<usize>>> {
        Some(rten_parallel::par_iter::ParIter::from(self).map(|x| f(x)).collect())
    }
}
impl<'a> Drv for LaneMut<'a, E> {}

macro_rules! drv_nd {
    ($n:literal) => {
        drv_split_par!(AxisIter<'a, E, NdLayout<$n>>, 'a);
        drv_split_par!(AxisIterMut<'a, E, NdLayout<$n>>, 'a);
        drv_split_par!(AxisChunks<'a, E, NdLayout<$n>>, 'a);
        drv_split_par!(AxisChunksMut<'a, E, NdLayout<$n>>, 'a);
    };
}
drv_nd!(1);
drv_nd!(2);
drv_nd!(3);
drv_nd!(4);
drv_split_par!(InnerIter<'a, E, NdLayout<1>>, 'a);
drv_split_par!(InnerIter<'a, E, NdLayout<2>>, 'a);
drv_split_par!(InnerIterMut<'a, E, NdLayout<1>>, 'a);
drv_split_par!(InnerIterMut<'a, E, NdLayout<2>>, 'a);
