//! Graphs with nested `If` / `Loop` operators (C24): text format, generator, conversion to the
//! hook's `GraphSpec` and to the Coq `xgraph` term of coq/exec/SubgraphModel.v.
//!
//! graph  := nodes `~` ins `~` outs          (nodes separated by `;`, ids by `,`)
//! node   := `v` | `c<up>.<pid>` | `k:<data>` | `o:<ins>:<outs>:<ip>:<flags>:<len>:<mod>`
//!         | `I:<ins>:<outs>:(<graph>):(<graph>)` | `W:<ins>:<outs>:(<graph>)`
//! `c<up>.<pid>`: placeholder for node `pid` of the graph `up`+1 levels above (captured by name).
//! case   := graph `|` inputs `|` outs `|` runs      (runs: `<owned bits>,<pool>` separated by `;`)
use crate::*;

#[derive(Clone, Debug)]
pub enum XNode {
    V,
    Cap(usize, u32),
    K(Data),
    T { ins: Vec<Option<u32>>, outs: Vec<Option<u32>>, spec: TestOpSpec },
    If { ins: Vec<Option<u32>>, outs: Vec<Option<u32>>, gt: Box<XGraph>, ge: Box<XGraph> },
    Loop { ins: Vec<Option<u32>>, outs: Vec<Option<u32>>, body: Box<XGraph> },
}

#[derive(Clone, Debug, Default)]
pub struct XGraph {
    pub nodes: Vec<XNode>,
    pub ins: Vec<u32>,
    pub outs: Vec<u32>,
}

fn split_top(s: &str, sep: char) -> Vec<&str> {
    let mut out = vec![];
    let mut depth = 0i32;
    let mut start = 0;
    for (i, ch) in s.char_indices() {
        match ch {
            '(' => depth += 1,
            ')' => depth -= 1,
            c if c == sep && depth == 0 => {
                out.push(&s[start..i]);
                start = i + 1;
            }
            _ => {}
        }
    }
    out.push(&s[start..]);
    out
}

fn strip_parens(s: &str) -> &str {
    s.trim().strip_prefix('(').and_then(|x| x.strip_suffix(')')).expect("parenthesised graph")
}

pub fn parse_xgraph(s: &str) -> XGraph {
    let parts = split_top(s, '~');
    assert!(parts.len() == 3, "bad graph {:?}", s);
    let nodes = if parts[0].trim().is_empty() {
        vec![]
    } else {
        split_top(parts[0], ';').into_iter().map(|t| parse_xnode(t.trim())).collect()
    };
    XGraph { nodes, ins: parse_ids(parts[1]), outs: parse_ids(parts[2]) }
}

fn parse_xnode(tok: &str) -> XNode {
    if tok == "v" {
        return XNode::V;
    }
    if let Some(rest) = tok.strip_prefix("k:") {
        return XNode::K(Data::parse(rest));
    }
    if let Some(rest) = tok.strip_prefix('c') {
        let (a, b) = rest.split_once('.').unwrap();
        return XNode::Cap(a.parse().unwrap(), b.parse().unwrap());
    }
    let f = split_top(tok, ':');
    match f[0] {
        "o" => {
            assert!(f.len() == 7, "bad op {:?}", tok);
            let outs = parse_opt_ids(f[2]);
            let flags = f[4];
            XNode::T {
                ins: parse_opt_ids(f[1]),
                spec: TestOpSpec {
                    uid: 0,
                    n_outputs: outs.len(),
                    in_place: parse_ids(f[3]),
                    commutative: flags.contains('c'),
                    mutating: flags.contains('m'),
                    deterministic: true,
                    out_len: if f[5] == "-" { None } else { Some(f[5].parse().unwrap()) },
                    modulus: if f[6] == "-" { None } else { Some(f[6].parse().unwrap()) },
                },
                outs,
            }
        }
        "I" => XNode::If {
            ins: parse_opt_ids(f[1]),
            outs: parse_opt_ids(f[2]),
            gt: Box::new(parse_xgraph(strip_parens(f[3]))),
            ge: Box::new(parse_xgraph(strip_parens(f[4]))),
        },
        "W" => XNode::Loop {
            ins: parse_opt_ids(f[1]),
            outs: parse_opt_ids(f[2]),
            body: Box::new(parse_xgraph(strip_parens(f[3]))),
        },
        _ => panic!("bad node {:?}", tok),
    }
}

pub fn fmt_xgraph(g: &XGraph) -> String {
    let nodes: Vec<String> = g.nodes.iter().map(fmt_xnode).collect();
    format!("{}~{}~{}", nodes.join(";"), fmt_list(&g.ins), fmt_list(&g.outs))
}

fn fmt_xnode(n: &XNode) -> String {
    match n {
        XNode::V => "v".into(),
        XNode::Cap(up, pid) => format!("c{}.{}", up, pid),
        XNode::K(d) => format!("k:{}", d.fmt()),
        XNode::T { ins, outs, spec } => {
            let mut flags = String::new();
            if spec.commutative {
                flags.push('c');
            }
            if spec.mutating {
                flags.push('m');
            }
            if flags.is_empty() {
                flags.push('-');
            }
            format!(
                "o:{}:{}:{}:{}:{}:{}",
                fmt_opt_ids(ins),
                fmt_opt_ids(outs),
                fmt_list(&spec.in_place),
                flags,
                spec.out_len.map(|x| x.to_string()).unwrap_or("-".into()),
                spec.modulus.map(|x| x.to_string()).unwrap_or("-".into())
            )
        }
        XNode::If { ins, outs, gt, ge } => {
            format!("I:{}:{}:({}):({})", fmt_opt_ids(ins), fmt_opt_ids(outs), fmt_xgraph(gt), fmt_xgraph(ge))
        }
        XNode::Loop { ins, outs, body } => {
            format!("W:{}:{}:({})", fmt_opt_ids(ins), fmt_opt_ids(outs), fmt_xgraph(body))
        }
    }
}

/// Assign graph numbers in pre-order; uid of a test operator = 100 * graph number + node index.
struct Numbering {
    next: u32,
}

/// names[level] = names of the nodes of the ancestor `level` levels above the parent
fn to_spec(g: &XGraph, num: &mut Numbering, ancestors: &[Vec<String>]) -> GraphSpec {
    let gid = num.next;
    num.next += 1;
    // names of this graph's nodes
    let names: Vec<String> = g
        .nodes
        .iter()
        .enumerate()
        .map(|(i, n)| match n {
            XNode::Cap(up, pid) => ancestors
                .get(*up)
                .and_then(|a| a.get(*pid as usize))
                .cloned()
                .unwrap_or_else(|| format!("missing{}_{}", gid, i)),
            _ => format!("g{}n{}", gid, i),
        })
        .collect();
    let mut stack: Vec<Vec<String>> = vec![names.clone()];
    stack.extend(ancestors.iter().cloned());
    let mut captures = vec![];
    let nodes = g
        .nodes
        .iter()
        .enumerate()
        .map(|(i, n)| {
            let name = names[i].clone();
            match n {
                XNode::V => NodeSpec::Value { name },
                XNode::Cap(..) => {
                    captures.push(i as u32);
                    NodeSpec::Value { name }
                }
                XNode::K(d) => NodeSpec::Constant { name, data: d.values() },
                XNode::T { ins, outs, spec } => {
                    let mut spec = spec.clone();
                    spec.uid = gid * 100 + i as u32;
                    NodeSpec::Op { name, kind: OpKind::Test(spec), inputs: ins.clone(), outputs: outs.clone() }
                }
                XNode::If { ins, outs, gt, ge } => {
                    let t = to_spec(gt, num, &stack);
                    let e = to_spec(ge, num, &stack);
                    NodeSpec::Op {
                        name,
                        kind: OpKind::If(Box::new(t), Box::new(e)),
                        inputs: ins.clone(),
                        outputs: outs.clone(),
                    }
                }
                XNode::Loop { ins, outs, body } => {
                    let b = to_spec(body, num, &stack);
                    NodeSpec::Op { name, kind: OpKind::Loop(Box::new(b)), inputs: ins.clone(), outputs: outs.clone() }
                }
            }
        })
        .collect();
    GraphSpec { nodes, inputs: g.ins.clone(), outputs: g.outs.clone(), captures }
}

pub fn xgraph_spec(g: &XGraph) -> GraphSpec {
    to_spec(g, &mut Numbering { next: 0 }, &[])
}

fn coq_xg(g: &XGraph, num: &mut Numbering) -> String {
    let gid = num.next;
    num.next += 1;
    let nodes: Vec<String> = g
        .nodes
        .iter()
        .enumerate()
        .map(|(i, n)| match n {
            XNode::V => "XV".to_string(),
            XNode::Cap(up, pid) => format!("(XCap {} {})", up, pid),
            XNode::K(d) => format!("(XC {})", d.coq()),
            XNode::T { ins, outs, spec } => format!(
                "(XT {} {} {} {})",
                gid * 100 + i as u32,
                coq_opspec(spec),
                coq_opt_ids(ins),
                coq_opt_ids(outs)
            ),
            XNode::If { ins, outs, gt, ge } => {
                let t = coq_xg(gt, num);
                let e = coq_xg(ge, num);
                format!("(XIf {} {} {} {})", coq_opt_ids(ins), coq_opt_ids(outs), t, e)
            }
            XNode::Loop { ins, outs, body } => {
                let b = coq_xg(body, num);
                format!("(XLoop {} {} {})", coq_opt_ids(ins), coq_opt_ids(outs), b)
            }
        })
        .collect();
    format!("(XG {} {} {})", coq_cons(&nodes), coq_list(&g.ins), coq_list(&g.outs))
}

pub fn coq_xgraph(g: &XGraph) -> String {
    coq_xg(g, &mut Numbering { next: 0 })
}

pub fn has_kind(g: &XGraph, f: &dyn Fn(&XNode) -> bool) -> bool {
    g.nodes.iter().any(|n| {
        f(n) || match n {
            XNode::If { gt, ge, .. } => has_kind(gt, f) || has_kind(ge, f),
            XNode::Loop { body, .. } => has_kind(body, f),
            _ => false,
        }
    })
}

pub fn depth(g: &XGraph) -> usize {
    1 + g
        .nodes
        .iter()
        .map(|n| match n {
            XNode::If { gt, ge, .. } => depth(gt).max(depth(ge)),
            XNode::Loop { body, .. } => depth(body),
            _ => 0,
        })
        .max()
        .unwrap_or(0)
}

// ------------------------------------------------------------------ generator
fn data(rng: &mut SplitMix64, big: bool) -> Data {
    let len = if big { rng.pick(&[32usize, 33]) } else { rng.pick(&[1usize, 2, 3]) };
    if len <= 3 { Data::Lit((0..len).map(|_| rng.below(21) as i32 - 10).collect()) } else { Data::Gen(rng.below(100000) as i64, len) }
}

struct Builder {
    nodes: Vec<XNode>,
    avail: Vec<u32>,
}

impl Builder {
    fn push(&mut self, n: XNode) -> u32 {
        self.nodes.push(n);
        (self.nodes.len() - 1) as u32
    }
    fn value(&mut self) -> u32 {
        let id = self.push(XNode::V);
        self.avail.push(id);
        id
    }
    fn pick(&self, rng: &mut SplitMix64) -> u32 {
        let k = self.avail.len();
        if rng.chance(3, 5) {
            let lo = k.saturating_sub(3);
            self.avail[lo + rng.below((k - lo) as u64) as usize]
        } else {
            self.avail[rng.below(k as u64) as usize]
        }
    }
    /// a test operator producing one value
    fn test_op(&mut self, rng: &mut SplitMix64, ins: Vec<Option<u32>>, out_len: Option<u32>, modulus: Option<i32>) -> u32 {
        let arity = ins.len();
        let commutative = arity >= 2 && rng.chance(1, 3);
        let in_place: Vec<u32> = if arity > 0 && rng.chance(3, 4) { vec![rng.below(arity as u64) as u32] } else { vec![] };
        let op = self.nodes.len() as u32;
        let out = op + 1;
        self.push(XNode::T {
            ins,
            outs: vec![Some(out)],
            spec: TestOpSpec {
                uid: 0,
                n_outputs: 1,
                in_place,
                commutative,
                mutating: rng.chance(3, 4),
                deterministic: true,
                out_len,
                modulus,
            },
        });
        self.value()
    }
    fn random_test_op(&mut self, rng: &mut SplitMix64) -> u32 {
        let arity = 1 + rng.below(2) as usize;
        let mut ins = vec![];
        for _ in 0..arity {
            if !ins.is_empty() && rng.chance(1, 6) {
                ins.push(ins[0]);
            } else {
                ins.push(Some(self.pick(rng)));
            }
        }
        self.test_op(rng, ins, None, None)
    }
}

/// `anc[level]` = values of the ancestor graphs that exist when the subgraph runs
fn gen_sub(rng: &mut SplitMix64, depth_left: usize, anc: &[Vec<u32>], n_inputs: usize) -> Builder {
    let mut b = Builder { nodes: vec![], avail: vec![] };
    for _ in 0..n_inputs {
        b.value();
    }
    // captures: 1..3 values of the ancestors
    let ncap = 1 + rng.below(3);
    for _ in 0..ncap {
        let up = if anc.len() > 1 && rng.chance(1, 3) { 1 + rng.below((anc.len() - 1) as u64) as usize } else { 0 };
        if anc[up].is_empty() {
            continue;
        }
        let pid = anc[up][rng.below(anc[up].len() as u64) as usize];
        let id = b.push(XNode::Cap(up, pid));
        b.avail.push(id);
    }
    if rng.chance(1, 3) {
        let id = b.push(XNode::K(data(rng, false)));
        b.avail.push(id);
    }
    if b.avail.is_empty() {
        let id = b.push(XNode::K(data(rng, false)));
        b.avail.push(id);
    }
    let nops = 1 + rng.below(3);
    for _ in 0..nops {
        if depth_left > 0 && rng.chance(1, 4) {
            gen_control(rng, &mut b, depth_left - 1, anc);
        } else {
            b.random_test_op(rng);
        }
    }
    b
}

fn gen_control(rng: &mut SplitMix64, b: &mut Builder, depth_left: usize, anc: &[Vec<u32>]) {
    let mut stack: Vec<Vec<u32>> = vec![b.avail.clone()];
    stack.extend(anc.iter().cloned());
    if rng.chance(1, 2) {
        // If: condition = hash mod 2 of some value (length 1), or a constant
        let cond = if rng.chance(1, 5) {
            let id = b.push(XNode::K(Data::Lit(vec![rng.below(2) as i32])));
            b.avail.push(id);
            id
        } else {
            let src = b.pick(rng);
            b.test_op(rng, vec![Some(src)], Some(1), Some(2))
        };
        let nout = 1 + rng.below(2) as usize;
        let mut branches = vec![];
        for _ in 0..2 {
            let mut sub = gen_sub(rng, depth_left, &stack, 0);
            let mut outs = vec![];
            for _ in 0..nout {
                let mut v = sub.avail[sub.avail.len() - 1 - rng.below(sub.avail.len().min(2) as u64) as usize];
                if outs.contains(&v) {
                    v = sub.random_test_op(rng);
                }
                outs.push(v);
            }
            branches.push(XGraph { nodes: sub.nodes, ins: vec![], outs });
        }
        let op = b.nodes.len() as u32;
        let outs: Vec<Option<u32>> = (0..nout).map(|k| Some(op + 1 + k as u32)).collect();
        let ge = branches.pop().unwrap();
        let gt = branches.pop().unwrap();
        b.push(XNode::If { ins: vec![Some(cond)], outs, gt: Box::new(gt), ge: Box::new(ge) });
        for _ in 0..nout {
            b.value();
        }
    } else {
        // Loop: trip count in 0..3, optional initial condition, carried values, scan outputs
        let trip = if rng.chance(1, 2) {
            let id = b.push(XNode::K(Data::Lit(vec![rng.pick(&[0, 1, 1, 2, 2, 2, 3, 3]) as i32])));
            b.avail.push(id);
            id
        } else {
            let src = b.pick(rng);
            let m = if rng.chance(1, 2) { 4 } else { 3 };
            b.test_op(rng, vec![Some(src)], Some(1), Some(m))
        };
        let cond: Option<u32> = match rng.below(4) {
            0 => None,
            1 => {
                let id = b.push(XNode::K(Data::Lit(vec![(rng.below(4) != 0) as i32])));
                b.avail.push(id);
                Some(id)
            }
            _ => {
                let src = b.pick(rng);
                let m = if rng.chance(1, 5) { 2 } else { 7 };
                Some(b.test_op(rng, vec![Some(src)], Some(1), Some(m)))
            }
        };
        let ncar = rng.below(3) as usize;
        let carried: Vec<u32> = (0..ncar).map(|_| b.pick(rng)).collect();
        let mut stack: Vec<Vec<u32>> = vec![b.avail.clone()];
        stack.extend(anc.iter().cloned());
        let mut sub = gen_sub(rng, depth_left, &stack, 2 + ncar);
        let ins: Vec<u32> = (0..(2 + ncar) as u32).collect();
        // body outputs: condition, carried..., scans...
        let cond_out = if rng.chance(1, 2) {
            1 // pass the condition through
        } else {
            let src = sub.pick(rng);
            let m = if rng.chance(1, 2) { 2 } else { 3 };
            sub.test_op(rng, vec![Some(src)], Some(1), Some(m))
        };
        let mut outs = vec![cond_out];
        for k in 0..ncar {
            // next value of a carried dependency: usually computed from the current one
            let v = if rng.chance(3, 4) || outs.contains(&(2 + k as u32)) {
                let other = sub.pick(rng);
                sub.test_op(rng, vec![Some(2 + k as u32), Some(other)], None, None)
            } else {
                2 + k as u32
            };
            outs.push(v);
        }
        let nscan = rng.below(3) as usize;
        for _ in 0..nscan {
            let mut v = if rng.chance(1, 2) { sub.random_test_op(rng) } else { sub.pick(rng) };
            if outs.contains(&v) && rng.chance(9, 10) {
                v = sub.random_test_op(rng);
            }
            outs.push(v);
        }
        let body = XGraph { nodes: sub.nodes, ins, outs };
        let op = b.nodes.len() as u32;
        let nout = ncar + nscan;
        let o_outs: Vec<Option<u32>> = (0..nout).map(|k| Some(op + 1 + k as u32)).collect();
        let mut l_ins = vec![Some(trip), cond];
        l_ins.extend(carried.iter().map(|c| Some(*c)));
        b.push(XNode::Loop { ins: l_ins, outs: o_outs, body: Box::new(body) });
        for _ in 0..nout {
            b.value();
        }
    }
}

pub struct XCase {
    pub graph: XGraph,
    pub ins: Vec<(u32, Data)>,
    pub outs: Vec<u32>,
    pub runs: Vec<(Vec<bool>, bool)>,
}

pub fn gen_xcase(rng: &mut SplitMix64, max_depth: usize) -> XCase {
    let mut b = Builder { nodes: vec![], avail: vec![] };
    let n_in = 1 + rng.below(3) as usize;
    let mut ins = vec![];
    for _ in 0..n_in {
        let id = b.value();
        let big = rng.chance(1, 5);
        ins.push((id, data(rng, big)));
    }
    if rng.chance(1, 2) {
        let id = b.push(XNode::K(data(rng, false)));
        b.avail.push(id);
    }
    let nops = 2 + rng.below(4);
    let mut controls = 0;
    for i in 0..nops {
        if (controls == 0 && i + 1 == nops) || rng.chance(2, 5) {
            gen_control(rng, &mut b, max_depth - 1, &[]);
            controls += 1;
        } else {
            b.random_test_op(rng);
        }
        // values captured by a subgraph are often used again afterwards
        if controls > 0 && rng.chance(1, 2) {
            b.random_test_op(rng);
        }
    }
    // outputs: the last values, plus sometimes an early (possibly captured) one
    let mut outs = vec![];
    let k = b.avail.len();
    for j in 0..(1 + rng.below(3) as usize).min(k) {
        let v = b.avail[k - 1 - j];
        if !outs.contains(&v) {
            outs.push(v);
        }
    }
    if rng.chance(1, 2) {
        let v = b.avail[rng.below(k as u64) as usize];
        if !outs.contains(&v) {
            outs.push(v);
        }
    }
    let graph = XGraph { nodes: b.nodes, ins: ins.iter().map(|(i, _)| *i).collect(), outs: outs.clone() };
    let all = |x: bool| vec![x; n_in];
    let mixed: Vec<bool> = (0..n_in).map(|_| rng.chance(1, 2)).collect();
    let runs = vec![(all(false), true), (all(true), true), (mixed, false), (all(true), true)];
    XCase { graph, ins, outs, runs }
}

pub fn fmt_xcase(c: &XCase) -> String {
    let runs: Vec<String> = c
        .runs
        .iter()
        .map(|(o, p)| format!("{},{}", o.iter().map(|b| if *b { '1' } else { '0' }).collect::<String>(), *p as u8))
        .collect();
    format!("{}|{}|{}|{}", fmt_xgraph(&c.graph), fmt_inputs(&c.ins), fmt_list(&c.outs), runs.join(";"))
}

pub fn parse_xcase(line: &str) -> XCase {
    let parts: Vec<&str> = line.trim().split('|').collect();
    assert!(parts.len() == 4, "bad case line");
    let runs = if parts[3].trim().is_empty() {
        vec![]
    } else {
        parts[3]
            .split(';')
            .map(|r| {
                let (a, b) = r.split_once(',').unwrap();
                (a.chars().map(|c| c == '1').collect(), b == "1")
            })
            .collect()
    };
    XCase { graph: parse_xgraph(parts[0]), ins: parse_inputs(parts[1]), outs: parse_ids(parts[2]), runs }
}
