//! Shared helpers for the exec-group correspondence harness (C02, C25, C04, C24).
//!
//! Text format of a flat case (one line, no tabs):  `nodes|inputs|outs|runs`
//!   nodes separated by `;` -- node i gets node ID i and name `n<i>`:
//!     `v`                                   value node
//!     `k:1,2,3`                             constant with these elements
//!     `o:<ins>:<outs>:<ip>:<flags>:<len>:<mod>`
//!         ins/outs = comma lists of ids or `_` (None); ip = comma list of in-place positions;
//!         flags: c = commutative, m = mutating run_in_place, n = non-deterministic, `-` none;
//!         len = fixed output length or `-`; mod = modulus or `-`
//!   inputs separated by `;`: `id=1,2,3`
//!   outs: comma list of ids
//!   runs separated by `;`: `<owned bits>,<pool 0|1>,<noip 0|1>,<threads>` (owned bits: one 0/1 per input)
pub use rten::verif::exec::{
    GraphSpec, NodeSpec, OpKind, RunCfg, RunInput, RunReport, TestGraph, TestOpSpec, TraceEntry,
};
use std::io::{BufRead, Write};
pub mod flat;
pub mod nested;

pub struct SplitMix64(pub u64);
impl SplitMix64 {
    pub fn next(&mut self) -> u64 {
        self.0 = self.0.wrapping_add(0x9E3779B97F4A7C15);
        let mut z = self.0;
        z = (z ^ (z >> 30)).wrapping_mul(0xBF58476D1CE4E5B9);
        z = (z ^ (z >> 27)).wrapping_mul(0x94D049BB133111EB);
        z ^ (z >> 31)
    }
    pub fn below(&mut self, n: u64) -> u64 {
        if n == 0 { 0 } else { self.next() % n }
    }
    pub fn pick<T: Copy>(&mut self, xs: &[T]) -> T {
        xs[self.below(xs.len() as u64) as usize]
    }
    pub fn chance(&mut self, num: u64, den: u64) -> bool {
        self.below(den) < num
    }
}

pub fn quiet_panics() {
    std::panic::set_hook(Box::new(|_| {}));
}

pub fn parse_ids(s: &str) -> Vec<u32> {
    if s.trim().is_empty() || s.trim() == "-" {
        return vec![];
    }
    s.split(',').map(|x| x.trim().parse::<u32>().unwrap()).collect()
}
pub fn parse_i32s(s: &str) -> Vec<i32> {
    if s.trim().is_empty() {
        return vec![];
    }
    s.split(',').map(|x| x.trim().parse::<i32>().unwrap()).collect()
}

/// Tensor contents: written out, or generated from `(seed, len)` (text form `@seed/len`) by the
/// generator that `gv` in coq/exec/ModelTestOps.v mirrors.
#[derive(Clone, Debug, PartialEq, Eq)]
pub enum Data {
    Lit(Vec<i32>),
    Gen(i64, usize),
}
pub fn gv(seed: i64, len: usize) -> Vec<i32> {
    (0..len)
        .map(|i| {
            let x = (seed * 1103515245 + 12345 + (i as i64) * 2654435761).rem_euclid(2147483648);
            (x % 2001 - 1000) as i32
        })
        .collect()
}
impl Data {
    pub fn parse(s: &str) -> Data {
        if let Some(rest) = s.trim().strip_prefix('@') {
            let (a, b) = rest.split_once('/').unwrap();
            Data::Gen(a.parse().unwrap(), b.parse().unwrap())
        } else {
            Data::Lit(parse_i32s(s))
        }
    }
    pub fn fmt(&self) -> String {
        match self {
            Data::Lit(v) => fmt_list(v),
            Data::Gen(s, l) => format!("@{}/{}", s, l),
        }
    }
    pub fn values(&self) -> Vec<i32> {
        match self {
            Data::Lit(v) => v.clone(),
            Data::Gen(s, l) => gv(*s, *l),
        }
    }
    pub fn coq(&self) -> String {
        match self {
            Data::Lit(v) => coq_v(v),
            Data::Gen(s, l) => format!("(gv {} {})", s, l),
        }
    }
}

/// `(length, checksum)` of a tensor: `vsig` in coq/exec/ModelTestOps.v.
pub fn vsig(v: &[i32]) -> (usize, i64) {
    (v.len(), v.iter().fold(0i64, |h, x| rten::verif::exec::mix(h, *x as i64)))
}
pub fn parse_opt_ids(s: &str) -> Vec<Option<u32>> {
    if s.trim().is_empty() {
        return vec![];
    }
    s.split(',')
        .map(|x| if x.trim() == "_" { None } else { Some(x.trim().parse::<u32>().unwrap()) })
        .collect()
}
pub fn fmt_list<T: ToString>(xs: &[T]) -> String {
    xs.iter().map(|x| x.to_string()).collect::<Vec<_>>().join(",")
}
pub fn fmt_opt_ids(xs: &[Option<u32>]) -> String {
    xs.iter()
        .map(|x| match x {
            Some(v) => v.to_string(),
            None => "_".to_string(),
        })
        .collect::<Vec<_>>()
        .join(",")
}
/// Lists are printed as `(cons a (cons b nil))`: nested `[a;b]` notations make Coq's parser
/// backtrack exponentially.
pub fn coq_cons(items: &[String]) -> String {
    let mut s = String::new();
    for it in items {
        s.push_str("(cons ");
        s.push_str(it);
        s.push(' ');
    }
    s.push_str("nil");
    for _ in items {
        s.push(')');
    }
    if items.is_empty() { s } else { s }
}
pub fn coq_list<T: ToString>(xs: &[T]) -> String {
    coq_cons(&xs.iter().map(|x| x.to_string()).collect::<Vec<_>>())
}
pub fn coq_nats(xs: &[u32]) -> String {
    coq_cons(&xs.iter().map(|x| format!("{}%nat", x)).collect::<Vec<_>>())
}
pub fn coq_opt_ids(xs: &[Option<u32>]) -> String {
    coq_cons(
        &xs.iter()
            .map(|x| match x {
                Some(v) => format!("(Some {})", v),
                None => "None".to_string(),
            })
            .collect::<Vec<_>>(),
    )
}
/// A tensor's contents as a Coq `list Z`.
pub fn coq_v(xs: &[i32]) -> String {
    coq_cons(&xs.iter().map(|x| if *x < 0 { format!("({})%Z", x) } else { format!("{}%Z", x) }).collect::<Vec<_>>())
}
pub fn coq_vs(xs: &[Vec<i32>]) -> String {
    coq_cons(&xs.iter().map(|x| coq_v(x)).collect::<Vec<_>>())
}

// ------------------------------------------------------------------ flat cases
#[derive(Clone, Debug)]
pub struct RunDesc {
    pub owned: Vec<bool>,
    pub pool: bool,
    pub noip: bool,
    pub threads: usize,
}

#[derive(Clone, Debug)]
pub struct Case {
    pub spec: GraphSpec,
    pub ins: Vec<(u32, Data)>,
    /// constants' data as written in the case line (node id -> data)
    pub consts: Vec<(u32, Data)>,
    pub outs: Vec<u32>,
    pub runs: Vec<RunDesc>,
}

pub fn test_spec_of(kind: &OpKind) -> &TestOpSpec {
    match kind {
        OpKind::Test(t) => t,
        _ => panic!("not a test operator"),
    }
}

pub fn parse_node(i: usize, tok: &str) -> NodeSpec {
    let name = format!("n{}", i);
    if tok == "v" {
        return NodeSpec::Value { name };
    }
    if let Some(rest) = tok.strip_prefix("k:") {
        return NodeSpec::Constant { name, data: Data::parse(rest).values() };
    }
    let parts: Vec<&str> = tok.split(':').collect();
    assert!(parts[0] == "o" && parts.len() == 7, "bad node {:?}", tok);
    let inputs = parse_opt_ids(parts[1]);
    let outputs = parse_opt_ids(parts[2]);
    let flags = parts[4];
    let spec = TestOpSpec {
        uid: i as u32,
        n_outputs: outputs.len(),
        in_place: parse_ids(parts[3]),
        commutative: flags.contains('c'),
        mutating: flags.contains('m'),
        deterministic: !flags.contains('n'),
        out_len: if parts[5] == "-" { None } else { Some(parts[5].parse().unwrap()) },
        modulus: if parts[6] == "-" { None } else { Some(parts[6].parse().unwrap()) },
    };
    NodeSpec::Op { name, kind: OpKind::Test(spec), inputs, outputs }
}

pub fn fmt_node(node: &NodeSpec) -> String {
    match node {
        NodeSpec::Value { .. } => "v".to_string(),
        NodeSpec::Constant { data, .. } => format!("k:{}", fmt_list(data)),
        NodeSpec::Op { kind, inputs, outputs, .. } => {
            let t = test_spec_of(kind);
            let mut flags = String::new();
            if t.commutative {
                flags.push('c');
            }
            if t.mutating {
                flags.push('m');
            }
            if !t.deterministic {
                flags.push('n');
            }
            if flags.is_empty() {
                flags.push('-');
            }
            format!(
                "o:{}:{}:{}:{}:{}:{}",
                fmt_opt_ids(inputs),
                fmt_opt_ids(outputs),
                fmt_list(&t.in_place),
                flags,
                t.out_len.map(|x| x.to_string()).unwrap_or("-".into()),
                t.modulus.map(|x| x.to_string()).unwrap_or("-".into())
            )
        }
    }
}

pub fn parse_graph(s: &str) -> GraphSpec {
    let nodes = s.split(';').enumerate().map(|(i, t)| parse_node(i, t.trim())).collect();
    GraphSpec { nodes, inputs: vec![], outputs: vec![], captures: vec![] }
}

pub fn fmt_graph(g: &GraphSpec, consts: &[(u32, Data)]) -> String {
    g.nodes
        .iter()
        .enumerate()
        .map(|(i, n)| match consts.iter().find(|(c, _)| *c as usize == i) {
            Some((_, d)) => format!("k:{}", d.fmt()),
            None => fmt_node(n),
        })
        .collect::<Vec<_>>()
        .join(";")
}

pub fn parse_inputs(s: &str) -> Vec<(u32, Data)> {
    if s.trim().is_empty() {
        return vec![];
    }
    s.split(';')
        .map(|t| {
            let (a, b) = t.split_once('=').unwrap();
            (a.trim().parse().unwrap(), Data::parse(b))
        })
        .collect()
}
pub fn fmt_inputs(ins: &[(u32, Data)]) -> String {
    ins.iter().map(|(i, d)| format!("{}={}", i, d.fmt())).collect::<Vec<_>>().join(";")
}

pub fn parse_case(line: &str) -> Case {
    let parts: Vec<&str> = line.trim().split('|').collect();
    assert!(parts.len() == 4, "bad case line");
    let spec = parse_graph(parts[0]);
    let consts: Vec<(u32, Data)> = parts[0]
        .split(';')
        .enumerate()
        .filter_map(|(i, t)| t.trim().strip_prefix("k:").map(|r| (i as u32, Data::parse(r))))
        .collect();
    let ins = parse_inputs(parts[1]);
    let outs = parse_ids(parts[2]);
    let runs = if parts[3].trim().is_empty() {
        vec![]
    } else {
        parts[3]
            .split(';')
            .map(|r| {
                let f: Vec<&str> = r.split(',').collect();
                RunDesc {
                    owned: f[0].chars().map(|c| c == '1').collect(),
                    pool: f[1] == "1",
                    noip: f[2] == "1",
                    threads: f[3].parse().unwrap(),
                }
            })
            .collect()
    };
    Case { spec, ins, consts, outs, runs }
}

pub fn fmt_case(c: &Case) -> String {
    let runs: Vec<String> = c
        .runs
        .iter()
        .map(|r| {
            format!(
                "{},{},{},{}",
                r.owned.iter().map(|b| if *b { '1' } else { '0' }).collect::<String>(),
                r.pool as u8,
                r.noip as u8,
                r.threads
            )
        })
        .collect();
    format!("{}|{}|{}|{}", fmt_graph(&c.spec, &c.consts), fmt_inputs(&c.ins), fmt_list(&c.outs), runs.join(";"))
}

/// `Planner.Graph.graph` term (`mk_graph`) for a flat graph of test operators.
pub fn coq_graph(g: &GraphSpec) -> String {
    let nodes: Vec<String> = g
        .nodes
        .iter()
        .enumerate()
        .map(|(i, n)| match n {
            NodeSpec::Value { .. } => format!("({}, Value)", i),
            NodeSpec::Constant { .. } => format!("({}, Constant)", i),
            NodeSpec::Op { kind, inputs, outputs, .. } => format!(
                "({}, Op (mkop {} {} [] {}))",
                i,
                coq_opt_ids(inputs),
                coq_opt_ids(outputs),
                !test_spec_of(kind).in_place.is_empty()
            ),
        })
        .collect();
    format!("(mk_graph {} {})", coq_cons(&nodes), coq_list(&g.captures))
}

pub fn coq_opspec(t: &TestOpSpec) -> String {
    // positional constructor: much cheaper for Coq to elaborate than record syntax
    format!(
        "(Build_opspec {} {} {} {} {} {} {})",
        t.n_outputs,
        coq_nats(&t.in_place),
        t.commutative,
        t.mutating,
        t.deterministic,
        t.out_len.map(|x| format!("(Some {})", x)).unwrap_or("None".into()),
        t.modulus.map(|x| format!("(Some {}%Z)", x)).unwrap_or("None".into())
    )
}

pub fn coq_ops(g: &GraphSpec) -> String {
    let v: Vec<String> = g
        .nodes
        .iter()
        .enumerate()
        .filter_map(|(i, n)| match n {
            NodeSpec::Op { kind: OpKind::Test(t), .. } => Some(format!("({}, {})", i, coq_opspec(t))),
            _ => None,
        })
        .collect();
    coq_cons(&v)
}

pub fn coq_consts(consts: &[(u32, Data)]) -> String {
    let v: Vec<String> = consts.iter().map(|(i, d)| format!("({}, {})", i, d.coq())).collect();
    coq_cons(&v)
}

/// Run-length encoding of id lists: maximal arithmetic progressions become `(arith s d k)`
/// (coq/exec/FanModel.v).
pub fn coq_ids_rle(xs: &[u32]) -> String {
    let mut segs: Vec<String> = vec![];
    let mut i = 0;
    while i < xs.len() {
        let mut j = i + 1;
        if j < xs.len() && xs[j] > xs[i] {
            let d = xs[j] - xs[i];
            while j + 1 < xs.len() && xs[j + 1] > xs[j] && xs[j + 1] - xs[j] == d {
                j += 1;
            }
            if j - i + 1 >= 4 {
                segs.push(format!("(arith {} {} {})", xs[i], d, j - i + 1));
                i = j + 1;
                continue;
            }
        }
        segs.push(format!("(cons {} nil)", xs[i]));
        i += 1;
    }
    let mut s = String::new();
    for seg in &segs {
        s.push_str("(app ");
        s.push_str(seg);
        s.push(' ');
    }
    s.push_str("nil");
    for _ in &segs {
        s.push(')');
    }
    s
}

/// The same for traces: runs of entries with equal positions / flag and ids in arithmetic
/// progression become `(rep_trace s d k ps f)`.
pub fn coq_trace_rle(tr: &[TraceEntry]) -> String {
    let mut segs: Vec<String> = vec![];
    let mut i = 0;
    while i < tr.len() {
        let same = |a: &TraceEntry, b: &TraceEntry| a.in_place == b.in_place && a.reused == b.reused;
        let mut j = i + 1;
        if j < tr.len() && tr[j].uid > tr[i].uid && same(&tr[i], &tr[j]) {
            let d = tr[j].uid - tr[i].uid;
            while j + 1 < tr.len() && tr[j + 1].uid > tr[j].uid && tr[j + 1].uid - tr[j].uid == d && same(&tr[i], &tr[j + 1]) {
                j += 1;
            }
            if j - i + 1 >= 4 {
                segs.push(format!("(rep_trace {} {} {} {} {})", tr[i].uid, d, j - i + 1, coq_nats(&tr[i].in_place), tr[i].reused));
                i = j + 1;
                continue;
            }
        }
        segs.push(format!("(cons ({}, {}, {}) nil)", tr[i].uid, coq_nats(&tr[i].in_place), tr[i].reused));
        i += 1;
    }
    let mut s = String::new();
    for seg in &segs {
        s.push_str("(app ");
        s.push_str(seg);
        s.push(' ');
    }
    s.push_str("nil");
    for _ in &segs {
        s.push(')');
    }
    s
}

pub fn coq_trace(tr: &[TraceEntry]) -> String {
    let v: Vec<String> =
        tr.iter().map(|e| format!("({}, {}, {})", e.uid, coq_nats(&e.in_place), e.reused)).collect();
    coq_cons(&v)
}

/// Result of one run, canonicalised.
#[derive(Clone, Debug, PartialEq, Eq)]
pub enum IRes {
    Ok(Vec<(usize, i64)>),
    Err,
    Panic,
    Timeout,
}
impl IRes {
    pub fn coq(&self) -> String {
        match self {
            IRes::Ok(v) => format!(
                "IOk {}",
                coq_cons(&v.iter().map(|(l, h)| format!("({}%nat, {}%Z)", l, h)).collect::<Vec<_>>())
            ),
            IRes::Err => "IErr".into(),
            IRes::Panic => "IPanic".into(),
            IRes::Timeout => "ITimeout".into(),
        }
    }
}

pub fn no_panic<T>(f: impl FnOnce() -> T) -> Option<T> {
    std::panic::catch_unwind(std::panic::AssertUnwindSafe(f)).ok()
}

/// Run `f` on another thread; `None` when it does not finish within `secs`.
pub fn with_timeout<T: Send + 'static>(secs: u64, f: impl FnOnce() -> T + Send + 'static) -> Option<T> {
    let (tx, rx) = std::sync::mpsc::channel();
    std::thread::spawn(move || {
        let _ = tx.send(f());
    });
    rx.recv_timeout(std::time::Duration::from_secs(secs)).ok()
}

/// Standard `gen` / `exec` driver.
pub fn harness_main(
    generate: fn(u64, usize, &str, &mut dyn Write),
    exec_line: fn(&str) -> String,
    timeout_line: fn(&str) -> String,
    secs: u64,
) {
    quiet_panics();
    let args: Vec<String> = std::env::args().collect();
    let stdout = std::io::stdout();
    let mut out = std::io::BufWriter::new(stdout.lock());
    match args.get(1).map(|s| s.as_str()) {
        Some("gen") => {
            let seed: u64 = args[2].parse().unwrap();
            let n: usize = args[3].parse().unwrap();
            let tier = args.get(4).map(|s| s.as_str()).unwrap_or("quick");
            generate(seed, n, tier, &mut out);
        }
        Some("exec") => {
            let stdin = std::io::stdin();
            for line in stdin.lock().lines() {
                let line = line.unwrap();
                if line.trim().is_empty() {
                    continue;
                }
                let l2 = line.clone();
                let r = with_timeout(secs, move || exec_line(&l2)).unwrap_or_else(|| timeout_line(&line));
                writeln!(out, "{}", r).unwrap();
            }
        }
        _ => {
            eprintln!("usage: <bin> gen <seed> <n> <tier> | exec");
            std::process::exit(2);
        }
    }
}
