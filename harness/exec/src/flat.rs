//! Execution of flat cases (shared by c02 / c25) and the random graph generator.
use crate::*;

pub struct RunOut {
    pub res: IRes,
    pub trace: Vec<TraceEntry>,
    pub borrowed_ok: bool,
    pub consts_ok: bool,
}

pub fn run_inputs(c: &Case, r: &RunDesc) -> Vec<RunInput> {
    c.ins
        .iter()
        .enumerate()
        .map(|(i, (id, data))| RunInput {
            id: *id,
            data: data.values(),
            owned: r.owned.get(i).copied().unwrap_or(false),
        })
        .collect()
}

pub fn do_run(g: &TestGraph, c: &Case, r: &RunDesc) -> RunOut {
    let inputs = run_inputs(c, r);
    let cfg = RunCfg {
        threads: if r.threads == 0 { None } else { Some(r.threads) },
        use_pool: Some(r.pool),
    };
    let consts_before = g.constants();
    let rep = no_panic(|| g.run(&inputs, &c.outs, &cfg));
    let consts_ok = no_panic(|| g.constants()).map(|a| a == consts_before).unwrap_or(false);
    match rep {
        None => RunOut { res: IRes::Panic, trace: vec![], borrowed_ok: true, consts_ok },
        Some(rep) => {
            let expect: Vec<Vec<i32>> =
                inputs.iter().filter(|i| !i.owned).map(|i| i.data.clone()).collect();
            RunOut {
                res: match rep.result {
                    Ok(outs) => IRes::Ok(outs.iter().map(|(_, d)| vsig(d)).collect()),
                    Err(_) => IRes::Err,
                },
                trace: rep.trace,
                borrowed_ok: rep.borrowed_after == expect,
                consts_ok,
            }
        }
    }
}

/// Run every strategy of the case on the real executor and print the Coq `case` term.
pub fn exec_case(c: &Case) -> (String, String) {
    exec_case_noise(c, None)
}

/// An unrelated request on the same graph instance (other input data, other outputs, all inputs
/// borrowed): returns whether constants and borrowed inputs were left untouched.
fn noise_run(g: &TestGraph, c: &Case, rng: &mut SplitMix64) -> bool {
    let inputs: Vec<RunInput> = c
        .ins
        .iter()
        .map(|(id, d)| RunInput { id: *id, data: gv(rng.below(1000) as i64, d.values().len().max(1)), owned: rng.chance(1, 3) })
        .collect();
    let n = c.spec.nodes.len() as u64;
    let mut outs: Vec<u32> = vec![];
    for _ in 0..1 + rng.below(3) {
        let v = rng.below(n) as u32;
        if matches!(c.spec.nodes[v as usize], NodeSpec::Op { .. }) || outs.contains(&v) {
            continue;
        }
        outs.push(v);
    }
    if outs.is_empty() {
        return true;
    }
    let before = g.constants();
    let cfg = RunCfg { threads: None, use_pool: Some(rng.chance(1, 2)) };
    let rep = no_panic(|| g.run(&inputs, &outs, &cfg));
    let expect: Vec<Vec<i32>> = inputs.iter().filter(|i| !i.owned).map(|i| i.data.clone()).collect();
    let ok_inputs = rep.map(|r| r.borrowed_after == expect).unwrap_or(true);
    ok_inputs && no_panic(|| g.constants()).map(|a| a == before).unwrap_or(false)
}

/// Like [`exec_case`]; with `noise = Some(seed)` an unrelated request is run on the same graph
/// instance before every recorded run (C25: a run must not affect later runs).
pub fn exec_case_noise(c: &Case, noise: Option<u64>) -> (String, String) {
    exec_case_full(c, noise, None)
}

/// `wrap`: build the Coq term from (plan, plan_noip, runs) instead of printing the whole graph
/// (compact, repeat-encoded terms for the long fan-out plans).
pub fn exec_case_full(
    c: &Case,
    noise: Option<u64>,
    wrap: Option<&dyn Fn(&str, &str, &str) -> String>,
) -> (String, String) {
    let compact = wrap.is_some();
    let mut noise_rng = noise.map(SplitMix64);
    let g = TestGraph::build(&c.spec, false);
    let g_noip = TestGraph::build(&c.spec, true);
    let in_ids: Vec<u32> = c.ins.iter().map(|(i, _)| *i).collect();
    let plan = no_panic(|| g.plan(&in_ids, &c.outs)).and_then(|p| p.ok());
    let plan_noip = no_panic(|| g_noip.plan(&in_ids, &c.outs)).and_then(|p| p.ok());
    let outs: Vec<RunOut> = c
        .runs
        .iter()
        .map(|r| {
            let gr = if r.noip { &g_noip } else { &g };
            let quiet = match noise_rng.as_mut() {
                Some(rng) => noise_run(gr, c, rng),
                None => true,
            };
            let mut o = do_run(gr, c, r);
            o.consts_ok &= quiet;
            o
        })
        .collect();
    // distinct results are bound once
    let mut table: Vec<IRes> = vec![];
    let mut idx = vec![];
    for o in &outs {
        let k = match table.iter().position(|t| *t == o.res) {
            Some(k) => k,
            None => {
                table.push(o.res.clone());
                table.len() - 1
            }
        };
        idx.push(k);
    }
    let runs: Vec<String> = c
        .runs
        .iter()
        .zip(outs.iter())
        .zip(idx.iter())
        .map(|((r, o), k)| {
            format!(
                "(Build_run_obs {} {} {} {} r{} {} {} {})",
                coq_list(&r.owned), r.pool, r.noip, r.threads, k,
                if compact { coq_trace_rle(&o.trace) } else { coq_trace(&o.trace) },
                o.borrowed_ok, o.consts_ok
            )
        })
        .collect();
    let lets: String =
        table.iter().enumerate().map(|(k, t)| format!("let r{} := {} in ", k, t.coq())).collect();
    let coq_plan = |p: &Option<Vec<u32>>| match p {
        Some(p) => format!("(Some {})", if compact { coq_ids_rle(p) } else { coq_list(p) }),
        None => "None".to_string(),
    };
    let term = match wrap {
        Some(f) => format!("({}{})", lets, f(&coq_plan(&plan), &coq_plan(&plan_noip), &coq_cons(&runs))),
        None => {
            let ins: Vec<String> = c.ins.iter().map(|(i, d)| format!("({}, {})", i, d.coq())).collect();
            format!(
                "({}{{| c_graph := {}; c_ops := {}; c_consts := {}; c_ins := {}; c_outs := {}; c_plan := {}; c_plan_noip := {}; c_runs := {} |}})",
                lets,
                coq_graph(&c.spec),
                coq_ops(&c.spec),
                coq_consts(&c.consts),
                coq_cons(&ins),
                coq_list(&c.outs),
                coq_plan(&plan),
                coq_plan(&plan_noip),
                coq_cons(&runs)
            )
        }
    };
    // tag: what the case exercised
    let any_ip = outs.iter().any(|o| o.trace.iter().any(|e| !e.in_place.is_empty()));
    let any_reuse = outs.iter().any(|o| o.trace.iter().any(|e| e.reused));
    let nops = plan.as_ref().map(|p| p.len()).unwrap_or(0);
    let tag = if plan.is_none() {
        "planerr".to_string()
    } else if nops == 0 {
        "trivial-noops".to_string()
    } else {
        format!(
            "{}{}-ops{}",
            if any_reuse { "overwrite" } else if any_ip { "inplace" } else { "copy" },
            if table.len() > 1 { "-DIFF" } else { "" },
            if nops <= 3 { "1-3" } else if nops <= 8 { "4-8" } else { "9+" }
        )
    };
    (tag, term)
}

pub fn timeout_term(c: &Case) -> String {
    format!(
        "{{| c_graph := {}; c_ops := {}; c_consts := {}; c_ins := nil; c_outs := {}; c_plan := Some nil; c_plan_noip := Some nil; c_runs := (cons (Build_run_obs nil true false 0 ITimeout nil true true) nil) |}}",
        coq_graph(&c.spec), coq_ops(&c.spec), coq_consts(&c.consts), coq_list(&c.outs)
    )
}

// ------------------------------------------------------------------ generator
const LENS: [usize; 6] = [1, 3, 32, 33, 40, 32];

pub fn rand_data(rng: &mut SplitMix64, len: usize) -> Data {
    if len <= 3 && rng.chance(1, 2) {
        Data::Lit((0..len).map(|_| (rng.below(2001) as i32) - 1000).collect())
    } else {
        Data::Gen(rng.below(1_000_000) as i64, len)
    }
}

pub struct GenOpts {
    pub max_ops: usize,
    /// probability (x/8) that an operator is in-place capable
    pub ip8: u64,
    /// allow a run input to be an operator output (the F11 class)
    pub computed_inputs: bool,
    pub nondet: bool,
    /// request run inputs / constants as outputs as well
    pub ext_outputs: bool,
    /// every in-place capable operator overwrites its input buffer
    pub all_mut: bool,
    /// number of run inputs (0 = random 1..4) and small tensors only
    pub n_in: usize,
    pub small: bool,
}

/// A random DAG: inputs, constants, then operators each consuming earlier values.
pub fn random_graph(rng: &mut SplitMix64, o: &GenOpts) -> (GraphSpec, Vec<(u32, Data)>, Vec<(u32, Data)>, Vec<u32>) {
    let n_in = if o.n_in > 0 { o.n_in } else { 1 + rng.below(4) as usize };
    let lens: &[usize] = if o.small { &[1, 2, 3] } else { &LENS };
    let n_const = rng.below(3) as usize;
    let mut nodes: Vec<NodeSpec> = vec![];
    let mut avail: Vec<u32> = vec![];
    let mut ins = vec![];
    let mut consts: Vec<(u32, Data)> = vec![];
    for i in 0..n_in {
        nodes.push(NodeSpec::Value { name: format!("n{}", i) });
        let len = rng.pick(lens);
        ins.push((i as u32, rand_data(rng, len)));
        avail.push(i as u32);
    }
    for i in 0..n_const {
        let len = rng.pick(lens);
        let id = nodes.len();
        let d = rand_data(rng, len);
        nodes.push(NodeSpec::Constant { name: format!("n{}", id), data: d.values() });
        consts.push((id as u32, d));
        avail.push(id as u32);
        let _ = i;
    }
    let n_ops = 1 + rng.below(o.max_ops as u64) as usize;
    // recent-biased choice so that chains (in-place opportunities) are common
    let mut nondet_used = !o.nondet;
    let mut pending: Vec<(Vec<Option<u32>>, usize, TestOpSpec)> = vec![];
    let mut next_id = nodes.len();
    let mut computed: Vec<u32> = vec![];
    for _ in 0..n_ops {
        let arity = match rng.below(10) {
            0 => 0,
            1..=4 => 1,
            5..=8 => 2,
            _ => 3,
        };
        let mut inputs: Vec<Option<u32>> = vec![];
        for _ in 0..arity {
            if rng.chance(1, 12) {
                inputs.push(None);
            } else if rng.chance(1, 6) && !inputs.is_empty() {
                inputs.push(inputs[rng.below(inputs.len() as u64) as usize]); // repeated input
            } else if rng.chance(3, 5) {
                let k = avail.len();
                let lo = k.saturating_sub(3);
                inputs.push(Some(avail[lo + rng.below((k - lo) as u64) as usize]));
            } else {
                inputs.push(Some(avail[rng.below(avail.len() as u64) as usize]));
            }
        }
        let n_out = if rng.chance(1, 4) { 2 } else { 1 };
        let commutative = arity >= 2 && rng.chance(1, 3);
        let in_place: Vec<u32> = if arity > 0 && rng.chance(o.ip8, 8) {
            if commutative || rng.chance(3, 4) {
                vec![rng.below(arity as u64) as u32]
            } else if arity >= 2 {
                vec![0, 1]
            } else {
                vec![0, 2] // position 2 does not exist
            }
        } else {
            vec![]
        };
        let nondet = !nondet_used && rng.chance(1, 3);
        nondet_used |= nondet;
        let spec = TestOpSpec {
            uid: 0,
            n_outputs: n_out,
            in_place,
            commutative,
            mutating: o.all_mut || rng.chance(2, 3),
            deterministic: !nondet,
            out_len: if arity == 0 || rng.chance(1, 6) { Some(rng.pick(lens) as u32) } else { None },
            modulus: if rng.chance(1, 10) { Some(1 + rng.below(5) as i32) } else { None },
        };
        // outputs get ids after the operator node itself
        let op_id = next_id;
        next_id += 1;
        let mut outs = vec![];
        for k in 0..n_out {
            if k == 1 && rng.chance(1, 5) {
                outs.push(None);
            } else {
                outs.push(Some(next_id as u32));
                next_id += 1;
            }
        }
        pending.push((inputs, op_id, spec));
        let _ = &outs;
        // materialise nodes in id order: operator first, then its output values
        let (inputs, op_id, mut spec) = pending.pop().unwrap();
        spec.uid = op_id as u32;
        nodes.push(NodeSpec::Op {
            name: format!("n{}", op_id),
            kind: OpKind::Test(spec),
            inputs,
            outputs: outs.clone(),
        });
        for v in outs.iter().flatten() {
            nodes.push(NodeSpec::Value { name: format!("n{}", v) });
            avail.push(*v);
            computed.push(*v);
        }
    }
    // requested outputs: mostly sinks (so that most operators are needed), sometimes an
    // intermediate value, an input or a constant
    let mut used: Vec<u32> = vec![];
    for n in &nodes {
        if let NodeSpec::Op { inputs, .. } = n {
            used.extend(inputs.iter().flatten());
        }
    }
    let sinks: Vec<u32> = computed.iter().copied().filter(|v| !used.contains(v)).collect();
    let mut outs: Vec<u32> = vec![];
    for v in sinks.iter().rev() {
        if outs.len() < 3 && (outs.is_empty() || rng.chance(2, 3)) {
            outs.push(*v);
        }
    }
    if rng.chance(1, 3) {
        let v = avail[rng.below(avail.len() as u64) as usize];
        if !outs.contains(&v) {
            outs.push(v);
        }
    }
    if o.ext_outputs {
        for _ in 0..2 {
            let v = avail[rng.below((n_in + n_const) as u64) as usize];
            if !outs.contains(&v) {
                outs.push(v);
            }
        }
    }
    if rng.chance(1, 2) {
        outs.reverse();
    }
    if o.computed_inputs && !computed.is_empty() && rng.chance(1, 2) {
        let v = computed[rng.below(computed.len() as u64) as usize];
        let len = rng.pick(lens);
        ins.push((v, rand_data(rng, len)));
    }
    (GraphSpec { nodes, inputs: vec![], outputs: vec![], captures: vec![] }, ins, consts, outs)
}

pub fn strategy_matrix(rng: &mut SplitMix64, n_in: usize, full: bool) -> Vec<RunDesc> {
    let all = |b: bool| vec![b; n_in];
    let rnd = |rng: &mut SplitMix64| (0..n_in).map(|_| rng.chance(1, 2)).collect::<Vec<bool>>();
    let mut v = vec![
        RunDesc { owned: all(false), pool: true, noip: false, threads: 0 },
        RunDesc { owned: all(true), pool: true, noip: false, threads: 0 },
        RunDesc { owned: all(true), pool: false, noip: false, threads: 0 },
        RunDesc { owned: rnd(rng), pool: true, noip: false, threads: 0 },
        RunDesc { owned: all(true), pool: true, noip: true, threads: 0 },
    ];
    if full {
        v.push(RunDesc { owned: rnd(rng), pool: false, noip: false, threads: 1 });
        v.push(RunDesc { owned: all(true), pool: true, noip: false, threads: 2 });
        v.push(RunDesc { owned: all(false), pool: false, noip: true, threads: 16 });
    }
    v
}
