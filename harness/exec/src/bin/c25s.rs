//! C25, run-sequence family: 2..4 DIFFERENT requests on one graph instance (input sets that grow
//! and shrink, intermediates overridden by the caller, output subsets, owned/borrowed mixes);
//! every outcome must equal the outcome of the same request on a fresh instance, and constants /
//! borrowed inputs must be untouched.  The plan cache is the state that survives a run.
//!
//!   c25s gen <seed> <n> <tier>    print `S <graph>|<req>#<req>...`, req = `<inputs>~<outs>~<owned bits>`
//!   c25s exec                     read case lines, print `tag \t input \t coq-scase`
use std::io::Write;
use vh_exec::flat::*;
use vh_exec::*;

struct Req {
    ins: Vec<(u32, Data)>,
    outs: Vec<u32>,
    owned: Vec<bool>,
}

fn parse(line: &str) -> Option<(GraphSpec, Vec<Req>)> {
    let rest = line.trim().strip_prefix("S ")?;
    let (g, reqs) = rest.split_once('|')?;
    let spec = parse_graph(g);
    let reqs = reqs
        .split('#')
        .map(|r| {
            let p: Vec<&str> = r.split('~').collect();
            Req { ins: parse_inputs(p[0]), outs: parse_ids(p[1]), owned: p[2].chars().map(|c| c == '1').collect() }
        })
        .collect();
    Some((spec, reqs))
}

fn run_req(g: &TestGraph, r: &Req) -> (IRes, bool) {
    let inputs: Vec<RunInput> = r
        .ins
        .iter()
        .enumerate()
        .map(|(i, (id, d))| RunInput { id: *id, data: d.values(), owned: r.owned.get(i).copied().unwrap_or(false) })
        .collect();
    let before = g.constants();
    let cfg = RunCfg { threads: None, use_pool: None };
    let rep = no_panic(|| g.run(&inputs, &r.outs, &cfg));
    let consts_ok = no_panic(|| g.constants()).map(|a| a == before).unwrap_or(false);
    match rep {
        None => (IRes::Panic, consts_ok),
        Some(rep) => {
            let expect: Vec<Vec<i32>> = inputs.iter().filter(|i| !i.owned).map(|i| i.data.clone()).collect();
            let ok = consts_ok && rep.borrowed_after == expect;
            (
                match rep.result {
                    Ok(outs) => IRes::Ok(outs.iter().map(|(_, d)| vsig(d)).collect()),
                    Err(_) => IRes::Err,
                },
                ok,
            )
        }
    }
}

fn exec_line(line: &str) -> String {
    let Some((spec, reqs)) = parse(line) else {
        return format!("trivial-skip\t{}\t{{| sq_steps := nil; sq_intact := true |}}", line);
    };
    let g = TestGraph::build(&spec, false);
    let mut steps = vec![];
    let mut intact = true;
    let mut narrowed = false;
    let mut prev: Option<(Vec<u32>, Vec<u32>)> = None;
    let mut any_ok = false;
    for r in &reqs {
        let (seq, ok1) = run_req(&g, r);
        let fresh_g = TestGraph::build(&spec, false);
        let (fresh, ok2) = run_req(&fresh_g, r);
        intact &= ok1 && ok2;
        any_ok |= matches!(fresh, IRes::Ok(_));
        let ids: Vec<u32> = r.ins.iter().map(|(i, _)| *i).collect();
        if let Some((pi, po)) = &prev {
            if ids.len() < pi.len() && ids.iter().all(|i| pi.contains(i)) && r.outs.iter().all(|o| po.contains(o)) {
                narrowed = true;
            }
        }
        prev = Some((ids, r.outs.clone()));
        steps.push(format!("({}, {})", seq.coq(), fresh.coq()));
    }
    let term = format!("{{| sq_steps := {}; sq_intact := {} |}}", coq_cons(&steps), intact);
    let tag = format!("{}seq{}{}", if any_ok { "" } else { "trivial-" }, reqs.len(), if narrowed { "-narrowed" } else { "" });
    format!("{}\t{}\t{}", tag, line, term)
}

fn timeout_line(line: &str) -> String {
    format!("timeout\t{}\t{{| sq_steps := (cons (ITimeout, IErr) nil); sq_intact := true |}}", line)
}

/// run inputs that value `v` transitively depends on (ignoring caller overrides)
fn support(spec: &GraphSpec, n_in: usize, v: u32, acc: &mut Vec<u32>) {
    if (v as usize) < n_in {
        if !acc.contains(&v) {
            acc.push(v);
        }
        return;
    }
    for node in &spec.nodes {
        if let NodeSpec::Op { inputs, outputs, .. } = node {
            if outputs.contains(&Some(v)) {
                for i in inputs.iter().flatten() {
                    support(spec, n_in, *i, acc);
                }
            }
        }
    }
}

fn fmt_req(r: &Req) -> String {
    format!(
        "{}~{}~{}",
        fmt_inputs(&r.ins),
        fmt_list(&r.outs),
        r.owned.iter().map(|b| if *b { '1' } else { '0' }).collect::<String>()
    )
}

fn generate(seed: u64, n: usize, _tier: &str, out: &mut dyn Write) {
    let mut rng = SplitMix64(seed ^ 0x255);
    for i in 0..n {
        let opts = GenOpts {
            max_ops: if i % 3 == 0 { 8 } else { 5 },
            ip8: 5,
            computed_inputs: false,
            nondet: false,
            ext_outputs: false,
            all_mut: false,
            n_in: 2 + (i % 3),
            small: true,
        };
        let (spec, ins, consts, _) = random_graph(&mut rng, &opts);
        let n_in = ins.len();
        // computed values (outputs of operators)
        let mut computed: Vec<u32> = vec![];
        for node in &spec.nodes {
            if let NodeSpec::Op { outputs, .. } = node {
                computed.extend(outputs.iter().flatten());
            }
        }
        if computed.is_empty() {
            continue;
        }
        let pick_outs = |rng: &mut SplitMix64, from: &[u32], k: usize| -> Vec<u32> {
            let mut o = vec![];
            for _ in 0..k {
                let v = from[rng.below(from.len() as u64) as usize];
                if !o.contains(&v) {
                    o.push(v);
                }
            }
            o
        };
        let data_for = |rng: &mut SplitMix64| { let l = 1 + rng.below(3) as usize; rand_data(rng, l) };
        let nreq = 2 + rng.below(3) as usize;
        let mut reqs: Vec<Req> = vec![];
        for k in 0..nreq {
            let prev = reqs.last();
            let kind = if k == 0 { rng.below(2) } else { rng.below(5) };
            let (mut rins, routs): (Vec<(u32, Data)>, Vec<u32>) = match (kind, prev) {
                // narrow the previous request: a subset of its outputs, only the inputs they need
                (2..=4, Some(p)) => {
                    let k_out = 1 + rng.below(p.outs.len() as u64) as usize;
                    let outs = pick_outs(&mut rng, &p.outs, k_out);
                    let mut sup = vec![];
                    for o in &outs {
                        support(&spec, n_in, *o, &mut sup);
                    }
                    sup.sort();
                    let rins = sup.iter().map(|v| ins[*v as usize].clone()).collect();
                    (rins, outs)
                }
                // all inputs plus an intermediate supplied by the caller
                (1, _) => {
                    let t = computed[rng.below(computed.len() as u64) as usize];
                    let mut rins = ins.clone();
                    let d = data_for(&mut rng);
                    rins.push((t, d));
                    let k_out = 1 + rng.below(3) as usize;
                    (rins, pick_outs(&mut rng, &computed, k_out))
                }
                // all inputs
                _ => {
                    let k_out = 1 + rng.below(3) as usize;
                    (ins.clone(), pick_outs(&mut rng, &computed, k_out))
                }
            };
            if rng.chance(1, 6) && rins.len() > 1 {
                rins.reverse();
            }
            let owned = (0..rins.len()).map(|_| rng.chance(1, 3)).collect();
            reqs.push(Req { ins: rins, outs: routs, owned });
        }
        let body: Vec<String> = reqs.iter().map(fmt_req).collect();
        writeln!(out, "S {}|{}", fmt_graph(&spec, &consts), body.join("#")).unwrap();
    }
}

fn main() {
    harness_main(generate, exec_line, timeout_line, 60);
}
