//! C04 correspondence: `Graph::partial_run` followed by `Graph::run` versus a single `Graph::run`,
//! for ALL subsets of the run inputs, on random DAGs of test operators with one non-deterministic
//! operator (it mixes a global counter into its output).
//!
//!   c04 gen <seed> <n> <tier>     print case lines `nodes|inputs|outs|` (format: see lib.rs)
//!   c04 exec                      read case lines, print `tag \t input \t coq-case4`
use rten::verif::exec::reset_counter;
use std::io::Write;
use vh_exec::flat::*;
use vh_exec::*;

const NONCE: i32 = 1000;

fn to_ires(rep: Option<RunReport<Vec<(Vec<usize>, Vec<i32>)>>>) -> IRes {
    match rep {
        None => IRes::Panic,
        Some(rep) => match rep.result {
            Ok(outs) => IRes::Ok(outs.iter().map(|(_, d)| vsig(d)).collect()),
            Err(_) => IRes::Err,
        },
    }
}

fn coq_plan(p: &Option<Vec<u32>>) -> String {
    match p {
        Some(p) => format!("Some {}", coq_list(p)),
        None => "None".to_string(),
    }
}

fn exec_line(line: &str) -> String {
    let c = parse_case(line);
    let g = TestGraph::build(&c.spec, false);
    let cfg = RunCfg { threads: None, use_pool: None };
    let all: Vec<RunInput> =
        c.ins.iter().map(|(id, d)| RunInput { id: *id, data: d.values(), owned: false }).collect();
    reset_counter(NONCE);
    let full = to_ires(no_panic(|| g.run(&all, &c.outs, &cfg)));
    let n = c.ins.len();
    let mut subsets = vec![];
    let mut any_leaf_computed = false;
    let mut nondet_needed = false;
    for mask in 0..(1u32 << n) {
        let bits: Vec<bool> = (0..n).map(|i| mask >> i & 1 == 1).collect();
        let i0: Vec<RunInput> = all.iter().zip(&bits).filter(|(_, b)| **b).map(|(i, _)| i.clone()).collect();
        let rest: Vec<RunInput> = all.iter().zip(&bits).filter(|(_, b)| !**b).map(|(i, _)| i.clone()).collect();
        let i0_ids: Vec<u32> = i0.iter().map(|i| i.id).collect();
        let am_plan = no_panic(|| g.plan_allow_missing(&i0_ids, &c.outs)).and_then(|p| p.ok());
        reset_counter(1);
        let part = no_panic(|| g.partial_run(&i0, &c.outs, &cfg));
        let (leaves, partial_ops): (Option<Vec<(u32, Vec<i32>)>>, Vec<u32>) = match part {
            Some(rep) => (
                rep.result.ok().map(|l| l.into_iter().map(|(id, (_, d))| (id, d)).collect()),
                rep.trace.iter().map(|e| e.uid).collect(),
            ),
            None => (None, vec![]),
        };
        let (plan2, fin) = match &leaves {
            Some(l) => {
                // the completing run: remaining inputs + leaves (leaves alternately owned / borrowed)
                let mut ins2 = rest.clone();
                for (k, (id, d)) in l.iter().enumerate() {
                    if ins2.iter().any(|i| i.id == *id) {
                        continue;
                    }
                    ins2.push(RunInput { id: *id, data: d.clone(), owned: (k + mask as usize) % 2 == 0 });
                }
                let ids2: Vec<u32> = ins2.iter().map(|i| i.id).collect();
                let plan2 = no_panic(|| g.plan(&ids2, &c.outs)).and_then(|p| p.ok());
                reset_counter(NONCE);
                (plan2, to_ires(no_panic(|| g.run(&ins2, &c.outs, &cfg))))
            }
            None => (None, IRes::Err),
        };
        if !partial_ops.is_empty() {
            any_leaf_computed = true;
        }
        let leaves_coq = match &leaves {
            Some(l) => format!(
                "Some {}",
                coq_cons(
                    &l.iter()
                        .map(|(id, d)| {
                            let (len, h) = vsig(d);
                            format!("({}, ({}%nat, {}%Z))", id, len, h)
                        })
                        .collect::<Vec<_>>()
                )
            ),
            None => "None".to_string(),
        };
        subsets.push(format!(
            "(Build_subset_obs {} ({}) ({}) {} ({}) ({}))",
            coq_list(&bits), coq_plan(&am_plan), leaves_coq, coq_list(&partial_ops), coq_plan(&plan2), fin.coq()
        ));
    }
    // does the full plan contain the non-deterministic operator?
    let in_ids: Vec<u32> = c.ins.iter().map(|(i, _)| *i).collect();
    if let Some(Ok(p)) = no_panic(|| g.plan(&in_ids, &c.outs)) {
        nondet_needed = p.iter().any(|o| match &c.spec.nodes[*o as usize] {
            NodeSpec::Op { kind: OpKind::Test(t), .. } => !t.deterministic,
            _ => false,
        });
    }
    let ins: Vec<String> = c.ins.iter().map(|(i, d)| format!("({}, {})", i, d.coq())).collect();
    let term = format!(
        "{{| c4_graph := {}; c4_ops := {}; c4_consts := {}; c4_ins := {}; c4_outs := {}; c4_nonce := {}%Z; c4_full := {}; c4_subsets := {} |}}",
        coq_graph(&c.spec), coq_ops(&c.spec), coq_consts(&c.consts), coq_cons(&ins), coq_list(&c.outs), NONCE, full.coq(), coq_cons(&subsets)
    );
    let tag = format!(
        "{}-in{}{}{}",
        match full { IRes::Ok(_) => "ok", IRes::Err => "err", _ => "anomaly" },
        n,
        if nondet_needed { "-nondet" } else { "" },
        if any_leaf_computed { "" } else { "-nofold" }
    );
    let tag = if !any_leaf_computed && !nondet_needed { format!("trivial-{}", tag) } else { tag };
    format!("{}\t{}\t{}", tag, line, term)
}

fn timeout_line(line: &str) -> String {
    let c = parse_case(line);
    format!(
        "timeout\t{}\t{{| c4_graph := {}; c4_ops := nil; c4_consts := nil; c4_ins := nil; c4_outs := nil; c4_nonce := 0%Z; c4_full := ITimeout; c4_subsets := (cons (Build_subset_obs nil None None nil None ITimeout) nil) |}}",
        line, coq_graph(&c.spec)
    )
}

fn generate(seed: u64, n: usize, _tier: &str, out: &mut dyn Write) {
    let mut rng = SplitMix64(seed ^ 0x04);
    for i in 0..n {
        let opts = GenOpts {
            max_ops: if i % 4 == 0 { 12 } else { 6 },
            ip8: 4,
            computed_inputs: false,
            nondet: i % 5 != 4,
            ext_outputs: i % 6 == 0,
            all_mut: false,
            n_in: 1 + (i % 5),
            small: true,
        };
        let (spec, ins, consts, outs) = random_graph(&mut rng, &opts);
        writeln!(out, "{}", fmt_case(&Case { spec, ins, consts, outs, runs: vec![] })).unwrap();
    }
}

fn main() {
    harness_main(generate, exec_line, timeout_line, 120);
}
