//! C02, real-operator strategy family: tiny ONNX models (hand-encoded protobuf, public API only)
//! with MatMul / Gemm / Conv over CONSTANT weights at top level and inside `If` branches and `Loop`
//! bodies (both branches of an `If` have same-shaped but different weights, at the same node ids),
//! loaded with weight prepacking on/off and graph optimisation on/off, run on thread pools of
//! 1 / 2 / 16 threads and with owned / borrowed inputs. Data is integer valued, so every result is
//! exact; the reference is a plain triple loop (i64) in this file.
//!
//!   c02r gen <seed> <n> <tier>    print case lines `R m,k,n0,n1|seed|cond|trip|flags`
//!   c02r exec                     read case lines, print `tag \t input \t coq-rcase`
//!
//! flags (bits): 1 top-level Gemm (else MatMul); 2 then-branch Gemm; 4 else-branch Gemm; 8 Loop;
//! 16 Loop scan output; 32 Conv path; 64 the Loop body contains an If capturing the outer `cond`;
//! 128 fan-out model instead: v (= x, or MatMul(x, W0) with flag 256) is consumed by `Add(v, v)` and
//! then by a chain of `trip` further `Add(prev, v)` operators and a final `Mul(prev, v)`.
use rten::{Model, ModelOptions, RunOptions, ThreadPool, Value, ValueOrView};
use rten_tensor::prelude::*;
use rten_tensor::Tensor;
use std::io::Write;
use std::sync::Arc;
use vh_exec::*;

// ---- minimal protobuf writer ------------------------------------------------
#[derive(Default, Clone)]
struct Pb(Vec<u8>);
impl Pb {
    fn varint(&mut self, mut v: u64) {
        loop {
            let byte = (v & 0x7f) as u8;
            v >>= 7;
            if v == 0 {
                self.0.push(byte);
                break;
            }
            self.0.push(byte | 0x80);
        }
    }
    fn int(mut self, field: u64, v: i64) -> Self {
        self.varint(field << 3);
        self.varint(v as u64);
        self
    }
    fn bytes(mut self, field: u64, b: &[u8]) -> Self {
        self.varint((field << 3) | 2);
        self.varint(b.len() as u64);
        self.0.extend_from_slice(b);
        self
    }
    fn string(self, field: u64, s: &str) -> Self {
        self.bytes(field, s.as_bytes())
    }
    fn msg(self, field: u64, m: Pb) -> Self {
        self.bytes(field, &m.0)
    }
}
fn value_info(name: &str) -> Pb {
    Pb::default().string(1, name)
}
fn graph_attr(name: &str, graph: Pb) -> Pb {
    Pb::default().string(1, name).msg(6, graph).int(20, 5)
}
fn ints_attr(name: &str, vals: &[i64]) -> Pb {
    // rten-onnx reads `ints` as a non-packed repeated field
    let mut a = Pb::default().string(1, name);
    for v in vals {
        a = a.int(8, *v);
    }
    a.int(20, 7)
}
fn conv_attrs() -> Vec<Pb> {
    vec![ints_attr("strides", &[1, 1]), ints_attr("kernel_shape", &[3, 3])]
}
fn float_tensor(name: &str, dims: &[usize], data: &[i64]) -> Pb {
    let mut t = Pb::default();
    for d in dims {
        t = t.int(1, *d as i64);
    }
    let raw: Vec<u8> = data.iter().flat_map(|x| (*x as f32).to_le_bytes()).collect();
    t.int(2, 1).string(8, name).bytes(9, &raw)
}
fn node(op: &str, name: &str, inputs: &[&str], outputs: &[&str], attrs: Vec<Pb>) -> Pb {
    let mut n = Pb::default();
    for i in inputs {
        n = n.string(1, i);
    }
    for o in outputs {
        n = n.string(2, o);
    }
    n = n.string(3, name).string(4, op);
    for a in attrs {
        n = n.msg(5, a);
    }
    n
}
fn model_bytes(graph: Pb) -> Vec<u8> {
    let opset = Pb::default().string(1, "").int(2, 17);
    Pb::default().int(1, 8).msg(8, opset).msg(7, graph).0
}

// ---- the model family ---------------------------------------------------------
#[derive(Clone, Debug)]
struct Desc {
    m: usize,
    k: usize,
    n0: usize,
    n1: usize,
    seed: u64,
    cond: i32,
    trip: i32,
    flags: u32,
}
const CH: usize = 2; // conv: input 1 x CH x 5 x 5, kernels 3 x CH x 3 x 3
const CO: usize = 3;

type Mat = (Vec<usize>, Vec<i64>);

fn weights(rng: &mut SplitMix64, dims: &[usize], amp: i64) -> Mat {
    let n: usize = dims.iter().product();
    (dims.to_vec(), (0..n).map(|_| rng.below((2 * amp + 1) as u64) as i64 - amp).collect())
}

struct Weights {
    w0: Mat,
    b0: Mat,
    wt: Mat,
    bt: Mat,
    we: Mat,
    be: Mat,
    wl: Mat,
    wla: Mat,
    wlb: Mat,
    ws: Mat,
    c0: Mat,
    ct: Mat,
    ce: Mat,
    x: Mat,
    x4: Mat,
}

fn make_weights(d: &Desc) -> Weights {
    let mut rng = SplitMix64(d.seed ^ 0xC02B);
    Weights {
        w0: weights(&mut rng, &[d.k, d.n0], 2),
        b0: weights(&mut rng, &[d.n0], 3),
        wt: weights(&mut rng, &[d.n0, d.n1], 2),
        bt: weights(&mut rng, &[d.n1], 3),
        we: weights(&mut rng, &[d.n0, d.n1], 2),
        be: weights(&mut rng, &[d.n1], 3),
        wl: weights(&mut rng, &[d.n1, d.n1], 1),
        wla: weights(&mut rng, &[d.n1, d.n1], 1),
        wlb: weights(&mut rng, &[d.n1, d.n1], 1),
        ws: weights(&mut rng, &[d.n1, 2], 1),
        c0: weights(&mut rng, &[CO, CH, 3, 3], 2),
        ct: weights(&mut rng, &[CO, CH, 3, 3], 2),
        ce: weights(&mut rng, &[CO, CH, 3, 3], 2),
        x: weights(&mut rng, &[d.m, d.k], 3),
        x4: weights(&mut rng, &[1, CH, 5, 5], 3),
    }
}

fn init(name: &str, m: &Mat) -> Pb {
    float_tensor(name, &m.0, &m.1)
}

/// `out = MatMul(inp, w)` or `Gemm(inp, w, b)`, with `w`/`b` initializers of the same graph.
fn linear_graph(gname: &str, inp: &str, w: &Mat, b: Option<&Mat>) -> Pb {
    let mut g = Pb::default();
    g = match b {
        Some(_) => g.msg(1, node("Gemm", "lin", &[inp, "w", "b"], &["out"], vec![])),
        None => g.msg(1, node("MatMul", "lin", &[inp, "w"], &["out"], vec![])),
    };
    g = g.string(2, gname).msg(5, init("w", w));
    if let Some(b) = b {
        g = g.msg(5, init("b", b));
    }
    g.msg(12, value_info("out"))
}

fn conv_graph(gname: &str, w: &Mat) -> Pb {
    Pb::default()
        .msg(1, node("Conv", "conv", &["x4", "w"], &["out"], conv_attrs()))
        .string(2, gname)
        .msg(5, init("w", w))
        .msg(12, value_info("out"))
}

fn build_fan(d: &Desc, w: &Weights) -> (Vec<u8>, Vec<&'static str>) {
    let mut g = Pb::default();
    let v = if d.flags & 256 != 0 {
        g = g.msg(1, node("MatMul", "top", &["x", "w0"], &["v"], vec![]));
        "v"
    } else {
        "x"
    };
    g = g.msg(1, node("Add", "add0", &[v, v], &["a0"], vec![]));
    let mut prev = "a0".to_string();
    for j in 1..=d.trip.max(0) {
        let name = format!("a{}", j);
        g = g.msg(1, node("Add", &format!("add{}", j), &[&prev, v], &[&name], vec![]));
        prev = name;
    }
    g = g.msg(1, node("Mul", "last", &[&prev, v], &["z"], vec![]));
    g = g.string(2, "c02r_fan");
    if d.flags & 256 != 0 {
        g = g.msg(5, init("w0", &w.w0));
    }
    g = g.msg(11, value_info("x")).msg(11, value_info("cond")).msg(12, value_info("z"));
    (model_bytes(g), vec!["z"])
}

fn reference_fan(d: &Desc, w: &Weights) -> Vec<Mat> {
    let v = if d.flags & 256 != 0 { matmul(&w.x, &w.w0, None) } else { w.x.clone() };
    let k = 2 + d.trip.max(0) as i64; // a_trip = (2 + trip) * v
    (vec![(v.0.clone(), v.1.iter().map(|x| k * x * x).collect())]).into_iter().collect()
}

fn build(d: &Desc, w: &Weights) -> (Vec<u8>, Vec<&'static str>) {
    if d.flags & 128 != 0 {
        return build_fan(d, w);
    }
    let f = d.flags;
    let mut g = Pb::default();
    let mut outs: Vec<&'static str> = vec![];
    // top level
    g = if f & 1 != 0 {
        g.msg(1, node("Gemm", "top", &["x", "w0", "b0"], &["h0"], vec![]))
    } else {
        g.msg(1, node("MatMul", "top", &["x", "w0"], &["h0"], vec![]))
    };
    let then_g = linear_graph("then", "h0", &w.wt, if f & 2 != 0 { Some(&w.bt) } else { None });
    let else_g = linear_graph("else", "h0", &w.we, if f & 4 != 0 { Some(&w.be) } else { None });
    g = g.msg(
        1,
        node("If", "if1", &["cond"], &["y1"], vec![graph_attr("then_branch", then_g), graph_attr("else_branch", else_g)]),
    );
    outs.push("y1");
    if f & 8 != 0 {
        let mut body = Pb::default().msg(1, node("Identity", "idc", &["c_in"], &["c_out"], vec![]));
        if f & 64 != 0 {
            let a = linear_graph("la", "v_in", &w.wla, None);
            let b = linear_graph("lb", "v_in", &w.wlb, None);
            body = body.msg(
                1,
                node("If", "ifl", &["cond"], &["v_out"], vec![graph_attr("then_branch", a), graph_attr("else_branch", b)]),
            );
        } else {
            body = body.msg(1, node("MatMul", "lm", &["v_in", "wl"], &["v_out"], vec![])).msg(5, init("wl", &w.wl));
        }
        if f & 16 != 0 {
            body = body.msg(1, node("MatMul", "sm", &["v_in", "ws"], &["s_out"], vec![])).msg(5, init("ws", &w.ws));
        }
        body = body
            .string(2, "body")
            .msg(11, value_info("iter"))
            .msg(11, value_info("c_in"))
            .msg(11, value_info("v_in"))
            .msg(12, value_info("c_out"))
            .msg(12, value_info("v_out"));
        if f & 16 != 0 {
            body = body.msg(12, value_info("s_out"));
        }
        let louts: Vec<&str> = if f & 16 != 0 { vec!["y2", "scan"] } else { vec!["y2"] };
        g = g.msg(1, node("Loop", "loop", &["trip", "", "y1"], &louts, vec![graph_attr("body", body)]));
        outs.push("y2");
        if f & 16 != 0 {
            outs.push("scan");
        }
    }
    if f & 32 != 0 {
        g = g.msg(1, node("Conv", "conv0", &["x4", "c0"], &["y4"], conv_attrs()));
        g = g.msg(
            1,
            node(
                "If",
                "if2",
                &["cond"],
                &["y3"],
                vec![graph_attr("then_branch", conv_graph("ct", &w.ct)), graph_attr("else_branch", conv_graph("ce", &w.ce))],
            ),
        );
        outs.push("y4");
        outs.push("y3");
    }
    g = g.string(2, "c02r").msg(5, init("w0", &w.w0));
    if f & 1 != 0 {
        g = g.msg(5, init("b0", &w.b0));
    }
    if f & 32 != 0 {
        g = g.msg(5, init("c0", &w.c0));
    }
    g = g.msg(11, value_info("x")).msg(11, value_info("cond"));
    if f & 8 != 0 {
        g = g.msg(11, value_info("trip"));
    }
    if f & 32 != 0 {
        g = g.msg(11, value_info("x4"));
    }
    for o in &outs {
        g = g.msg(12, value_info(o));
    }
    (model_bytes(g), outs)
}

// ---- reference: plain loops over i64 -----------------------------------------
fn matmul(a: &Mat, b: &Mat, bias: Option<&Mat>) -> Mat {
    let (m, k, n) = (a.0[0], a.0[1], b.0[1]);
    let mut out = vec![0i64; m * n];
    for i in 0..m {
        for j in 0..n {
            let mut acc = 0i64;
            for l in 0..k {
                acc += a.1[i * k + l] * b.1[l * n + j];
            }
            out[i * n + j] = acc + bias.map(|b| b.1[j]).unwrap_or(0);
        }
    }
    (vec![m, n], out)
}

fn conv(x: &Mat, w: &Mat) -> Mat {
    let (c, h, wd) = (x.0[1], x.0[2], x.0[3]);
    let (o, kh, kw) = (w.0[0], w.0[2], w.0[3]);
    let (oh, ow) = (h - kh + 1, wd - kw + 1);
    let mut out = vec![0i64; o * oh * ow];
    for oc in 0..o {
        for y in 0..oh {
            for xx in 0..ow {
                let mut acc = 0i64;
                for ic in 0..c {
                    for dy in 0..kh {
                        for dx in 0..kw {
                            acc += x.1[(ic * h + y + dy) * wd + xx + dx] * w.1[((oc * c + ic) * kh + dy) * kw + dx];
                        }
                    }
                }
                out[(oc * oh + y) * ow + xx] = acc;
            }
        }
    }
    (vec![1, o, oh, ow], out)
}

fn reference(d: &Desc, w: &Weights) -> Vec<Mat> {
    if d.flags & 128 != 0 {
        return reference_fan(d, w);
    }
    let f = d.flags;
    let h0 = matmul(&w.x, &w.w0, if f & 1 != 0 { Some(&w.b0) } else { None });
    let y1 = if d.cond != 0 {
        matmul(&h0, &w.wt, if f & 2 != 0 { Some(&w.bt) } else { None })
    } else {
        matmul(&h0, &w.we, if f & 4 != 0 { Some(&w.be) } else { None })
    };
    let mut outs = vec![y1.clone()];
    if f & 8 != 0 {
        let mut v = y1;
        let mut scans: Vec<i64> = vec![];
        for _ in 0..d.trip.max(0) {
            if f & 16 != 0 {
                scans.extend(matmul(&v, &w.ws, None).1);
            }
            v = if f & 64 != 0 {
                matmul(&v, if d.cond != 0 { &w.wla } else { &w.wlb }, None)
            } else {
                matmul(&v, &w.wl, None)
            };
        }
        outs.push(v);
        if f & 16 != 0 {
            outs.push((vec![d.trip.max(0) as usize, d.m, 2], scans));
        }
    }
    if f & 32 != 0 {
        outs.push(conv(&w.x4, &w.c0));
        outs.push(conv(&w.x4, if d.cond != 0 { &w.ct } else { &w.ce }));
    }
    outs
}

/// (length, checksum over shape and elements)
fn msig(shape: &[usize], data: &[i64]) -> (usize, i64) {
    let mut h = 0i64;
    for d in shape {
        h = rten::verif::exec::mix(h, *d as i64);
    }
    for x in data {
        h = rten::verif::exec::mix(h, *x);
    }
    (data.len(), h)
}

// ---- running -------------------------------------------------------------------
fn parse(line: &str) -> Option<Desc> {
    let rest = line.trim().strip_prefix("R ")?;
    let p: Vec<&str> = rest.split('|').collect();
    let dims = parse_ids(p[0]);
    Some(Desc {
        m: dims[0] as usize,
        k: dims[1] as usize,
        n0: dims[2] as usize,
        n1: dims[3] as usize,
        seed: p[1].parse().unwrap(),
        cond: p[2].parse().unwrap(),
        trip: p[3].parse().unwrap(),
        flags: p[4].parse().unwrap(),
    })
}

fn tensor(m: &Mat) -> Tensor<f32> {
    Tensor::from_data(&m.0, m.1.iter().map(|x| *x as f32).collect::<Vec<f32>>())
}

/// Thread pools are created once and shared by all cases.
fn pool(threads: usize) -> Arc<ThreadPool> {
    use std::sync::{Mutex, OnceLock};
    static POOLS: OnceLock<Mutex<Vec<(usize, Arc<ThreadPool>)>>> = OnceLock::new();
    let mut pools = POOLS.get_or_init(|| Mutex::new(Vec::new())).lock().unwrap();
    if let Some((_, p)) = pools.iter().find(|(n, _)| *n == threads) {
        return p.clone();
    }
    let p = Arc::new(ThreadPool::with_num_threads(threads));
    pools.push((threads, p.clone()));
    p
}

fn vf32(t: &Tensor<f32>, owned: bool) -> ValueOrView<'_> {
    if owned { Value::from(t.clone()).into() } else { t.view().into() }
}
fn vi32(t: &Tensor<i32>, owned: bool) -> ValueOrView<'_> {
    if owned { Value::from(t.clone()).into() } else { t.view().into() }
}

fn run_once(model: &Model, d: &Desc, w: &Weights, outs: &[&str], owned: bool, threads: usize) -> IRes {
    let x = tensor(&w.x);
    let x4 = tensor(&w.x4);
    let cond = Tensor::from(d.cond);
    let trip = Tensor::from(d.trip);
    let r = no_panic(|| {
        let mut inputs: Vec<(rten::NodeId, ValueOrView)> = vec![];
        let id = |name: &str| model.node_id(name).map_err(|_| ());
        inputs.push((id("x")?, vf32(&x, owned)));
        inputs.push((id("cond")?, vi32(&cond, owned)));
        if d.flags & 8 != 0 && d.flags & 128 == 0 {
            inputs.push((id("trip")?, vi32(&trip, owned)));
        }
        if d.flags & 32 != 0 && d.flags & 128 == 0 {
            inputs.push((id("x4")?, vf32(&x4, owned)));
        }
        let out_ids: Vec<rten::NodeId> = outs.iter().map(|o| model.node_id(o).map_err(|_| ())).collect::<Result<_, _>>()?;
        let opts = if threads == 0 { None } else { Some(RunOptions::default().with_thread_pool(Some(pool(threads)))) };
        model.run(inputs, &out_ids, opts).map_err(|e| {
            if std::env::var("C02R_DEBUG").is_ok() {
                eprintln!("run error: {}", e);
            }
        })
    });
    match r {
        None => IRes::Panic,
        Some(Err(())) => IRes::Err,
        Some(Ok(vals)) => {
            let mut sigs = vec![];
            for v in &vals {
                let Some(t) = v.as_tensor_view::<f32>() else { return IRes::Err };
                let data: Vec<f32> = t.iter().copied().collect();
                if data.iter().any(|x| x.fract() != 0.0 || x.abs() > 1.0e7) {
                    // not an exactly representable integer: cannot happen for correct kernels here
                    return IRes::Panic;
                }
                sigs.push(msig(t.shape(), &data.iter().map(|x| *x as i64).collect::<Vec<_>>()));
            }
            IRes::Ok(sigs)
        }
    }
}

/// strategy code = prepack + 2*optimize + 4*owned + 8*threads
const STRATEGIES: [(bool, bool, bool, usize); 9] = [
    (false, false, false, 0),
    (true, false, false, 0),
    (true, false, true, 0),
    (false, true, false, 0),
    (true, true, true, 0),
    (true, false, false, 1),
    (true, false, true, 2),
    (true, false, false, 16),
    (false, false, true, 16),
];

fn exec_line(line: &str) -> String {
    let Some(d) = parse(line) else {
        return format!("trivial-skip\t{}\t{{| rr_ref := IOk nil; rr_runs := nil |}}", line);
    };
    let w = make_weights(&d);
    let (bytes, outs) = build(&d, &w);
    let reference = IRes::Ok(reference(&d, &w).iter().map(|(s, v)| msig(s, v)).collect());
    let mut runs = vec![];
    let mut models: Vec<((bool, bool), Option<Model>)> = vec![];
    for (prepack, optimize, owned, threads) in STRATEGIES {
        if !models.iter().any(|(k, _)| *k == (prepack, optimize)) {
            let m = no_panic(|| {
                let mut opts = ModelOptions::with_all_ops();
                opts.enable_optimization(optimize);
                opts.prepack_weights(prepack);
                match opts.load(bytes.clone()) {
                    Ok(m) => Some(m),
                    Err(e) => {
                        if std::env::var("C02R_DEBUG").is_ok() {
                            eprintln!("load error: {}", e);
                        }
                        None
                    }
                }
            })
            .flatten();
            models.push(((prepack, optimize), m));
        }
        let model = &models.iter().find(|(k, _)| *k == (prepack, optimize)).unwrap().1;
        let res = match model {
            Some(m) => run_once(m, &d, &w, &outs, owned, threads),
            None => IRes::Err,
        };
        let code = prepack as usize + 2 * optimize as usize + 4 * owned as usize + 8 * threads;
        runs.push(format!("({}, {})", code, res.coq()));
    }
    let term = format!("{{| rr_ref := {}; rr_runs := {} |}}", reference.coq(), coq_cons(&runs));
    let f = d.flags;
    if f & 128 != 0 {
        return format!("real-fan{}{}\t{}\t{}", d.trip + 3, if f & 256 != 0 { "-interm" } else { "" }, line, term);
    }
    let tag = format!(
        "real-{}{}{}{}",
        if f & 8 != 0 { "loop" } else { "if" },
        if f & 64 != 0 { "-nested" } else { "" },
        if f & 32 != 0 { "-conv" } else { "" },
        if d.m > 1 { "" } else { "-vec" }
    );
    format!("{}\t{}\t{}", tag, line, term)
}

fn timeout_line(line: &str) -> String {
    format!("timeout\t{}\t{{| rr_ref := IOk nil; rr_runs := (cons (0, ITimeout) nil) |}}", line)
}

fn generate(seed: u64, n: usize, _tier: &str, out: &mut dyn Write) {
    let mut rng = SplitMix64(seed ^ 0x02B);
    // fan-out models: uses of v = trip + 3 (Add(v,v) counts twice): 255, 256, 257, ~300
    for (k, uses) in [255, 256, 257, 300].iter().enumerate() {
        let interm = (k as u64 + seed) % 2 == 0;
        writeln!(out, "R 3,2,3,1|{}|0|{}|{}", rng.below(1_000_000), uses - 3, 128 + if interm { 256 } else { 0 }).unwrap();
    }
    for i in 0..n {
        let m = if i % 6 == 5 { 1 } else { 2 + rng.below(4) as usize };
        let k = 1 + rng.below(6) as usize;
        let n0 = 1 + rng.below(6) as usize;
        let n1 = 1 + rng.below(5) as usize;
        let mut flags = rng.below(8) as u32;
        if rng.chance(1, 2) {
            flags |= 8;
            if rng.chance(1, 2) {
                flags |= 16;
            }
            if rng.chance(1, 2) {
                flags |= 64;
            }
        }
        if rng.chance(1, 3) {
            flags |= 32;
        }
        let trip = if flags & 16 != 0 { 1 + rng.below(3) as i32 } else { rng.below(4) as i32 };
        writeln!(out, "R {},{},{},{}|{}|{}|{}|{}", m, k, n0, n1, rng.below(1_000_000), rng.below(2), trip, flags).unwrap();
    }
}

fn main() {
    harness_main(generate, exec_line, timeout_line, 60);
}
