//! C25 correspondence: repeated runs on one graph instance. Constants and borrowed inputs feed
//! in-place capable, buffer-overwriting operators and are requested as outputs; every strategy is
//! run twice, with unrelated requests (other inputs, other outputs) in between; constants and
//! borrowed inputs are read back after every run.
//!
//!   c25 gen <seed> <n> <tier>     print case lines (format: see lib.rs)
//!   c25 exec                      read case lines, print `tag \t input \t coq-case`
use std::io::Write;
use vh_exec::flat::*;
use vh_exec::*;

fn exec_line(line: &str) -> String {
    if line.starts_with("S ") {
        // a case of the run-sequence family (c25s): not ours
        return format!(
            "trivial-skip\t{}\t{{| c_graph := mk_graph nil nil; c_ops := nil; c_consts := nil; c_ins := nil; c_outs := nil; c_plan := Some nil; c_plan_noip := Some nil; c_runs := nil |}}",
            line
        );
    }
    let c = parse_case(line);
    let seed = line.bytes().fold(7u64, |h, b| h.wrapping_mul(131).wrapping_add(b as u64));
    let (tag, term) = exec_case_noise(&c, Some(seed));
    format!("{}\t{}\t{}", tag, line, term)
}

fn timeout_line(line: &str) -> String {
    let c = parse_case(if line.starts_with("S ") { "v|0=1|0|" } else { line });
    format!("timeout\t{}\t{}", line, timeout_term(&c))
}

fn runs(rng: &mut SplitMix64, n_in: usize) -> Vec<RunDesc> {
    let all = |b: bool| vec![b; n_in];
    let mixed: Vec<bool> = (0..n_in).map(|_| rng.chance(1, 2)).collect();
    let mut v = vec![];
    for _ in 0..2 {
        v.push(RunDesc { owned: all(false), pool: true, noip: false, threads: 0 });
        v.push(RunDesc { owned: mixed.clone(), pool: true, noip: false, threads: 0 });
    }
    v.push(RunDesc { owned: all(false), pool: false, noip: false, threads: 0 });
    v.push(RunDesc { owned: all(true), pool: true, noip: false, threads: 0 });
    v.push(RunDesc { owned: all(false), pool: true, noip: false, threads: 2 });
    v
}

fn generate(seed: u64, n: usize, _tier: &str, out: &mut dyn Write) {
    let mut rng = SplitMix64(seed ^ 0x25);
    for i in 0..n {
        let opts = GenOpts {
            max_ops: if i % 4 == 0 { 10 } else { 5 },
            ip8: 8,
            computed_inputs: i % 9 == 0,
            nondet: false,
            ext_outputs: i % 2 == 0,
            all_mut: i % 3 != 0,
            n_in: 0,
            small: false,
        };
        let (spec, ins, consts, outs) = random_graph(&mut rng, &opts);
        let runs = runs(&mut rng, ins.len());
        writeln!(out, "{}", fmt_case(&Case { spec, ins, consts, outs, runs })).unwrap();
    }
}

fn main() {
    harness_main(generate, exec_line, timeout_line, 60);
}
