//! C24 correspondence: graphs with nested `If` / `Loop` operators (the real operators of
//! src/ops/control_flow.rs) around test operators: captures by value and by reference, captured
//! values used again afterwards, in-place overwriting operators inside bodies, zero-iteration
//! loops, scan outputs -- run on the real executor and compared with the inlined evaluation.
//!
//!   c24 gen <seed> <n> <tier>     print case lines (format: see nested.rs)
//!   c24 exec                      read case lines, print `tag \t input \t coq-case24`
use std::io::Write;
use vh_exec::nested::*;
use vh_exec::*;

fn exec_line(line: &str) -> String {
    let c = parse_xcase(line);
    let spec = xgraph_spec(&c.graph);
    let g = TestGraph::build(&spec, false);
    let mut runs = vec![];
    let mut any_ip = false;
    let mut results: Vec<IRes> = vec![];
    for (owned, pool) in &c.runs {
        let inputs: Vec<RunInput> = c
            .ins
            .iter()
            .enumerate()
            .map(|(i, (id, d))| RunInput { id: *id, data: d.values(), owned: owned.get(i).copied().unwrap_or(false) })
            .collect();
        let cfg = RunCfg { threads: None, use_pool: Some(*pool) };
        let rep = no_panic(|| g.run(&inputs, &c.outs, &cfg));
        let res = match rep {
            None => IRes::Panic,
            Some(rep) => {
                any_ip |= rep.trace.iter().any(|e| !e.in_place.is_empty());
                let expect: Vec<Vec<i32>> = inputs.iter().filter(|i| !i.owned).map(|i| i.data.clone()).collect();
                if rep.borrowed_after != expect {
                    IRes::Panic // a borrowed input was modified: reported as an anomaly
                } else {
                    match rep.result {
                        Ok(outs) => IRes::Ok(outs.iter().map(|(_, d)| vsig(d)).collect()),
                        Err(_) => IRes::Err,
                    }
                }
            }
        };
        runs.push(format!("(Build_run24 {} {} ({}))", coq_list(owned), pool, res.coq()));
        results.push(res);
    }
    let ins: Vec<String> = c.ins.iter().map(|(i, d)| format!("({}, {})", i, d.coq())).collect();
    let term = format!(
        "{{| k_graph := {}; k_ins := {}; k_outs := {}; k_runs := {} |}}",
        coq_xgraph(&c.graph),
        coq_cons(&ins),
        coq_list(&c.outs),
        coq_cons(&runs)
    );
    let has_if = has_kind(&c.graph, &|n| matches!(n, XNode::If { .. }));
    let has_loop = has_kind(&c.graph, &|n| matches!(n, XNode::Loop { .. }));
    let tag = format!(
        "{}{}{}-d{}{}",
        match results.first() { Some(IRes::Ok(_)) => "ok", Some(IRes::Err) => "err", _ => "anomaly" },
        if has_if { "-if" } else { "" },
        if has_loop { "-loop" } else { "" },
        depth(&c.graph),
        if any_ip { "-inplace" } else { "" }
    );
    let tag = if !has_if && !has_loop { format!("trivial-{}", tag) } else { tag };
    format!("{}\t{}\t{}", tag, line, term)
}

fn timeout_line(line: &str) -> String {
    format!(
        "timeout\t{}\t{{| k_graph := XG nil nil nil; k_ins := nil; k_outs := nil; k_runs := (cons (Build_run24 nil true ITimeout) nil) |}}",
        line
    )
}

fn generate(seed: u64, n: usize, _tier: &str, out: &mut dyn Write) {
    let mut rng = SplitMix64(seed ^ 0x24);
    for i in 0..n {
        let c = gen_xcase(&mut rng, if i % 3 == 0 { 3 } else { 2 });
        writeln!(out, "{}", fmt_xcase(&c)).unwrap();
    }
}

fn main() {
    harness_main(generate, exec_line, timeout_line, 60);
}
