//! C02 correspondence: `Graph::run` under a matrix of execution strategies (owned / borrowed
//! inputs, RTEN_USE_POOL on/off, thread pools, "never in place" reference build) on random DAGs
//! of table-driven test operators.
//!
//!   c02 gen <seed> <n> <tier>     print case lines (format: see lib.rs)
//!   c02 exec                      read case lines, print `tag \t input \t coq-case`
use std::io::Write;
use vh_exec::flat::*;
use vh_exec::*;

fn exec_line(line: &str) -> String {
    if line.starts_with("R ") {
        // a case of the real-operator family (c02r): not ours
        return format!(
            "trivial-skip\t{}\t{{| c_graph := mk_graph nil nil; c_ops := nil; c_consts := nil; c_ins := nil; c_outs := nil; c_plan := Some nil; c_plan_noip := Some nil; c_runs := nil |}}",
            line
        );
    }
    if let Some(f) = parse_fan(line) {
        let c = fan_case(&f);
        let head = format!(
            "fan_case {} {}%nat {}%nat {} {}",
            f.interm, f.n, f.r, f.vout, f.data.coq()
        );
        let wrap = move |plan: &str, plan_noip: &str, runs: &str| format!("{} {} {} {}", head, plan, plan_noip, runs);
        let (tag, term) = exec_case_full(&c, None, Some(&wrap));
        return format!("fan{}-{}\t{}\t{}", f.n * f.r + 1 + f.vout as usize, tag, line, term);
    }
    let c = parse_case(line);
    let (tag, term) = exec_case(&c);
    format!("{}\t{}\t{}", tag, line, term)
}

/// Fan-out family (`F interm,n,r,vout|data|runs`): see coq/exec/FanModel.v for the layout.
struct Fan {
    interm: bool,
    n: usize,
    r: usize,
    vout: bool,
    data: Data,
    runs: String,
}

fn parse_fan(line: &str) -> Option<Fan> {
    let rest = line.trim().strip_prefix("F ")?;
    let p: Vec<&str> = rest.split('|').collect();
    let f = parse_ids(p[0]);
    Some(Fan { interm: f[0] != 0, n: f[1] as usize, r: f[2] as usize, vout: f[3] != 0, data: Data::parse(p[1]), runs: p[2].to_string() })
}

fn fan_case(f: &Fan) -> Case {
    let (v, base) = if f.interm { (2u32, 3u32) } else { (0u32, 1u32) };
    let mut nodes: Vec<String> = vec!["v".into()];
    if f.interm {
        nodes.push("o:0:2::-:-:-".into());
        nodes.push("v".into());
    }
    for j in 0..f.n as u32 {
        let o = base + 2 * j;
        let mut ins: Vec<String> = vec![v.to_string(); f.r];
        if j > 0 {
            ins.push((o - 1).to_string());
        }
        nodes.push(format!("o:{}:{}:0:m:-:-", ins.join(","), o + 1));
        nodes.push("v".into());
    }
    let e = base + 2 * f.n as u32;
    nodes.push(format!("o:{},{}:{}:1:m:-:-", e - 1, v, e + 1));
    nodes.push("v".into());
    let outs = if f.vout { format!("{},{}", e + 1, v) } else { (e + 1).to_string() };
    parse_case(&format!("{}|0={}|{}|{}", nodes.join(";"), f.data.fmt(), outs, f.runs))
}

fn timeout_line(line: &str) -> String {
    let c = parse_case(if line.starts_with("R ") || line.starts_with("F ") { "v|0=1|0|" } else { line });
    format!("timeout\t{}\t{}", line, timeout_term(&c))
}

/// A value with >= 255 uses: the u8 reference count saturates and becomes sticky.
fn sticky_case(rng: &mut SplitMix64, uses_a: usize, uses_b: usize) -> Case {
    // 0: input, 1: op A(0 x uses_a) -> 2, 3: op B(0 x uses_b, 2) -> 4, 5: in-place op C(0) -> 6
    let line = format!(
        "v;o:{}:2:0:m:-:-;v;o:{},2:4:0:cm:-:-;v;o:0:6:0:m:-:-;v|0={}|4,6|",
        vec!["0"; uses_a].join(","),
        vec!["0"; uses_b].join(","),
        rand_data(rng, 33).fmt()
    );
    let mut c = parse_case(&line);
    c.runs = strategy_matrix(rng, 1, false);
    c
}

fn generate(seed: u64, n: usize, tier: &str, out: &mut dyn Write) {
    let mut rng = SplitMix64(seed);
    let full = tier == "thorough";
    // sticky reference counts (254 / 255 / 256 / 300 uses)
    for (a, b) in [(127, 126), (127, 127), (128, 127), (200, 99), (3, 2)] {
        writeln!(out, "{}", fmt_case(&sticky_case(&mut rng, a, b))).unwrap();
    }
    // fan-out family: uses = n*r + 1 (+1 when the value is also requested) around the u8 saturation point
    let fans: [(usize, usize); 10] = [(254, 1), (127, 2), (255, 1), (51, 5), (85, 3), (256, 1), (128, 2), (64, 4), (299, 1), (23, 13)];
    let picks = if full { 10 } else { 4 };
    for k in 0..picks {
        let (fn_, fr) = if full { fans[k] } else { fans[(rng.below(3) as usize + [2usize, 5, 0, 8][k]) % 10] };
        let interm = rng.chance(1, 2);
        let vout = rng.chance(1, 4);
        writeln!(
            out,
            "F {},{},{},{}|@{}/2|0,1,0,0;1,1,0,0;1,0,0,0;1,1,1,0",
            interm as u8, fn_, fr, vout as u8, rng.below(100000)
        )
        .unwrap();
    }
    for i in 0..n {
        let opts = GenOpts {
            max_ops: if i % 5 == 0 { 14 } else { 6 },
            ip8: if i % 3 == 0 { 7 } else { 4 },
            computed_inputs: i % 7 == 0,
            nondet: false,
            ext_outputs: false,
            all_mut: false,
            n_in: 0,
            small: false,
        };
        let (spec, ins, consts, outs) = random_graph(&mut rng, &opts);
        let runs = strategy_matrix(&mut rng, ins.len(), full || i % 10 == 0);
        writeln!(out, "{}", fmt_case(&Case { spec, ins, consts, outs, runs })).unwrap();
    }
}

fn main() {
    harness_main(generate, exec_line, timeout_line, 60);
}
