//! C02 correspondence: `Graph::run` under a matrix of execution strategies (owned / borrowed
//! inputs, RTEN_USE_POOL on/off, thread pools, "never in place" reference build) on random DAGs
//! of table-driven test operators.
//!
//!   c02 gen <seed> <n> <tier>     print case lines (format: see lib.rs)
//!   c02 exec                      read case lines, print `tag \t input \t coq-case`
use std::io::Write;
use vh_exec::flat::*;
use vh_exec::*;

fn exec_line(line: &str) -> String {
    if line.starts_with("R ") {
        // a case of the real-operator family (c02r): not ours
        return format!(
            "trivial-skip\t{}\t{{| c_graph := mk_graph nil nil; c_ops := nil; c_consts := nil; c_ins := nil; c_outs := nil; c_plan := Some nil; c_plan_noip := Some nil; c_runs := nil |}}",
            line
        );
    }
    let c = parse_case(line);
    let (tag, term) = exec_case(&c);
    format!("{}\t{}\t{}", tag, line, term)
}

fn timeout_line(line: &str) -> String {
    let c = parse_case(if line.starts_with("R ") { "v|0=1|0|" } else { line });
    format!("timeout\t{}\t{}", line, timeout_term(&c))
}

/// A value with >= 255 uses: the u8 reference count saturates and becomes sticky.
fn sticky_case(rng: &mut SplitMix64, uses_a: usize, uses_b: usize) -> Case {
    // 0: input, 1: op A(0 x uses_a) -> 2, 3: op B(0 x uses_b, 2) -> 4, 5: in-place op C(0) -> 6
    let line = format!(
        "v;o:{}:2:0:m:-:-;v;o:{},2:4:0:cm:-:-;v;o:0:6:0:m:-:-;v|0={}|4,6|",
        vec!["0"; uses_a].join(","),
        vec!["0"; uses_b].join(","),
        rand_data(rng, 33).fmt()
    );
    let mut c = parse_case(&line);
    c.runs = strategy_matrix(rng, 1, false);
    c
}

fn generate(seed: u64, n: usize, tier: &str, out: &mut dyn Write) {
    let mut rng = SplitMix64(seed);
    let full = tier == "thorough";
    // sticky reference counts (254 / 255 / 256 / 300 uses)
    for (a, b) in [(127, 126), (127, 127), (128, 127), (200, 99), (3, 2)] {
        writeln!(out, "{}", fmt_case(&sticky_case(&mut rng, a, b))).unwrap();
    }
    for i in 0..n {
        let opts = GenOpts {
            max_ops: if i % 5 == 0 { 14 } else { 6 },
            ip8: if i % 3 == 0 { 7 } else { 4 },
            computed_inputs: i % 7 == 0,
            nondet: false,
            ext_outputs: false,
            all_mut: false,
            n_in: 0,
            small: false,
        };
        let (spec, ins, consts, outs) = random_graph(&mut rng, &opts);
        let runs = strategy_matrix(&mut rng, ins.len(), full || i % 10 == 0);
        writeln!(out, "{}", fmt_case(&Case { spec, ins, consts, outs, runs })).unwrap();
    }
}

fn main() {
    harness_main(generate, exec_line, timeout_line, 60);
}
