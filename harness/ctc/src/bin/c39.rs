//! C39 correspondence: `rten::ctc::CtcDecoder` through its public API.
//!
//!   c39 gen <seed> <n> <tier>     print input lines `L|den|k|n|row;row;...` (row = numerators `a,b,c`)
//!   c39 exec                      read input lines, print `tag \t input \t coq-case`
//!
//! A matrix entry is the probability `num/den` (den a power of two, so the value is an exact
//! f32); the implementation receives `ln(num/den)` (f32; `-inf` for 0).  Scores are reported as
//! the exact dyadic value of `exp(score)` computed in f64 (mantissa, exponent) plus the raw f32
//! bit pattern; no rounded decimal float is ever printed.
use rten::ctc::{CtcDecoder, CtcHypothesis};
use rten_tensor::prelude::*;
use rten_tensor::NdTensor;
use std::io::{BufRead, Write};
use vh_ctc::*;

struct Input {
    l: usize,
    den: u64,
    k: u32,
    n: u32,
    rows: Vec<Vec<u64>>,
}

fn parse(line: &str) -> Input {
    let p: Vec<&str> = line.split('|').collect();
    let l: usize = p[0].parse().unwrap();
    let den: u64 = p[1].parse().unwrap();
    let k: u32 = p[2].parse().unwrap();
    let n: u32 = p[3].parse().unwrap();
    let rows: Vec<Vec<u64>> = if p[4].trim().is_empty() {
        vec![]
    } else {
        p[4].split(';').map(|r| r.split(',').map(|x| x.trim().parse().unwrap()).collect()).collect()
    };
    for r in &rows {
        assert_eq!(r.len(), l);
    }
    Input { l, den, k, n, rows }
}

fn fmt_input(i: &Input) -> String {
    let rows: Vec<String> = i
        .rows
        .iter()
        .map(|r| r.iter().map(|x| x.to_string()).collect::<Vec<_>>().join(","))
        .collect();
    format!("{}|{}|{}|{}|{}", i.l, i.den, i.k, i.n, rows.join(";"))
}

fn tensor(i: &Input) -> NdTensor<f32, 2> {
    let mut t = NdTensor::<f32, 2>::zeros([i.rows.len(), i.l]);
    for (ti, r) in i.rows.iter().enumerate() {
        for (li, &x) in r.iter().enumerate() {
            // num and den have <= 24 significant bits and den is a power of two: the quotient is an exact f32
            t[[ti, li]] = ((x as f64 / i.den as f64) as f32).ln();
        }
    }
    t
}

/// exp(score) in f64, printed as the exact dyadic rational it is.
fn fscore(s: f32) -> String {
    if s.is_nan() {
        return "FNaN".into();
    }
    if s == f32::NEG_INFINITY {
        return "FZero".into();
    }
    if s == f32::INFINITY {
        return "FInf".into();
    }
    // exp(s) would underflow in f64 below about -745: report exp(s + S ln 2) * 2^-S with S chosen
    // so that the first factor is near 1 (the value printed is still an exact dyadic rational)
    let s64 = s as f64;
    let sh = (-s64 / std::f64::consts::LN_2).round();
    let p = (s64 + sh * std::f64::consts::LN_2).exp();
    if !p.is_finite() {
        return "FInf".into();
    }
    let bits = p.to_bits();
    let ex = ((bits >> 52) & 0x7ff) as i64;
    let frac = bits & ((1u64 << 52) - 1);
    let (m, e) = if ex == 0 { (frac, -1074i64) } else { (frac | (1u64 << 52), ex - 1075) };
    format!("(FVal {} ({})%Z)", m, e - sh as i64)
}

fn hyp(h: &CtcHypothesis) -> String {
    let steps: Vec<String> = h.steps().iter().map(|s| format!("({},{})", s.label, s.pos)).collect();
    format!(
        "(Build_hyp [{}]%nat {} {})",
        steps.join(";"),
        h.score().to_bits(),
        fscore(h.score())
    )
}

fn outcome(r: Option<Vec<CtcHypothesis>>) -> String {
    match r {
        None => "Panic".into(),
        Some(v) => format!("Hyps [{}]", v.iter().map(hyp).collect::<Vec<_>>().join(";")),
    }
}

fn exec_line(line: &str) -> String {
    let i = parse(line);
    let t = tensor(&i);
    let dec = CtcDecoder::new();
    let tv = t.view();
    let greedy = if i.l == 0 && !i.rows.is_empty() {
        None
    } else {
        no_panic(|| vec![dec.decode_greedy(tv.clone())])
    };
    let nbest = no_panic(|| dec.decode_beam_nbest(tv.clone(), i.k, i.n));
    let best = no_panic(|| vec![dec.decode_beam(tv.clone(), i.k)]);
    let has_zero = i.rows.iter().any(|r| r.iter().any(|&x| x == 0));
    let dead_row = i.rows.iter().any(|r| r.iter().all(|&x| x == 0));
    let uniform = !i.rows.is_empty() && i.rows.iter().all(|r| r.iter().all(|&x| x == r[0]));
    let npaths = (i.l as u64).saturating_pow(i.rows.len() as u32);
    let deep = i.rows.len() >= 8;
    let recreate = !deep && i.den <= 128 && i.l >= 1 && i.k >= 1 && !i.rows.is_empty() && sim_history(&i.rows, i.l, i.k as usize).0;
    let tag = if i.rows.is_empty() {
        "trivial-T0".to_string()
    } else if deep {
        format!("T{}L{}-deep-k{}", i.rows.len(), i.l, if (i.k as u64) >= npaths { "wide".to_string() } else { i.k.to_string() })
    } else if recreate {
        format!("T{}L{}-recreate-k{}", i.rows.len(), i.l, i.k)
    } else {
        format!(
            "T{}L{}{}{}{}-{}",
            i.rows.len(),
            i.l,
            if uniform { "u" } else { "" },
            if dead_row { "d" } else if has_zero { "z" } else { "" },
            if matches!(nbest, None) || matches!(best, None) || matches!(greedy, None) { "-panic" } else { "" },
            if (i.k as u64) >= npaths { "wide" } else if i.k <= 2 { "narrow" } else { "mid" }
        )
    };
    let rows: Vec<String> = i
        .rows
        .iter()
        .map(|r| format!("[{}]", r.iter().map(|x| x.to_string()).collect::<Vec<_>>().join(";")))
        .collect();
    let term = format!(
        "(Build_case {}%nat {} [{}] {}%nat {}%nat ({}) ({}) ({}))",
        i.l,
        i.den,
        rows.join(";"),
        i.k,
        i.n,
        outcome(greedy),
        outcome(nbest),
        outcome(best)
    );
    format!("{}\t{}\t{}", tag, line, term)
}

/// A random row of numerators with sum <= den.
fn gen_row(rng: &mut SplitMix64, l: usize, den: u32) -> Vec<u64> {
    gen_row32(rng, l, den).into_iter().map(|x| x as u64).collect()
}

fn gen_row32(rng: &mut SplitMix64, l: usize, den: u32) -> Vec<u32> {
    let kind = rng.below(12);
    let mut r = vec![0u32; l];
    match kind {
        0 => {
            // uniform
            let v = den / l as u32;
            for x in r.iter_mut() {
                *x = v;
            }
        }
        1 => {
            // one-hot (peaked, as in the unit tests)
            let j = rng.below(l as u64) as usize;
            r[j] = den;
        }
        2 => {
            // two equal peaks (tie for the arg-max), rest small or zero
            let v = den / 2;
            let a = rng.below(l as u64) as usize;
            let b = rng.below(l as u64) as usize;
            r[a] = v;
            if b != a {
                r[b] = v;
            }
        }
        3 => {
            // all zero (no alignment passes this frame), rare
            if rng.chance(3, 4) {
                let j = rng.below(l as u64) as usize;
                r[j] = 1 + rng.below(den as u64) as u32;
            }
        }
        4 | 5 => {
            // small palette => many ties
            let pal = [0u32, den / 8, den / 4];
            for x in r.iter_mut() {
                *x = rng.pick(&pal);
            }
        }
        _ => {
            // random split of a budget <= den, possibly with zeros
            let mut budget = den;
            let mut order: Vec<usize> = (0..l).collect();
            for d in (1..l).rev() {
                let j = rng.below(d as u64 + 1) as usize;
                order.swap(d, j);
            }
            for &j in &order {
                if budget == 0 {
                    break;
                }
                if rng.chance(1, 6) {
                    continue;
                }
                let v = 1 + rng.below(budget as u64) as u32;
                r[j] = v;
                budget -= v;
            }
        }
    }
    // keep sum <= den
    let mut s: u32 = r.iter().sum();
    let mut j = 0;
    while s > den {
        if r[j % l] > 0 {
            r[j % l] -= 1;
            s -= 1;
        }
        j += 1;
    }
    r
}

/// Integer re-run of the beam search (exact weights, same candidate order, stable descending
/// selection, zero-probability candidates skipped), used ONLY to stratify the generator: it
/// answers whether the run has a "prune-then-recreate" history, i.e. at some step the beam holds
/// s1, s2 with labels(s2) = labels(s1) ++ [c] whose recorded positions differ on the common
/// prefix (s1 was dropped and re-created later while its extension s2 survived).  On such
/// inputs the merge map joins states of different lineage -- the rarely taken branch.
/// Returns (history found, some candidate was pruned).
fn sim_history(rows: &[Vec<u64>], l: usize, k: usize) -> (bool, bool) {
    #[derive(Clone)]
    struct St {
        pre: Vec<(u32, u32)>,
        pb: u128,
        pnb: u128,
    }
    let labels_eq = |a: &[(u32, u32)], b: &[(u32, u32)]| a.len() == b.len() && a.iter().zip(b).all(|(x, y)| x.0 == y.0);
    let mut beam = vec![St { pre: vec![], pb: 1, pnb: 0 }];
    let mut found = false;
    let mut pruned = false;
    for (pos, r) in rows.iter().enumerate() {
        let nb = beam.len();
        // merge targets (last match wins), by labels only
        let mut target = vec![vec![None::<usize>; l]; nb];
        for i1 in 0..nb {
            for i2 in 0..nb {
                let (s1, s2) = (&beam[i1], &beam[i2]);
                if s2.pre.len() == s1.pre.len() + 1 && labels_eq(&s1.pre, &s2.pre[..s1.pre.len()]) {
                    target[i1][s2.pre[s1.pre.len()].0 as usize] = Some(i2);
                    if s1.pre[..] != s2.pre[..s1.pre.len()] {
                        found = true;
                    }
                }
            }
        }
        let mut npb = vec![vec![0u128; l]; nb];
        let mut npnb = vec![vec![0u128; l]; nb];
        for (bi, s) in beam.iter().enumerate() {
            npb[bi][0] += (s.pb + s.pnb) * r[0] as u128;
            let prev = s.pre.last().map(|x| x.0 as usize);
            for c in 1..l {
                let p = r[c] as u128;
                let (ti, tc) = match target[bi][c] { Some(t) => (t, 0), None => (bi, c) };
                if Some(c) != prev {
                    npnb[ti][tc] += (s.pb + s.pnb) * p;
                } else {
                    npnb[ti][tc] += s.pb * p;
                    npnb[bi][0] += s.pnb * p;
                }
            }
        }
        let mut cands: Vec<(u128, usize, usize)> = vec![];
        for bi in 0..nb {
            for c in 0..l {
                let t = npb[bi][c] + npnb[bi][c];
                if t > 0 {
                    cands.push((t, bi, c));
                }
            }
        }
        cands.sort_by(|a, b| b.0.cmp(&a.0)); // stable
        if cands.len() > k {
            pruned = true;
        }
        cands.truncate(k);
        beam = cands
            .iter()
            .map(|&(_, bi, c)| {
                let mut pre = beam[bi].pre.clone();
                if c > 0 {
                    pre.push((c as u32, pos as u32));
                }
                St { pre, pb: npb[bi][c], pnb: npnb[bi][c] }
            })
            .collect();
    }
    (found, pruned)
}

/// Structured family: narrow beams over peaked rows whose run has a prune-then-recreate history
/// (rejection sampling through `sim_history`).  Weights come from a small alphabet with one or
/// two dominant labels per frame, den = 128 (all entries exact in f32).
fn gen_recreate(rng: &mut SplitMix64, want: usize, out: &mut impl Write) {
    let alpha = [1u64, 3, 13, 30];
    let mut made = 0;
    let mut tries = 0u64;
    while made < want && tries < 40_000_000 {
        tries += 1;
        let t = 4 + rng.below(3) as usize;
        let l = if rng.chance(1, 5) { 4 } else { 3 };
        let k = 2 + rng.below(3) as u32;
        let rows: Vec<Vec<u64>> = (0..t).map(|_| (0..l).map(|_| rng.pick(&alpha)).collect()).collect();
        let (found, _) = sim_history(&rows, l, k as usize);
        if !found {
            continue;
        }
        made += 1;
        let nb = if rng.chance(1, 2) { k } else { 25 };
        let i = Input { l, den: 128, k, n: nb, rows };
        writeln!(out, "{}", fmt_input(&i)).unwrap();
    }
}

/// "Deep" family: long inputs whose probabilities are tiny dyadics (k * 2^-e, e in 20..40, for every
/// label including the blank; rows do not sum to 1), so that prefix log-probabilities fall to
/// -100 ... -1800: far below the range where an unshifted exp()/ln() still works in f32.
/// Entries of a row are pairwise distinct (no arg-max ties).  Beams 1..8.
fn gen_deep(rng: &mut SplitMix64, want: usize, out: &mut impl Write) {
    for j in 0..want {
        let t = [8usize, 16, 32, 64][j % 4];
        let l = 2 + rng.below(3) as usize;
        let rows: Vec<Vec<u64>> = (0..t)
            .map(|_| {
                let mut r: Vec<u64> = vec![];
                while r.len() < l {
                    let e = 20 + rng.below(21);
                    let v = rng.pick(&[1u64, 3, 5]) << (40 - e);
                    if !r.contains(&v) {
                        r.push(v);
                    }
                }
                r
            })
            .collect();
        // wide enough to be unpruned for L = 2 sometimes; narrow otherwise
        let k = 1 + rng.below(8) as u32;
        let nb = 1 + rng.below(8) as u32;
        let i = Input { l, den: 1u64 << 40, k, n: nb, rows };
        writeln!(out, "{}", fmt_input(&i)).unwrap();
    }
    // short but very improbable: 4..6 frames with entries 2^-36 .. 2^-40 (log about -25 .. -28 each)
    for _ in 0..want / 2 {
        let t = 4 + rng.below(3) as usize;
        let l = 2 + rng.below(2) as usize;
        let rows: Vec<Vec<u64>> = (0..t)
            .map(|_| {
                let mut r: Vec<u64> = vec![];
                while r.len() < l {
                    let v = rng.pick(&[1u64, 3, 5, 7, 9, 11]) << rng.below(3);
                    if !r.contains(&v) {
                        r.push(v);
                    }
                }
                r
            })
            .collect();
        let i = Input { l, den: 1u64 << 40, k: 25, n: 25, rows };
        writeln!(out, "{}", fmt_input(&i)).unwrap();
    }
}

fn generate(seed: u64, n: usize, tier: &str, out: &mut impl Write) {
    // 1. exhaustive tiny scope: all matrices over a 3-value alphabet {0, 4/16, 5/16}
    let (max_t, max_l) = if tier == "thorough" { (2usize, 3usize) } else { (2, 2) };
    let alpha = [0u64, 4, 5];
    let kn: &[(u32, u32)] = if tier == "thorough" {
        &[(1, 1), (1, 25), (2, 2), (2, 25), (3, 25), (4, 3), (25, 25)]
    } else {
        &[(1, 25), (2, 25), (25, 25)]
    };
    for t in 0..=max_t {
        for l in 1..=max_l {
            let cells = t * l;
            let total = 3usize.pow(cells as u32);
            for mut code in 0..total {
                let mut rows = vec![];
                for _ in 0..t {
                    let mut r = vec![];
                    for _ in 0..l {
                        r.push(alpha[code % 3]);
                        code /= 3;
                    }
                    rows.push(r);
                }
                for &(k, nb) in kn {
                    let i = Input { l, den: 16, k, n: nb, rows: rows.clone() };
                    writeln!(out, "{}", fmt_input(&i)).unwrap();
                }
            }
        }
    }
    // 2. structured family: prune-then-recreate histories under narrow beams
    let mut rng = SplitMix64(seed ^ 0xC39B);
    gen_recreate(&mut rng, if tier == "thorough" { 6000 } else { 600 }, out);
    // 2b. deep family: long / very improbable inputs
    let mut rng = SplitMix64(seed ^ 0xC39C);
    gen_deep(&mut rng, if tier == "thorough" { 400 } else { 32 }, out);
    // 3. seeded random matrices T <= 5, L <= 4
    let mut rng = SplitMix64(seed ^ 0xC39);
    for _ in 0..n {
        let t = match rng.below(10) { 0 => rng.below(2) as usize, _ => 1 + rng.below(5) as usize };
        let l = match rng.below(12) { 0 => 1, _ => 2 + rng.below(3) as usize };
        let den = rng.pick(&[16u32, 16, 16, 8, 4, 32]);
        let whole_uniform = rng.chance(1, 10);
        let rows: Vec<Vec<u64>> = (0..t)
            .map(|_| if whole_uniform { vec![(den / l.max(1) as u32) as u64; l] } else { gen_row(&mut rng, l, den) })
            .collect();
        let k = match rng.below(4) { 0 => 1 + rng.below(3) as u32, 1 => 1 + rng.below(8) as u32, _ => 1 + rng.below(25) as u32 };
        let nb = match rng.below(3) { 0 => 1 + rng.below(3) as u32, _ => 1 + rng.below(25) as u32 };
        let i = Input { l, den: den as u64, k, n: nb, rows };
        writeln!(out, "{}", fmt_input(&i)).unwrap();
    }
}

fn main() {
    quiet_panics();
    let args: Vec<String> = std::env::args().collect();
    let stdout = std::io::stdout();
    let mut out = std::io::BufWriter::new(stdout.lock());
    match args.get(1).map(|s| s.as_str()) {
        Some("gen") => {
            let seed: u64 = args[2].parse().unwrap();
            let n: usize = args[3].parse().unwrap();
            generate(seed, n, &args[4], &mut out);
        }
        Some("famrate") => {
            // diagnostic: acceptance rate of the structured family's rejection filter
            let mut rng = SplitMix64(args[2].parse().unwrap());
            let alpha = [1u64, 3, 13, 30];
            let (mut f, mut tot) = (0u64, 0u64);
            for _ in 0..200_000 {
                let t = 4 + rng.below(3) as usize;
                let k = 2 + rng.below(3) as usize;
                let rows: Vec<Vec<u64>> = (0..t).map(|_| (0..3).map(|_| rng.pick(&alpha)).collect()).collect();
                tot += 1;
                if sim_history(&rows, 3, k).0 { f += 1; }
            }
            writeln!(out, "{} of {}", f, tot).unwrap();
        }
        Some("exec") => {
            for line in std::io::stdin().lock().lines() {
                let line = line.unwrap();
                if line.trim().is_empty() {
                    continue;
                }
                writeln!(out, "{}", exec_line(&line)).unwrap();
            }
        }
        _ => {
            eprintln!("usage: c39 gen <seed> <n> <tier> | c39 exec");
            std::process::exit(2);
        }
    }
}
