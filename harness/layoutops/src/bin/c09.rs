//! C09 correspondence: chains of layout-changing operations on views of an arange storage
//! (element value = storage offset), observed through the public rten-tensor API.
//!
//!   c09 gen <seed> <n> <tier>        print chain inputs `len|off|shape|strides|op;op;...`
//!   c09 gen <seed> <n> <tier> sr     print SliceRange small-scope inputs `n|start|end|step`
//!   c09 exec                         chain inputs  -> `tag \t input \t coq term (case)`
//!   c09 exec-sr                      range inputs  -> `tag \t input \t coq term (sr_case)`
use std::io::{BufRead, Write};
use std::mem::MaybeUninit;
use std::panic::{AssertUnwindSafe, catch_unwind};

use rten_tensor::errors::{ExpandError, ReshapeError, SliceError};
use rten_tensor::layout::{DynLayout, MutLayout, NdLayout};
use rten_tensor::prelude::*;
use rten_tensor::{NdTensorView, SliceItem, SliceRange, Tensor, TensorView};
use vh_layoutops::*;

type V = TensorView<'static, i32>;

// ------------------------------------------------------------------ operations
#[derive(Clone, Debug)]
enum Item {
    Idx(isize),
    Rng(isize, Option<isize>, isize),
}

#[derive(Clone, Debug)]
enum Op {
    Slice(Vec<Item>),
    SliceAxis(usize, usize, usize),
    IndexAxis(usize, usize),
    Permute(Vec<usize>),
    Transpose,
    MoveAxis(usize, usize),
    Broadcast(Vec<usize>),
    ReshapeView(Vec<usize>),
    Squeeze,
    InsertAxis(usize),
    RemoveAxis(usize),
    MergeAxes,
    Split(usize, usize, bool),
    SliceCopy(Vec<Item>),
    Reshape(Vec<usize>),
    ToContiguous,
    ClipDim(usize, usize, usize),
    Append(usize, usize, usize),
    AppendP(usize, Vec<usize>, usize, usize, usize, usize),
}

#[derive(Clone, Copy, Debug, PartialEq)]
enum ErrKind {
    TooManyDims,
    InvalidAxis,
    InvalidIndex,
    InvalidRange,
    InvalidStep,
    OutputDimsMismatch,
    ShapeMismatch,
    NotContiguous,
    LengthMismatch,
    InsufficientCapacity,
    MayOverlap,
    EPanic,
    Anomaly,
}

fn slice_err(e: &SliceError) -> ErrKind {
    match e {
        SliceError::TooManyDims { .. } => ErrKind::TooManyDims,
        SliceError::InvalidAxis { .. } => ErrKind::InvalidAxis,
        SliceError::InvalidIndex { .. } => ErrKind::InvalidIndex,
        SliceError::InvalidRange { .. } => ErrKind::InvalidRange,
        SliceError::InvalidStep { .. } => ErrKind::InvalidStep,
        SliceError::OutputDimsMismatch { .. } => ErrKind::OutputDimsMismatch,
    }
}
fn expand_err(e: &ExpandError) -> ErrKind {
    match e {
        ExpandError::ShapeMismatch => ErrKind::ShapeMismatch,
        ExpandError::InsufficientCapacity => ErrKind::InsufficientCapacity,
    }
}
fn reshape_err(e: &ReshapeError) -> ErrKind {
    match e {
        ReshapeError::NotContiguous => ErrKind::NotContiguous,
        ReshapeError::LengthMismatch => ErrKind::LengthMismatch,
    }
}

fn fmt_item(it: &Item) -> String {
    match it {
        Item::Idx(i) => format!("i{}", i),
        Item::Rng(s, e, st) => format!("r{}:{}:{}", s, e.map(|e| e.to_string()).unwrap_or("_".into()), st),
    }
}
fn fmt_items(items: &[Item]) -> String {
    items.iter().map(fmt_item).collect::<Vec<_>>().join(",")
}
fn parse_items(s: &str) -> Vec<Item> {
    if s.trim().is_empty() {
        return vec![];
    }
    s.split(',')
        .map(|t| {
            let t = t.trim();
            if let Some(r) = t.strip_prefix('i') {
                Item::Idx(r.parse().unwrap())
            } else {
                let r = t.strip_prefix('r').unwrap();
                let p: Vec<&str> = r.split(':').collect();
                let e = if p[1] == "_" { None } else { Some(p[1].parse().unwrap()) };
                Item::Rng(p[0].parse().unwrap(), e, p[2].parse().unwrap())
            }
        })
        .collect()
}

fn fmt_op(op: &Op) -> String {
    match op {
        Op::Slice(it) => format!("S/{}", fmt_items(it)),
        Op::SliceAxis(a, s, e) => format!("A/{}/{}/{}", a, s, e),
        Op::IndexAxis(a, i) => format!("I/{}/{}", a, i),
        Op::Permute(p) => format!("P/{}", fmt_list(p)),
        Op::Transpose => "T".into(),
        Op::MoveAxis(f, t) => format!("M/{}/{}", f, t),
        Op::Broadcast(s) => format!("B/{}", fmt_list(s)),
        Op::ReshapeView(s) => format!("V/{}", fmt_list(s)),
        Op::Squeeze => "Q".into(),
        Op::InsertAxis(i) => format!("N/{}", i),
        Op::RemoveAxis(i) => format!("R/{}", i),
        Op::MergeAxes => "G".into(),
        Op::Split(a, m, r) => format!("{}/{}/{}", if *r { "H" } else { "L" }, a, m),
        Op::SliceCopy(it) => format!("C/{}", fmt_items(it)),
        Op::Reshape(s) => format!("E/{}", fmt_list(s)),
        Op::ToContiguous => "O".into(),
        Op::ClipDim(d, s, e) => format!("D/{}/{}/{}", d, s, e),
        Op::Append(a, k, c) => format!("X/{}/{}/{}", a, k, c),
        Op::AppendP(m, p, a, k, c, r) => format!("Y/{}/{}/{}/{}/{}/{}", m, fmt_list(p), a, k, c, r),
    }
}
fn parse_op(s: &str) -> Op {
    let p: Vec<&str> = s.split('/').collect();
    let n = |i: usize| -> usize { p[i].trim().parse().unwrap() };
    match p[0].trim() {
        "S" => Op::Slice(parse_items(p.get(1).copied().unwrap_or(""))),
        "A" => Op::SliceAxis(n(1), n(2), n(3)),
        "I" => Op::IndexAxis(n(1), n(2)),
        "P" => Op::Permute(parse_list(p.get(1).copied().unwrap_or(""))),
        "T" => Op::Transpose,
        "M" => Op::MoveAxis(n(1), n(2)),
        "B" => Op::Broadcast(parse_list(p.get(1).copied().unwrap_or(""))),
        "V" => Op::ReshapeView(parse_list(p.get(1).copied().unwrap_or(""))),
        "Q" => Op::Squeeze,
        "N" => Op::InsertAxis(n(1)),
        "R" => Op::RemoveAxis(n(1)),
        "G" => Op::MergeAxes,
        "L" => Op::Split(n(1), n(2), false),
        "H" => Op::Split(n(1), n(2), true),
        "C" => Op::SliceCopy(parse_items(p.get(1).copied().unwrap_or(""))),
        "E" => Op::Reshape(parse_list(p.get(1).copied().unwrap_or(""))),
        "O" => Op::ToContiguous,
        "D" => Op::ClipDim(n(1), n(2), n(3)),
        "X" => Op::Append(n(1), n(2), n(3)),
        "Y" => Op::AppendP(n(1), parse_list(p[2]), n(3), n(4), n(5), n(6)),
        other => panic!("bad op {}", other),
    }
}

fn coq_z(z: isize) -> String {
    if z < 0 { format!("({})%Z", z) } else { format!("{}%Z", z) }
}
fn coq_item(it: &Item) -> String {
    match it {
        Item::Idx(i) => format!("Idx {}", coq_z(*i)),
        Item::Rng(s, e, st) => format!(
            "Rng {} {} {}",
            coq_z(*s),
            match e {
                Some(e) => format!("(Some {})", coq_z(*e)),
                None => "None".into(),
            },
            coq_z(*st)
        ),
    }
}
fn coq_items(items: &[Item]) -> String {
    format!("[{}]", items.iter().map(coq_item).collect::<Vec<_>>().join(";"))
}
fn coq_op(op: &Op) -> String {
    match op {
        Op::Slice(it) => format!("OSlice {}", coq_items(it)),
        Op::SliceAxis(a, s, e) => format!("OSliceAxis {} {} {}", a, s, e),
        Op::IndexAxis(a, i) => format!("OIndexAxis {} {}", a, i),
        Op::Permute(p) => format!("OPermute {}", coq_list_n(p)),
        Op::Transpose => "OTranspose".into(),
        Op::MoveAxis(f, t) => format!("OMoveAxis {} {}", f, t),
        Op::Broadcast(s) => format!("OBroadcast {}", coq_list_n(s)),
        Op::ReshapeView(s) => format!("OReshapeView {}", coq_list_n(s)),
        Op::Squeeze => "OSqueeze".into(),
        Op::InsertAxis(i) => format!("OInsertAxis {}", i),
        Op::RemoveAxis(i) => format!("ORemoveAxis {}", i),
        Op::MergeAxes => "OMergeAxes".into(),
        Op::Split(a, m, r) => format!("OSplit {} {} {}", a, m, r),
        Op::SliceCopy(it) => format!("OSliceCopy {}", coq_items(it)),
        Op::Reshape(s) => format!("OReshape {}", coq_list_n(s)),
        Op::ToContiguous => "OToContiguous".into(),
        Op::ClipDim(d, s, e) => format!("OClipDim {} {} {}", d, s, e),
        Op::Append(a, k, c) => format!("OAppend {} {} {}", a, k, c),
        Op::AppendP(m, p, a, k, c, r) => format!("OAppendP {} {} {} {} {} {}", m, coq_list_n(p), a, k, c, r),
    }
}

fn slice_items(items: &[Item]) -> Vec<SliceItem> {
    items
        .iter()
        .map(|it| match it {
            Item::Idx(i) => SliceItem::Index(*i),
            // SliceRange::new panics on a zero step
            Item::Rng(s, e, st) => SliceItem::Range(SliceRange::new(*s, *e, *st)),
        })
        .collect()
}

// ------------------------------------------------------------------ storage arena
/// Owns every buffer that a view of the current case may point into.
struct Arena {
    bufs: Vec<Box<[i32]>>,
}
impl Arena {
    fn new() -> Arena {
        Arena { bufs: vec![] }
    }
    /// The returned slice is valid until the arena is dropped; views built from it never
    /// outlive the per-case arena (see `run_chain`).
    fn add(&mut self, v: Vec<i32>) -> &'static [i32] {
        let b = v.into_boxed_slice();
        let p: *const [i32] = &*b;
        self.bufs.push(b);
        unsafe { &*p }
    }
}

// ------------------------------------------------------------------ observations
struct Obs {
    shape: Vec<usize>,
    strides: Vec<usize>,
    elems: Vec<i64>,
    alts: Vec<(usize, Vec<usize>, Vec<i64>)>,
}

fn elems_of(v: &V) -> Vec<i64> {
    v.iter().map(|x| *x as i64).collect()
}

const BAD: usize = 999_999;

/// Secondary observations of a view; only those that differ from (shape, elems) are kept.
/// Kinds: 1 to_vec, 2 to_contiguous, 3 map, 4 copy_from (contiguous dest), 5 copy_from
/// (transposed dest), 6 copy_into_slice, 7 to_tensor, 9 get(index) over all indices,
/// 10 len()/is_empty(), 8x static-rank (NdLayout) paths of the operation (added by `apply`).
fn alts_of(v: &V, shape: &[usize], elems: &[i64]) -> Vec<(usize, Vec<usize>, Vec<i64>)> {
    let mut alts = vec![];
    let mut check = |kind: usize, f: &dyn Fn() -> (Vec<usize>, Vec<i64>)| {
        match catch_unwind(AssertUnwindSafe(f)) {
            Ok((s, e)) => {
                if s != shape || e != elems {
                    alts.push((kind, s, e));
                }
            }
            Err(_) => alts.push((kind, vec![BAD], vec![])),
        }
    };
    check(1, &|| (v.shape().to_vec(), v.to_vec().iter().map(|x| *x as i64).collect()));
    check(2, &|| {
        let c = v.to_contiguous();
        let d: Vec<i64> = c.data().iter().map(|x| *x as i64).collect();
        let it: Vec<i64> = c.iter().map(|x| *x as i64).collect();
        if d != it {
            return (vec![BAD], d);
        }
        (c.shape().to_vec(), it)
    });
    check(3, &|| {
        let m = v.map(|x| *x as i64 + 1);
        (m.shape().to_vec(), m.iter().map(|x| *x - 1).collect())
    });
    check(4, &|| {
        let mut d = Tensor::<i32>::zeros(v.shape());
        d.copy_from(v);
        (d.shape().to_vec(), d.iter().map(|x| *x as i64).collect())
    });
    check(5, &|| {
        let rshape: Vec<usize> = v.shape().iter().rev().copied().collect();
        let order: Vec<usize> = (0..v.ndim()).rev().collect();
        let mut d = Tensor::<i32>::zeros(&rshape);
        d.permuted_mut(&order).copy_from(v);
        let back = d.permuted(&order);
        (back.shape().to_vec(), back.iter().map(|x| *x as i64).collect())
    });
    check(6, &|| {
        let mut buf: Vec<MaybeUninit<i32>> = vec![MaybeUninit::uninit(); v.len()];
        let out = v.copy_into_slice(&mut buf);
        (v.shape().to_vec(), out.iter().map(|x| *x as i64).collect())
    });
    check(7, &|| {
        let t = v.to_tensor();
        (t.shape().to_vec(), t.iter().map(|x| *x as i64).collect())
    });
    check(9, &|| {
        let shape = v.shape().to_vec();
        let total: usize = shape.iter().product();
        let mut out = Vec::with_capacity(total);
        let mut idx = vec![0usize; shape.len()];
        for _ in 0..total {
            out.push(v.get(idx.as_slice()).map(|x| *x as i64).unwrap_or(-1));
            for d in (0..shape.len()).rev() {
                idx[d] += 1;
                if idx[d] < shape[d] {
                    break;
                }
                idx[d] = 0;
            }
        }
        (shape, out)
    });
    check(10, &|| {
        let n = v.len();
        if n != elems.len() || v.is_empty() != (n == 0) {
            (vec![BAD, n], vec![])
        } else {
            (shape.to_vec(), elems.to_vec())
        }
    });
    alts
}

fn observe(v: &V) -> Result<Obs, ErrKind> {
    let shape = v.shape().to_vec();
    let strides = v.strides().to_vec();
    let elems = catch_unwind(AssertUnwindSafe(|| elems_of(v))).map_err(|_| ErrKind::EPanic)?;
    let alts = alts_of(v, &shape, &elems);
    Ok(Obs { shape, strides, elems, alts })
}

// ------------------------------------------------------------------ static-rank paths
/// (shape, strides, elements, data pointer) of a static-rank result, for comparison with the
/// dynamic-rank result of the same operation.
type NdRes = Result<(Vec<usize>, Vec<usize>, Vec<i64>, usize), ErrKind>;

fn nd_obs<const M: usize>(r: NdTensorView<'static, i32, M>) -> NdRes {
    let d = r.as_dyn();
    Ok((d.shape().to_vec(), d.strides().to_vec(), elems_of(&d), d.data_ptr() as usize))
}

macro_rules! by_rank {
    ($n:expr, $name:ident, [$($k:literal),*], $body:expr) => {
        match $n {
            $( $k => { const $name: usize = $k; Some($body) } )*
            _ => None,
        }
    };
}

fn nd_path(v: &V, op: &Op) -> Option<NdRes> {
    let n = v.ndim();
    let run = |f: &dyn Fn() -> Option<NdRes>| -> Option<NdRes> {
        match catch_unwind(AssertUnwindSafe(f)) {
            Ok(r) => r,
            Err(_) => Some(Err(ErrKind::EPanic)),
        }
    };
    match op {
        Op::Slice(items) => run(&|| {
            if items.iter().any(|it| matches!(it, Item::Rng(_, _, 0))) {
                return None;
            }
            let si = slice_items(items);
            let idx = items.iter().filter(|i| matches!(i, Item::Idx(_))).count();
            if idx > n {
                return None;
            }
            let m = n - idx;
            by_rank!(n, N, [0, 1, 2, 3, 4], {
                let ndv = v.nd_view::<N>();
                by_rank!(m, M, [0, 1, 2, 3, 4], {
                    match ndv.layout().slice::<M>(&si) {
                        Err(e) => Err(slice_err(&e)),
                        Ok((range, layout)) => {
                            let lay: &NdLayout<M> = &layout;
                            let t = NdTensorView::<i32, M>::from_storage_and_layout(
                                v.storage().slice(range),
                                *lay,
                            );
                            nd_obs(t)
                        }
                    }
                })
                .unwrap()
            })
        }),
        Op::Permute(p) => run(&|| {
            if p.len() != n {
                return None;
            }
            by_rank!(n, N, [0, 1, 2, 3, 4], {
                let order: [usize; N] = p.as_slice().try_into().unwrap();
                nd_obs(v.nd_view::<N>().permuted(order))
            })
        }),
        Op::Transpose => run(&|| by_rank!(n, N, [0, 1, 2, 3, 4], nd_obs(v.nd_view::<N>().transposed()))),
        Op::IndexAxis(a, i) => run(&|| by_rank!(n, N, [1, 2, 3, 4], nd_obs(v.nd_view::<N>().index_axis(*a, *i)))),
        Op::SliceAxis(a, s, e) => run(&|| {
            by_rank!(n, N, [0, 1, 2, 3, 4], {
                let ndv = v.nd_view::<N>();
                match ndv.layout().slice_axis(*a, *s..*e) {
                    Err(e) => Err(slice_err(&e)),
                    Ok(_) => nd_obs(ndv.slice_axis(*a, *s..*e)),
                }
            })
        }),
        Op::Split(a, m, right) => run(&|| {
            by_rank!(n, N, [0, 1, 2, 3, 4], {
                let (l, r) = v.nd_view::<N>().split_at(*a, *m);
                nd_obs(if *right { r } else { l })
            })
        }),
        Op::MoveAxis(f, t) => run(&|| {
            by_rank!(n, N, [0, 1, 2, 3, 4], {
                let mut x = v.nd_view::<N>();
                x.move_axis(*f, *t);
                nd_obs(x)
            })
        }),
        Op::Broadcast(target) => run(&|| {
            let m = target.len();
            by_rank!(n, N, [0, 1, 2, 3, 4], {
                let ndv = v.nd_view::<N>();
                by_rank!(m, M, [0, 1, 2, 3, 4], {
                    let tshape: [usize; M] = target.as_slice().try_into().unwrap();
                    match ndv.try_broadcast(tshape) {
                        Err(e) => Err(expand_err(&e)),
                        Ok(b) => nd_obs(b),
                    }
                })
            })
            .flatten()
        }),
        Op::ReshapeView(shape) => run(&|| {
            let m = shape.len();
            by_rank!(n, N, [0, 1, 2, 3, 4], {
                let ndv = v.nd_view::<N>();
                by_rank!(m, M, [0, 1, 2, 3, 4], {
                    let tshape: [usize; M] = shape.as_slice().try_into().unwrap();
                    match ndv.layout().reshaped_for_view(tshape) {
                        Err(e) => Err(reshape_err(&e)),
                        Ok(layout) => nd_obs(NdTensorView::<i32, M>::from_storage_and_layout(v.storage(), layout)),
                    }
                })
            })
            .flatten()
        }),
        Op::InsertAxis(i) => run(&|| by_rank!(n, N, [0, 1, 2, 3, 4], nd_obs(v.nd_view::<N>().with_new_axis(*i)))),
        Op::RemoveAxis(i) => run(&|| by_rank!(n, N, [1, 2, 3, 4], nd_obs(v.nd_view::<N>().with_axis_removed(*i)))),
        _ => None,
    }
}

// ------------------------------------------------------------------ applying one operation
enum Applied {
    Ok(V),
    Err(ErrKind),
}

fn guard<T>(f: impl FnOnce() -> Result<T, ErrKind>) -> Result<T, ErrKind> {
    match catch_unwind(AssertUnwindSafe(f)) {
        Ok(r) => r,
        Err(_) => Err(ErrKind::EPanic),
    }
}

/// Rebuild a view over a buffer owned by the arena from a freshly produced contiguous tensor.
fn adopt(arena: &mut Arena, shape: &[usize], data: Vec<i32>) -> Result<V, ErrKind> {
    let buf = arena.add(data);
    guard(|| Ok(TensorView::from_data(shape, buf)))
}

fn apply(v: &V, op: &Op, arena: &mut Arena) -> Applied {
    let r: Result<V, ErrKind> = match op {
        Op::Slice(items) => guard(|| {
            let si = slice_items(items);
            v.try_slice_dyn(si.as_slice()).map_err(|e| slice_err(&e))
        }),
        Op::SliceAxis(a, s, e) => guard(|| {
            // the tensor-level method unwraps; take the error kind from the layout method
            match v.layout().slice_axis(*a, *s..*e) {
                Err(err) => Err(slice_err(&err)),
                Ok(_) => Ok(v.slice_axis(*a, *s..*e)),
            }
        }),
        Op::IndexAxis(a, i) => guard(|| Ok(v.index_axis(*a, *i))),
        Op::Permute(p) => guard(|| Ok(v.permuted(p.as_slice()))),
        Op::Transpose => guard(|| Ok(v.transposed())),
        Op::MoveAxis(f, t) => guard(|| {
            let mut x = v.clone();
            x.move_axis(*f, *t);
            Ok(x)
        }),
        Op::Broadcast(target) => guard(|| v.try_broadcast(target.as_slice()).map_err(|e| expand_err(&e))),
        Op::ReshapeView(shape) => guard(|| {
            let layout: DynLayout = v.layout().reshaped_for_view(shape.as_slice()).map_err(|e| reshape_err(&e))?;
            Ok(TensorView::from_storage_and_layout(v.storage(), layout))
        }),
        Op::Squeeze => guard(|| Ok(v.squeezed())),
        Op::InsertAxis(i) => guard(|| {
            let mut x = v.clone();
            x.insert_axis(*i);
            Ok(x)
        }),
        Op::RemoveAxis(i) => guard(|| {
            let mut x = v.clone();
            x.remove_axis(*i);
            Ok(x)
        }),
        Op::MergeAxes => guard(|| {
            let mut x = v.clone();
            x.merge_axes();
            Ok(x)
        }),
        Op::Split(a, m, right) => guard(|| {
            let (l, r) = v.split_at(*a, *m);
            Ok(if *right { r } else { l })
        }),
        Op::SliceCopy(items) => {
            let t = guard(|| {
                let si = slice_items(items);
                Ok(v.slice_copy(si.as_slice()))
            });
            match t {
                Err(e) => Err(e),
                Ok(t) => {
                    let shape = t.shape().to_vec();
                    // a freshly built tensor must be contiguous: take its storage as is
                    let contiguous = t.is_contiguous();
                    let data = t.into_non_contiguous_data();
                    if !contiguous { Err(ErrKind::Anomaly) } else { adopt(arena, &shape, data) }
                }
            }
        }
        Op::Reshape(shape) => {
            let t = guard(|| Ok(v.reshaped(shape.as_slice())));
            match t {
                Err(e) => Err(e),
                Ok(t) => {
                    let same_storage = t.data_ptr() == v.data_ptr();
                    let tshape = t.shape().to_vec();
                    let tstrides = t.strides().to_vec();
                    match t.into_non_contiguous_data() {
                        Some(data) => adopt(arena, &tshape, data),
                        None => guard(|| {
                            // borrowed: same storage window, the layout reshaped_for_view returns
                            let layout: DynLayout =
                                v.layout().reshaped_for_view(shape.as_slice()).map_err(|_| ErrKind::Anomaly)?;
                            let x = TensorView::from_storage_and_layout(v.storage(), layout);
                            if !same_storage || x.shape() != tshape.as_slice() || x.strides() != tstrides.as_slice() {
                                return Err(ErrKind::Anomaly);
                            }
                            Ok(x)
                        }),
                    }
                }
            }
        }
        Op::ToContiguous => {
            let t = guard(|| Ok(v.to_contiguous().into_inner()));
            match t {
                Err(e) => Err(e),
                Ok(t) => {
                    let same_storage = t.data_ptr() == v.data_ptr();
                    let tshape = t.shape().to_vec();
                    let tstrides = t.strides().to_vec();
                    match t.into_non_contiguous_data() {
                        Some(data) => adopt(arena, &tshape, data),
                        None => {
                            if !same_storage || v.shape() != tshape.as_slice() || v.strides() != tstrides.as_slice() {
                                Err(ErrKind::Anomaly)
                            } else {
                                Ok(v.clone())
                            }
                        }
                    }
                }
            }
        }
        Op::ClipDim(d, s, e) => {
            // owned tensor with the same layout over a copy of the view's storage window
            let shape = v.shape().to_vec();
            let strides = v.strides().to_vec();
            let win: Vec<i32> = {
                let st = v.storage();
                let n = v.layout().min_data_len();
                (0..n).map(|i| unsafe { *st.get_unchecked(i) }).collect()
            };
            let owned = guard(|| {
                Tensor::<i32>::from_data_with_strides(&shape, win, &strides).map_err(|e| match e {
                    rten_tensor::errors::FromDataError::MayOverlap => ErrKind::MayOverlap,
                    _ => ErrKind::Anomaly,
                })
            });
            match owned {
                Err(e) => Err(e),
                Ok(mut t) => {
                    let r = guard(|| {
                        t.clip_dim(*d, *s..*e);
                        Ok(())
                    });
                    match r {
                        Err(e) => Err(e),
                        Ok(()) => {
                            let tshape = t.shape().to_vec();
                            let tstrides = t.strides().to_vec();
                            let data = t.into_non_contiguous_data();
                            let buf = arena.add(data);
                            guard(|| {
                                TensorView::from_slice_with_strides(&tshape, buf, &tstrides).map_err(|_| ErrKind::Anomaly)
                            })
                        }
                    }
                }
            }
        }
        Op::Append(axis, k, cap) => {
            // an empty owned tensor with capacity `cap` along `axis`, filled by two appends
            let t = guard(|| {
                let mut shape_cap = v.shape().to_vec();
                if *axis < shape_cap.len() {
                    shape_cap[*axis] = *cap;
                }
                let mut t = Tensor::<i32>::with_capacity(&shape_cap, *axis);
                let n = v.size(*axis);
                t.append(*axis, &v.slice_axis(*axis, 0..*k)).map_err(|e| expand_err(&e))?;
                t.append(*axis, &v.slice_axis(*axis, *k..n)).map_err(|e| expand_err(&e))?;
                Ok(t)
            });
            match t {
                Err(e) => Err(e),
                Ok(t) => {
                    let tshape = t.shape().to_vec();
                    let tstrides = t.strides().to_vec();
                    let data = t.into_non_contiguous_data();
                    let buf = arena.add(data);
                    guard(|| TensorView::from_slice_with_strides(&tshape, buf, &tstrides).map_err(|_| ErrKind::Anomaly))
                }
            }
        }
        Op::AppendP(mode, perm, axis, k, cap, rep) => {
            // an owned tensor holding view[.., 0..k, ..], built in the memory order of axes
            // `perm`, permuted IN PLACE to the view's axis order, then extended along `axis`
            let t = guard(|| {
                let first = v.slice_axis(*axis, 0..*k).permuted(perm.as_slice());
                let pos = perm.iter().position(|a| a == axis).unwrap();
                let n = v.size(*axis);
                let dense_from_vec = *mode == 0 && pos == 0;
                let cap2 = if dense_from_vec { (*cap).max(*k) } else { *cap };
                let mut mem_shape: Vec<usize> = perm.iter().map(|a| v.size(*a)).collect();
                mem_shape[pos] = cap2;
                let mut t = if dense_from_vec {
                    let mut data: Vec<i32> = Vec::with_capacity(mem_shape.iter().product());
                    data.extend(first.iter().copied());
                    let mut shape_k = mem_shape.clone();
                    shape_k[0] = *k;
                    Tensor::<i32>::from_data(&shape_k, data)
                } else {
                    let mut t = Tensor::<i32>::with_capacity(&mem_shape, pos);
                    t.append(pos, &first).map_err(|e| expand_err(&e))?;
                    t
                };
                let mut inv = vec![0usize; perm.len()];
                for (i, a) in perm.iter().enumerate() {
                    inv[*a] = i;
                }
                t.permute(inv.as_slice());
                let other = v.slice_axis(*axis, *k..n);
                match *rep {
                    0 => t.append(*axis, &other),
                    1 => t.append(*axis, &other.to_tensor()),
                    _ => {
                        let rshape: Vec<usize> = other.shape().iter().rev().copied().collect();
                        let order: Vec<usize> = (0..other.ndim()).rev().collect();
                        let mut z = Tensor::<i32>::zeros(&rshape);
                        z.permuted_mut(&order).copy_from(&other);
                        t.append(*axis, &z.permuted(&order))
                    }
                }
                .map_err(|e| expand_err(&e))?;
                Ok(t)
            });
            match t {
                Err(e) => Err(e),
                Ok(t) => {
                    let tshape = t.shape().to_vec();
                    let tstrides = t.strides().to_vec();
                    let data = t.into_non_contiguous_data();
                    let buf = arena.add(data);
                    guard(|| TensorView::from_slice_with_strides(&tshape, buf, &tstrides).map_err(|_| ErrKind::Anomaly))
                }
            }
        }
    };
    match r {
        Ok(x) => Applied::Ok(x),
        Err(e) => Applied::Err(e),
    }
}

fn coq_list_i(xs: &[i64]) -> String {
    let v: Vec<String> = xs.iter().map(|x| if *x < 0 { BAD.to_string() } else { x.to_string() }).collect();
    format!("[{}]", v.join(";"))
}

fn coq_outcome(r: &Result<Obs, ErrKind>) -> String {
    match r {
        Ok(o) => {
            let alts: Vec<String> = o
                .alts
                .iter()
                .map(|(k, s, e)| format!("({},{},{})", k, coq_list_n(s), coq_list_i(e)))
                .collect();
            format!(
                "OOk {} {} {} [{}]",
                coq_list_n(&o.shape),
                coq_list_n(&o.strides),
                coq_list_i(&o.elems),
                alts.join(";")
            )
        }
        Err(e) => format!("OErr {:?}", e),
    }
}

/// Outcome of one step, including the comparison with the static-rank path.
fn step(v: &V, op: &Op, arena: &mut Arena) -> (Result<Obs, ErrKind>, Option<V>) {
    let nd = nd_path(v, op);
    match apply(v, op, arena) {
        Applied::Err(e) => {
            let e = match nd {
                Some(Err(k)) if k == e => e,
                None => e,
                // static-rank path disagrees with the dynamic one
                Some(_) => ErrKind::Anomaly,
            };
            (Err(e), None)
        }
        Applied::Ok(x) => match observe(&x) {
            Err(e) => (Err(e), None),
            Ok(mut o) => {
                match nd {
                    None => {}
                    Some(Err(_)) => o.alts.push((80, vec![BAD], vec![])),
                    Some(Ok((s, st, e, ptr))) => {
                        // insert: the static-rank code picks a different stride for the new
                        // unit axis (NdLayout::insert_dim vs DynLayout::insert_axis)
                        let strides_matter = !matches!(op, Op::InsertAxis(_));
                        let empty = e.is_empty();
                        if s != o.shape || e != o.elems {
                            o.alts.push((81, s, e));
                        } else if strides_matter && st != o.strides {
                            o.alts.push((82, st, vec![]));
                        } else if !empty && ptr != x.data_ptr() as usize {
                            o.alts.push((83, vec![BAD], vec![]));
                        }
                    }
                }
                (Ok(o), Some(x))
            }
        },
    }
}

// ------------------------------------------------------------------ exec
struct Source {
    len: usize,
    off: usize,
    shape: Vec<usize>,
    strides: Vec<usize>,
}

fn parse_line(line: &str) -> (Source, Vec<Op>) {
    let p: Vec<&str> = line.split('|').collect();
    let src = Source {
        len: p[0].trim().parse().unwrap(),
        off: p[1].trim().parse().unwrap(),
        shape: parse_list(p[2]),
        strides: parse_list(p[3]),
    };
    let ops = if p.len() > 4 && !p[4].trim().is_empty() { p[4].split(';').map(parse_op).collect() } else { vec![] };
    (src, ops)
}

fn source_view(src: &Source, arena: &mut Arena) -> Result<V, ErrKind> {
    let data: Vec<i32> = (0..src.len as i32).collect();
    let buf = arena.add(data);
    if src.off > buf.len() {
        return Err(ErrKind::Anomaly);
    }
    guard(|| TensorView::from_slice_with_strides(&src.shape, &buf[src.off..], &src.strides).map_err(|_| ErrKind::Anomaly))
}

fn exec_line(line: &str) -> String {
    let (src, ops) = parse_line(line);
    let mut arena = Arena::new();
    let mut tags: Vec<&str> = vec![];
    let sv = source_view(&src, &mut arena);
    let (src_out, mut cur): (Result<Obs, ErrKind>, Option<V>) = match sv {
        Err(e) => (Err(e), None),
        Ok(v) => match observe(&v) {
            Ok(o) => (Ok(o), Some(v)),
            Err(e) => (Err(e), None),
        },
    };
    let mut steps: Vec<String> = vec![];
    let mut n_err = 0;
    let mut n_copy = 0;
    let mut nonempty = src_out.as_ref().map(|o| !o.elems.is_empty()).unwrap_or(false);
    if let Some(_) = cur {
        for op in &ops {
            let v = cur.clone().unwrap();
            let (out, next) = step(&v, op, &mut arena);
            if out.is_err() {
                n_err += 1;
            }
            if matches!(op, Op::SliceCopy(_) | Op::Reshape(_) | Op::ToContiguous | Op::ClipDim(..) | Op::Append(..) | Op::AppendP(..)) {
                n_copy += 1;
            }
            if let Ok(o) = &out {
                nonempty = nonempty || !o.elems.is_empty();
            }
            steps.push(format!("({}, {})", coq_op(op), coq_outcome(&out)));
            if let Some(x) = next {
                cur = Some(x);
            }
        }
    }
    drop(cur);
    let neg = ops.iter().any(|op| match op {
        Op::Slice(it) | Op::SliceCopy(it) => it.iter().any(|i| matches!(i, Item::Rng(_, _, st) if *st < 0)),
        _ => false,
    });
    let kind = if src.strides.iter().zip(&src.shape).any(|(st, sz)| *st == 0 && *sz > 1) {
        "bcast"
    } else if src_out.as_ref().map(|o| o.elems.windows(2).all(|w| w[1] == w[0] + 1)).unwrap_or(false) {
        "contig"
    } else {
        "strided"
    };
    if !nonempty {
        tags.push("trivial-empty");
    }
    tags.push(kind);
    let tag = format!(
        "{}-r{}-ops{}{}{}{}",
        tags.join("-"),
        src.shape.len(),
        ops.len(),
        if n_err > 0 { "-err" } else { "" },
        if n_copy > 0 { "-copy" } else { "" },
        if neg { "-neg" } else { "" }
    );
    let term = format!(
        "CChain {{| c_len := {}; c_off := {}; c_shape := {}; c_strides := {}; c_src := {}; c_steps := [{}] |}}",
        src.len,
        src.off,
        coq_list_n(&src.shape),
        coq_list_n(&src.strides),
        coq_outcome(&src_out),
        steps.join("; ")
    );
    format!("{}\t{}\t{}", tag, line, term)
}

fn exec_sr_line(line: &str) -> String {
    let p: Vec<&str> = line.split('|').collect();
    let n: usize = p[0].trim().parse().unwrap();
    let start: isize = p[1].trim().parse().unwrap();
    let end: Option<isize> = if p[2].trim() == "_" { None } else { Some(p[2].trim().parse().unwrap()) };
    let st: isize = p[3].trim().parse().unwrap();
    let r = SliceRange::new(start, end, st);
    let clamp = catch_unwind(|| {
        let c = r.clamp(n);
        (c.start, c.end)
    })
    .unwrap_or((BAD as isize, None));
    let resolve = catch_unwind(|| r.resolve(n)).unwrap_or(Some(BAD..BAD));
    let steps = catch_unwind(|| r.steps(n)).unwrap_or(BAD);
    let mut arena = Arena::new();
    let src = Source { len: n, off: 0, shape: vec![n], strides: vec![1] };
    let v = source_view(&src, &mut arena).unwrap();
    let item = vec![Item::Rng(start, end, st)];
    let (view_out, _) = step(&v, &Op::Slice(item.clone()), &mut arena);
    let (copy_out, _) = step(&v, &Op::SliceCopy(item), &mut arena);
    let tag = format!(
        "sr-n{}-{}{}",
        n,
        if st > 0 { "pos" } else { "neg" },
        if view_out.is_err() && copy_out.is_err() { "-err" } else { "" }
    );
    let term = format!(
        "CRange {{| q_n := {}; q_start := {}; q_end := {}; q_step := {}; q_clamp := ({}, {}); q_resolve := {}; q_steps := {}; q_view := {}; q_copy := {} |}}",
        n,
        coq_z(start),
        end.map(|e| format!("Some {}", coq_z(e))).unwrap_or("None".into()),
        coq_z(st),
        coq_z(clamp.0),
        clamp.1.map(|e| format!("Some {}", coq_z(e))).unwrap_or("None".into()),
        resolve.map(|r| format!("Some ({}, {})", r.start, r.end)).unwrap_or("None".into()),
        steps,
        coq_outcome(&view_out),
        coq_outcome(&copy_out)
    );
    format!("{}\t{}\t{}", tag, line, term)
}

// ------------------------------------------------------------------ generators
fn contiguous_strides(shape: &[usize]) -> Vec<usize> {
    let mut st = vec![0usize; shape.len()];
    let mut p = 1usize;
    for i in (0..shape.len()).rev() {
        st[i] = p;
        p *= shape[i];
    }
    st
}

fn gen_source(rng: &mut SplitMix64) -> Source {
    let rank = match rng.below(12) {
        0 => 0,
        1 | 2 => 1,
        3..=5 => 2,
        6..=9 => 3,
        _ => 4,
    } as usize;
    let mut shape: Vec<usize> = (0..rank)
        .map(|_| match rng.below(12) {
            0 => 0,
            1 | 2 => 1,
            _ => 2 + rng.below(4) as usize,
        })
        .collect();
    // keep the element count moderate
    while shape.iter().product::<usize>() > 96 {
        let i = rng.below(rank as u64) as usize;
        if shape[i] > 1 {
            shape[i] -= 1;
        }
    }
    let kind = rng.below(10);
    // base: a larger contiguous tensor that this view is carved out of
    let steps: Vec<usize> = (0..rank).map(|_| if kind >= 3 && rng.chance(1, 2) { 1 + rng.below(3) as usize } else { 1 }).collect();
    let starts: Vec<usize> = (0..rank).map(|_| if kind >= 3 && rng.chance(1, 2) { rng.below(3) as usize } else { 0 }).collect();
    let base: Vec<usize> = (0..rank)
        .map(|i| starts[i] + if shape[i] == 0 { rng.below(3) as usize } else { (shape[i] - 1) * steps[i] + 1 + rng.below(2) as usize * (kind >= 3) as usize })
        .collect();
    let bstr = contiguous_strides(&base);
    let mut strides: Vec<usize> = (0..rank).map(|i| bstr[i] * steps[i]).collect();
    let mut off: usize = (0..rank).map(|i| starts[i] * bstr[i]).sum();
    if kind == 1 || kind == 2 || kind >= 6 {
        // permute
        for d in (1..rank).rev() {
            let j = rng.below(d as u64 + 1) as usize;
            shape.swap(d, j);
            strides.swap(d, j);
        }
    }
    if kind == 8 || kind == 9 {
        // broadcast some axes
        for d in 0..rank {
            if rng.chance(1, 3) {
                strides[d] = 0;
            }
        }
    }
    if kind == 5 {
        // arbitrary (possibly overlapping) strides
        for d in 0..rank {
            if rng.chance(1, 2) {
                strides[d] = rng.below(7) as usize;
            }
        }
    }
    let need: usize = if shape.iter().any(|s| *s == 0) { 0 } else { shape.iter().zip(&strides).map(|(s, t)| (s - 1) * t).sum::<usize>() + 1 };
    if rng.chance(1, 4) {
        off += rng.below(4) as usize;
    }
    let len = off + need + rng.below(3) as usize;
    Source { len, off, shape, strides }
}

fn extreme(rng: &mut SplitMix64) -> isize {
    let xs: [isize; 10] = [
        isize::MAX,
        isize::MIN,
        isize::MAX - 1,
        isize::MIN + 1,
        1 << 62,
        -(1 << 62),
        (1 << 32) + 1,
        -(1 << 31),
        1 << 40,
        -(1 << 40),
    ];
    rng.pick(&xs)
}

fn gen_range(rng: &mut SplitMix64, size: usize, allow_neg_step: bool, wild: bool) -> Item {
    let n = size as isize;
    let near = |rng: &mut SplitMix64| -> isize { rng.below((2 * n + 5) as u64) as isize - n - 2 };
    let style = rng.below(20);
    let step = match rng.below(12) {
        0..=5 => 1,
        6 | 7 => 2,
        8 => 3,
        9 => n + 1 + rng.below(3) as isize,
        10 => if wild { extreme(rng).max(1) } else { 2 },
        _ => if wild && rng.chance(1, 6) { 0 } else { 1 },
    };
    let step = if allow_neg_step && rng.chance(2, 5) && step != 0 {
        if wild && rng.chance(1, 10) { isize::MIN } else { -step.min(isize::MAX) }
    } else {
        step
    };
    if style < 12 {
        // in bounds (for the direction of travel)
        let (lo, hi) = if step > 0 { (0, n) } else { (-1, n - 1) };
        let pickb = |rng: &mut SplitMix64| -> isize {
            let x = lo + rng.below((hi - lo + 1) as u64) as isize;
            // express as a negative index half of the time where that is possible
            if x >= 0 && x < n && rng.chance(1, 3) { x - n } else if x == -1 { -n - 1 } else { x }
        };
        let a = pickb(rng);
        let b = pickb(rng);
        let (s, e) = if step > 0 {
            let (sa, sb) = (if a < 0 { a + n } else { a }, if b < 0 { b + n } else { b });
            if sa <= sb || rng.chance(1, 6) { (a, b) } else { (b, a) }
        } else {
            (a, b)
        };
        let e = if rng.chance(1, 4) { None } else { Some(e) };
        Item::Rng(s, e, step)
    } else if style < 17 || !wild {
        let e = if rng.chance(1, 4) { None } else { Some(near(rng)) };
        Item::Rng(near(rng), e, step)
    } else {
        let s = if rng.chance(1, 2) { extreme(rng) } else { near(rng) };
        let e = if rng.chance(1, 4) { None } else if rng.chance(1, 2) { Some(extreme(rng)) } else { Some(near(rng)) };
        Item::Rng(s, e, step)
    }
}

fn gen_items(rng: &mut SplitMix64, shape: &[usize], copy: bool, wild: bool) -> Vec<Item> {
    let rank = shape.len();
    let n_items = if rng.chance(1, 5) { rng.below(rank as u64 + 1) as usize } else { rank };
    let n_items = if !copy && wild && rng.chance(1, 12) { rank + 1 } else { n_items };
    (0..n_items)
        .map(|d| {
            let size = shape.get(d).copied().unwrap_or(1);
            if rng.chance(1, 4) {
                let n = size as isize;
                let i = if wild && rng.chance(1, 5) {
                    if rng.chance(1, 3) { extreme(rng) } else { rng.below((2 * n + 5) as u64) as isize - n - 2 }
                } else if n > 0 {
                    let x = rng.below(n as u64) as isize;
                    if rng.chance(1, 3) { x - n } else { x }
                } else {
                    0
                };
                Item::Idx(i)
            } else if rng.chance(1, 5) {
                Item::Rng(0, None, 1)
            } else {
                let neg_ok = copy || (wild && rng.chance(1, 4));
                gen_range(rng, size, neg_ok, wild)
            }
        })
        .collect()
}

fn gen_op(rng: &mut SplitMix64, shape: &[usize], wild: bool) -> Op {
    let rank = shape.len();
    let r = rank as u64;
    let axis = |rng: &mut SplitMix64| -> usize {
        if wild && rng.chance(1, 10) { rank + rng.below(2) as usize } else { rng.below(r.max(1)) as usize }
    };
    loop {
        match rng.below(29) {
            0..=3 => return Op::Slice(gen_items(rng, shape, false, wild)),
            4 | 5 => return Op::SliceCopy(gen_items(rng, shape, true, wild)),
            6 => {
                let a = axis(rng);
                let size = shape.get(a).copied().unwrap_or(2);
                let s = rng.below(size as u64 + 1) as usize;
                let e = s + rng.below((size - s) as u64 + 1) as usize;
                let (s, e) = if wild && rng.chance(1, 8) { (e + rng.below(2) as usize, s + rng.below(3) as usize + size) } else { (s, e) };
                return Op::SliceAxis(a, s, e);
            }
            7 | 8 => {
                if rank == 0 && !wild {
                    continue;
                }
                let a = axis(rng);
                let size = shape.get(a).copied().unwrap_or(2);
                let i = if size == 0 || (wild && rng.chance(1, 8)) { size + rng.below(2) as usize } else { rng.below(size as u64) as usize };
                return Op::IndexAxis(a, i);
            }
            9 | 10 => {
                let mut p: Vec<usize> = (0..rank).collect();
                for d in (1..rank).rev() {
                    let j = rng.below(d as u64 + 1) as usize;
                    p.swap(d, j);
                }
                if wild && rng.chance(1, 8) {
                    match rng.below(3) {
                        0 => p.push(rank),
                        1 => {
                            if rank > 0 {
                                p[0] = p[rank - 1];
                            }
                        }
                        _ => {
                            p.pop();
                        }
                    }
                }
                return Op::Permute(p);
            }
            11 => return Op::Transpose,
            12 => {
                if rank == 0 && !wild {
                    continue;
                }
                return Op::MoveAxis(axis(rng), axis(rng));
            }
            13 | 14 => {
                let pad = rng.below(3) as usize;
                let mut t: Vec<usize> = (0..pad).map(|_| 1 + rng.below(3) as usize).collect();
                for &s in shape {
                    t.push(if s == 1 { rng.below(4) as usize } else { s });
                }
                if wild && rng.chance(1, 6) && !t.is_empty() {
                    let i = rng.below(t.len() as u64) as usize;
                    t[i] += 1;
                }
                if wild && rng.chance(1, 10) && !t.is_empty() {
                    t.remove(0);
                }
                if wild && rng.chance(1, 4) && !t.is_empty() {
                    // shrink an axis to 1 or 0 (not a broadcast unless the source axis is 1)
                    let i = rng.below(t.len() as u64) as usize;
                    t[i] = rng.below(2) as usize;
                }
                while t.iter().product::<usize>() > 160 {
                    let i = rng.below(t.len() as u64) as usize;
                    if t[i] > 1 && (i < pad || shape[i - pad] == 1) {
                        t[i] -= 1;
                    } else if t.iter().enumerate().all(|(i, x)| *x <= 1 || (i >= pad && shape[i - pad] != 1)) {
                        break;
                    }
                }
                if t.iter().product::<usize>() > 600 {
                    continue;
                }
                return Op::Broadcast(t);
            }
            15 | 16 => {
                // a reshape target with the same number of elements (mostly)
                let total: usize = shape.iter().product();
                let mut t = vec![];
                let mut rest = total;
                let k = rng.below(4) as usize;
                for _ in 0..k {
                    let divs: Vec<usize> = (1..=rest.max(1)).filter(|d| rest % d == 0).collect();
                    let d = if rest == 0 { rng.below(3) as usize } else { rng.pick(&divs) };
                    t.push(d);
                    if d != 0 {
                        rest /= d;
                    } else {
                        rest = 0;
                    }
                }
                if rest != 1 || rng.chance(1, 3) {
                    t.push(rest);
                }
                if t.iter().product::<usize>() != total {
                    t.push(0);
                }
                if wild && rng.chance(1, 5) {
                    t.push(2);
                }
                let view = rng.chance(1, 2);
                return if view { Op::ReshapeView(t) } else { Op::Reshape(t) };
            }
            17 => return Op::Squeeze,
            18 => {
                let i = if wild && rng.chance(1, 8) { rank + 1 + rng.below(rank as u64 + 2) as usize } else { rng.below(r + 1) as usize };
                return Op::InsertAxis(i);
            }
            19 => {
                let ones: Vec<usize> = (0..rank).filter(|d| shape[*d] == 1).collect();
                let i = if !ones.is_empty() && !(wild && rng.chance(1, 4)) { rng.pick(&ones) } else { axis(rng) };
                return Op::RemoveAxis(i);
            }
            20 => return Op::MergeAxes,
            21 => {
                if rank == 0 && !wild {
                    continue;
                }
                let a = axis(rng);
                let size = shape.get(a).copied().unwrap_or(2);
                let m = if wild && rng.chance(1, 8) { size + 1 } else { rng.below(size as u64 + 1) as usize };
                return Op::Split(a, m, rng.chance(1, 2));
            }
            22 => return Op::ToContiguous,
            23 => {
                if rank == 0 && !wild {
                    continue;
                }
                let a = axis(rng);
                let size = shape.get(a).copied().unwrap_or(2);
                let s = rng.below(size as u64 + 1) as usize;
                let e = s + rng.below((size - s) as u64 + 1) as usize;
                let (s, e) = if wild && rng.chance(1, 8) { (s, size + 1) } else { (s, e) };
                return Op::ClipDim(a, s, e);
            }
            26..=28 => {
                // append to an owned tensor that was permuted in place
                if rank == 0 && !wild {
                    continue;
                }
                let a = axis(rng);
                let size = shape.get(a).copied().unwrap_or(2);
                let mut p: Vec<usize> = (0..rank).collect();
                for d in (1..rank).rev() {
                    let j = rng.below(d as u64 + 1) as usize;
                    p.swap(d, j);
                }
                if rng.chance(3, 5) {
                    // dense case: the append axis is outermost in memory
                    if let Some(i) = p.iter().position(|x| *x == a) {
                        p.swap(0, i);
                    }
                }
                if wild && rng.chance(1, 12) {
                    if rank > 1 { p[0] = p[1]; } else { p.push(1); }
                }
                // leave at least two entries to append where possible
                let k = if wild && rng.chance(1, 10) {
                    size + 1
                } else if size >= 2 && rng.chance(3, 4) {
                    rng.below(size as u64 - 1) as usize
                } else {
                    rng.below(size as u64 + 1) as usize
                };
                let cap = match rng.below(8) {
                    0 => size.saturating_sub(1),
                    1 => k,
                    2 | 3 => size + 1 + rng.below(2) as usize,
                    _ => size,
                };
                return Op::AppendP(rng.below(2) as usize, p, a, k, cap, rng.below(3) as usize);
            }
            _ => {
                if rank == 0 && !wild {
                    continue;
                }
                let a = axis(rng);
                let size = shape.get(a).copied().unwrap_or(2);
                let k = if wild && rng.chance(1, 10) { size + 1 } else { rng.below(size as u64 + 1) as usize };
                let cap = match rng.below(8) {
                    0 => size.saturating_sub(1),
                    1 => k,
                    2 => 0,
                    3 | 4 => size + 1 + rng.below(2) as usize,
                    _ => size,
                };
                return Op::Append(a, k, cap);
            }
        }
    }
}

/// Generate chain number `i`.  The line is written progressively (header, then each
/// operation before it is applied), so that if the implementation crashes while the
/// generator simulates the chain, the supervisor still has the input that crashed it.
fn gen_one(seed: u64, i: usize, out: &mut impl Write) {
    let mut rng = SplitMix64(seed ^ 0xC09 ^ (i as u64 + 1).wrapping_mul(0x9E3779B97F4A7C15));
    let src = gen_source(&mut rng);
    // one case in four is the malformed / extreme stream
    let wild = i % 4 == 3;
    let mut arena = Arena::new();
    write!(out, "{}|{}|{}|{}|", src.len, src.off, fmt_list(&src.shape), fmt_list(&src.strides)).unwrap();
    out.flush().unwrap();
    if let Ok(mut v) = source_view(&src, &mut arena) {
        let len = rng.below(7) as usize;
        for k in 0..len {
            let shape = v.shape().to_vec();
            let op = gen_op(&mut rng, &shape, wild);
            write!(out, "{}{}", if k > 0 { ";" } else { "" }, fmt_op(&op)).unwrap();
            out.flush().unwrap();
            if let Applied::Ok(x) = apply(&v, &op, &mut arena) {
                v = x;
            }
        }
    }
    writeln!(out).unwrap();
    out.flush().unwrap();
}

/// Supervisor of the chain generator: chains are generated in a child process so that a
/// crash of the implementation ends one input line, not the run.
fn generate(seed: u64, n: usize, _tier: &str, out: &mut impl Write) {
    use std::io::BufReader;
    use std::process::{Child, ChildStdin, ChildStdout, Command, Stdio};
    let exe = std::env::current_exe().unwrap();
    let spawn = || -> (Child, ChildStdin, BufReader<ChildStdout>) {
        let mut c = Command::new(&exe)
            .arg("gen-child")
            .arg(seed.to_string())
            .stdin(Stdio::piped())
            .stdout(Stdio::piped())
            .stderr(Stdio::null())
            .spawn()
            .unwrap();
        let i = c.stdin.take().unwrap();
        let o = BufReader::new(c.stdout.take().unwrap());
        (c, i, o)
    };
    let (mut child, mut cin, mut cout) = spawn();
    for i in 0..n {
        let sent = writeln!(cin, "{}", i).and_then(|_| cin.flush()).is_ok();
        let mut line = String::new();
        if sent {
            let _ = cout.read_line(&mut line);
        }
        if line.ends_with('\n') {
            out.write_all(line.as_bytes()).unwrap();
        } else {
            // the child died while simulating this chain: keep what it had printed
            let _ = child.kill();
            let _ = child.wait();
            if line.matches('|').count() >= 4 {
                writeln!(out, "{}", line.trim_end_matches(';')).unwrap();
            } else {
                writeln!(out, "1|0|||").unwrap();
            }
            let (c, ci, co) = spawn();
            child = c;
            cin = ci;
            cout = co;
        }
    }
    drop(cin);
    let _ = child.wait();
}

fn generate_sr(tier: &str, out: &mut impl Write) {
    // exhaustive small scope: sizes 0..=5, start/end in -7..=7 (end also absent), step in -3..=3 \ {0}
    let _ = tier;
    for n in 0..=5usize {
        for start in -7..=7isize {
            for e in -8..=7isize {
                for st in [-3isize, -2, -1, 1, 2, 3] {
                    let end = if e == -8 { "_".to_string() } else { e.to_string() };
                    writeln!(out, "{}|{}|{}|{}", n, start, end, st).unwrap();
                }
            }
        }
    }
    // extreme values
    let xs: [isize; 8] = [isize::MAX, isize::MIN, isize::MAX - 1, isize::MIN + 1, 1 << 62, -(1 << 62), 1 << 33, -(1 << 33)];
    for n in [0usize, 1, 3] {
        for &a in &xs {
            for &b in &xs {
                for st in [isize::MIN, -2, -1, 1, 2, isize::MAX] {
                    writeln!(out, "{}|{}|{}|{}", n, a, b, st).unwrap();
                }
            }
            for st in [isize::MIN, -1, 1, isize::MAX] {
                writeln!(out, "{}|{}|_|{}", n, a, st).unwrap();
                writeln!(out, "{}|1|{}|{}", n, a, st).unwrap();
            }
        }
    }
}

/// Answer for an input on which the implementation crashed the process (SIGSEGV, abort):
/// a case that fails the property oracle, so that the input is reported with a replay file.
fn crash_line(line: &str, sr: bool) -> String {
    if sr {
        let base = exec_sr_line("0|0|_|1");
        let term = base.split('\t').nth(2).unwrap().replacen("q_steps := 0", "q_steps := 999999", 1);
        format!("crash-sr\t{}\t{}", line, term)
    } else {
        format!(
            "crash\t{}\tCChain {{| c_len := 0; c_off := 0; c_shape := []; c_strides := []; c_src := OErr Anomaly; c_steps := [] |}}",
            line
        )
    }
}

/// Run the cases in a child process, one line at a time, so that a crash of the
/// implementation (memory-unsafe behaviour) is attributed to its input instead of killing
/// the whole run.
fn supervise(sr: bool, out: &mut impl Write) {
    use std::io::BufReader;
    use std::process::{Child, ChildStdin, ChildStdout, Command, Stdio};
    let exe = std::env::current_exe().unwrap();
    let spawn = || -> (Child, ChildStdin, BufReader<ChildStdout>) {
        let mut c = Command::new(&exe)
            .arg(if sr { "child-sr" } else { "child" })
            .stdin(Stdio::piped())
            .stdout(Stdio::piped())
            .stderr(Stdio::null())
            .spawn()
            .unwrap();
        let i = c.stdin.take().unwrap();
        let o = BufReader::new(c.stdout.take().unwrap());
        (c, i, o)
    };
    let (mut child, mut cin, mut cout) = spawn();
    for line in std::io::stdin().lock().lines() {
        let line = line.unwrap();
        if line.trim().is_empty() {
            continue;
        }
        let sent = writeln!(cin, "{}", line).and_then(|_| cin.flush()).is_ok();
        let mut answer = String::new();
        let got = if sent { cout.read_line(&mut answer).unwrap_or(0) } else { 0 };
        if got == 0 || !answer.ends_with('\n') {
            // the child died on this input
            let _ = child.kill();
            let _ = child.wait();
            writeln!(out, "{}", crash_line(&line, sr)).unwrap();
            let (c, i, o) = spawn();
            child = c;
            cin = i;
            cout = o;
        } else {
            out.write_all(answer.as_bytes()).unwrap();
        }
    }
    drop(cin);
    let _ = child.wait();
}

fn main() {
    quiet_panics();
    let args: Vec<String> = std::env::args().collect();
    let stdout = std::io::stdout();
    let mut out = std::io::BufWriter::new(stdout.lock());
    match args.get(1).map(|s| s.as_str()) {
        Some("gen") => {
            let seed: u64 = args[2].parse().unwrap();
            let n: usize = args[3].parse().unwrap();
            if args.get(5).map(|s| s.as_str()) == Some("sr") {
                generate_sr(&args[4], &mut out);
            } else {
                generate(seed, n, &args[4], &mut out);
            }
        }
        Some("gen-child") => {
            let seed: u64 = args[2].parse().unwrap();
            for line in std::io::stdin().lock().lines() {
                let i: usize = line.unwrap().trim().parse().unwrap();
                gen_one(seed, i, &mut out);
            }
        }
        Some("exec") => supervise(false, &mut out),
        Some("exec-sr") => supervise(true, &mut out),
        Some("child") | Some("child-sr") => {
            let sr = args[1] == "child-sr";
            for line in std::io::stdin().lock().lines() {
                let line = line.unwrap();
                if line.trim().is_empty() {
                    continue;
                }
                // the corpus file and replay files mix both input kinds: answer a foreign
                // line with a trivial case of the right type
                let pipes = line.matches('|').count();
                let s = if sr {
                    if pipes == 3 { exec_sr_line(&line) } else { exec_sr_line("0|0|_|1").replacen("sr-", "trivial-skip-sr-", 1).replacen("0|0|_|1", &line, 1) }
                } else if pipes == 3 {
                    exec_line("1|0|||").replacen("contig", "trivial-skip", 1).replacen("1|0|||", &line, 1)
                } else {
                    exec_line(&line)
                };
                writeln!(out, "{}", s).unwrap();
                out.flush().unwrap();
            }
        }
        _ => {
            eprintln!("usage: c09 gen <seed> <n> <tier> [sr] | c09 exec | c09 exec-sr");
            std::process::exit(2);
        }
    }
}
