//! C08 correspondence: the overlap check as reached through the public constructors
//! `DynLayout::from_shape_and_strides(.., DisallowOverlap)` (and the NdLayout one).
//!
//!   c08 gen <seed> <n> <tier>     print input lines `shape|strides`
//!   c08 exec                      read input lines, print `tag \t input \t coq-case`
use rten_tensor::layout::{DynLayout, MutLayout, NdLayout, OverlapPolicy};
use rten_tensor::errors::FromDataError;
use std::io::{BufRead, Write};
use vh_tensor::*;

fn impl_may_overlap(shape: &[usize], strides: &[usize]) -> Option<bool> {
    let dynr = no_panic(|| DynLayout::from_shape_and_strides(shape, strides, OverlapPolicy::DisallowOverlap));
    let d = match dynr? {
        Ok(_) => false,
        Err(FromDataError::MayOverlap) => true,
        Err(_) => return None,
    };
    // static-rank constructor must agree
    macro_rules! nd {
        ($n:literal) => {{
            let s: [usize; $n] = shape.try_into().unwrap();
            let t: [usize; $n] = strides.try_into().unwrap();
            match no_panic(move || NdLayout::<$n>::from_shape_and_strides(s, t, OverlapPolicy::DisallowOverlap))? {
                Ok(_) => false,
                Err(FromDataError::MayOverlap) => true,
                Err(_) => return None,
            }
        }};
    }
    let n = match shape.len() {
        1 => nd!(1),
        2 => nd!(2),
        3 => nd!(3),
        4 => nd!(4),
        _ => d,
    };
    if n != d {
        return None;
    }
    Some(d)
}

fn exec_line(line: &str) -> String {
    let (a, b) = line.split_once('|').unwrap();
    let shape = parse_list(a);
    let strides = parse_list(b);
    let r = impl_may_overlap(&shape, &strides);
    let prod: u128 = shape.iter().fold(1u128, |p, &s| p.saturating_mul(s.max(1) as u128));
    let small = prod <= 512;
    let (tag, implb) = match r {
        Some(true) => ("reject", "true"),
        Some(false) => {
            if shape.iter().any(|&s| s == 0) { ("trivial-empty", "false") } else { ("accept", "false") }
        }
        // a panic or Dyn/Nd disagreement is reported as the opposite of nothing: make the
        // case disagree with the model by construction
        None => ("anomaly", "true"),
    };
    let tag = if r.is_none() { "anomaly".to_string() } else { format!("{}-r{}{}", tag, shape.len(), if small { "" } else { "-big" }) };
    let _ = implb;
    let term = match r {
        Some(v) => format!(
            "{{| c_shape := {}; c_strides := {}; c_impl := {}; c_small := {} |}}",
            coq_list_n(&shape), coq_list_n(&strides), v, small
        ),
        None => format!(
            "{{| c_shape := {}; c_strides := {}; c_impl := negb (may_have_internal_overlap true {} {}); c_small := {} |}}",
            coq_list_n(&shape), coq_list_n(&strides), coq_list_n(&shape), coq_list_n(&strides), small
        ),
    };
    format!("{}\t{}\t{}", tag, line, term)
}

fn contiguous_strides(shape: &[usize]) -> Vec<usize> {
    let mut st = vec![0usize; shape.len()];
    let mut p = 1usize;
    for i in (0..shape.len()).rev() {
        st[i] = p;
        p = p.wrapping_mul(shape[i]);
    }
    st
}

fn generate(seed: u64, n: usize, tier: &str, out: &mut impl Write) {
    // 1. exhaustive small scope
    let (max_rank, max_size, max_stride) = if tier == "thorough" { (3usize, 4usize, 12usize) } else { (2, 4, 12) };
    for rank in 0..=max_rank {
        let total = ((max_size + 1) * (max_stride + 1)).pow(rank as u32);
        for mut code in 0..total {
            let mut shape = vec![];
            let mut strides = vec![];
            for _ in 0..rank {
                shape.push(code % (max_size + 1));
                code /= max_size + 1;
                strides.push(code % (max_stride + 1));
                code /= max_stride + 1;
            }
            writeln!(out, "{}|{}", fmt_list(&shape), fmt_list(&strides)).unwrap();
        }
    }
    // 2. random: layouts derived from contiguous ones (must be accepted), perturbations,
    //    and extreme values (wrap-around in release builds)
    let mut rng = SplitMix64(seed);
    let big: [usize; 10] = [1 << 31, (1 << 32) - 1, 1 << 32, (1 << 32) + 1, 1 << 62, (1 << 63) - 1, 1 << 63, usize::MAX - 1, usize::MAX, 3037000500];
    for _ in 0..n {
        let rank = 1 + rng.below(6) as usize;
        let mut shape: Vec<usize> = (0..rank).map(|_| match rng.below(10) { 0 => 1, 1 => 0, _ => 1 + rng.below(6) as usize }).collect();
        let mut strides = contiguous_strides(&shape);
        let kind = rng.below(10);
        match kind {
            0..=3 => {
                // derive: slice with steps, permute
                for d in 0..rank {
                    if rng.chance(1, 2) && shape[d] > 0 {
                        let step = 1 + rng.below(3) as usize;
                        let len = 1 + rng.below(shape[d] as u64) as usize;
                        shape[d] = (len + step - 1) / step;
                        strides[d] *= step;
                    }
                }
                for d in (1..rank).rev() {
                    let j = rng.below(d as u64 + 1) as usize;
                    shape.swap(d, j);
                    strides.swap(d, j);
                }
            }
            4..=6 => {
                // perturb one or two strides
                for _ in 0..1 + rng.below(2) {
                    let d = rng.below(rank as u64) as usize;
                    strides[d] = match rng.below(4) { 0 => 0, 1 => strides[d] + 1, 2 => strides[d].saturating_sub(1), _ => rng.below(40) as usize };
                }
                if rng.chance(1, 2) {
                    let d = rng.below(rank as u64) as usize;
                    let j = rng.below(rank as u64) as usize;
                    shape.swap(d, j);
                    strides.swap(d, j);
                }
            }
            7 => {
                for d in 0..rank {
                    strides[d] = rng.below(30) as usize;
                }
            }
            _ => {
                // extremes
                for d in 0..rank {
                    if rng.chance(1, 2) { strides[d] = rng.pick(&big); }
                    if rng.chance(1, 3) { shape[d] = rng.pick(&big); }
                }
                if rng.chance(1, 2) { strides = contiguous_strides(&shape); }
                if rng.chance(1, 3) && rank > 0 { strides[0] = 0; }
            }
        }
        writeln!(out, "{}|{}", fmt_list(&shape), fmt_list(&strides)).unwrap();
    }
}

fn main() {
    quiet_panics();
    let args: Vec<String> = std::env::args().collect();
    let stdout = std::io::stdout();
    let mut out = std::io::BufWriter::new(stdout.lock());
    match args.get(1).map(|s| s.as_str()) {
        Some("gen") => {
            let seed: u64 = args[2].parse().unwrap();
            let n: usize = args[3].parse().unwrap();
            generate(seed, n, &args[4], &mut out);
        }
        Some("exec") => {
            for line in std::io::stdin().lock().lines() {
                let line = line.unwrap();
                if line.trim().is_empty() { continue; }
                writeln!(out, "{}", exec_line(&line)).unwrap();
            }
        }
        _ => {
            eprintln!("usage: c08 gen <seed> <n> <tier> | c08 exec");
            std::process::exit(2);
        }
    }
}
